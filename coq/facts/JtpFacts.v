(* Facts about the Jtp model (jtp.Get): cold fetches, redirect paths, request bounds, the shape of
   an accepted response, soundness of the cache, and (conditional) transparency of the cache. *)
From Servitor Require Import Base Mime Json Jtp.
Local Open Scope nat_scope.

(* ---------------------------------------------------------------- the LRU cache only permutes, drops, adds *)
Lemma c_find_In (c : cache) (k : url) (o : outcome) : c_find c k = Some o -> In (k, o) c.
Proof.
  induction c as [|[k' v] r IH]; simpl; intros H; [discriminate|].
  destruct (text_eqb k k') eqn:E.
  - apply text_eqb_eq in E. left. congruence.
  - right. auto.
Qed.

Lemma c_remove_In (c : cache) (k : url) (x : url * outcome) : In x (c_remove c k) -> In x c.
Proof.
  induction c as [|[k' v] r IH]; simpl; intros H; [assumption|].
  destruct (text_eqb k k'); [right; assumption|].
  destruct H as [H|H]; [left; assumption|right; auto].
Qed.

Lemma firstn_In {A} (n : nat) (l : list A) (x : A) : In x (firstn n l) -> In x l.
Proof.
  revert l; induction n as [|n IH]; intros [|a l]; simpl; intros H; try contradiction.
  destruct H as [H|H]; [left; assumption|right; auto].
Qed.

Lemma c_add_In (cap : nat) (c : cache) (k : url) (v : outcome) (x : url * outcome) :
  In x (c_add cap c k v) -> x = (k, v) \/ In x c.
Proof.
  unfold c_add. intros H. apply firstn_In in H. destruct H as [H|H].
  - left. congruence.
  - right. eapply c_remove_In; eassumption.
Qed.

Lemma c_get_hit (c : cache) (k : url) (o : outcome) (c' : cache) :
  c_get c k = (Some o, c') -> In (k, o) c /\ forall x, In x c' -> In x c.
Proof.
  unfold c_get. destruct (c_find c k) as [v|] eqn:E; [|discriminate].
  intros H. injection H as H1 H2. subst v c'. apply c_find_In in E. split; [assumption|].
  intros x [Hx|Hx]; [congruence|]. eapply c_remove_In; eassumption.
Qed.

(* ---------------------------------------------------------------- byte-level: lines *)
Definition is_line (l : bytes) : Prop := exists p, l = p ++ [LF] /\ ~ In LF p.

Lemma read_line_spec (bs line rest : bytes) :
  read_line bs = Some (line, rest) <-> (is_line line /\ bs = line ++ rest).
Proof.
  split.
  - revert line. induction bs as [|c r IH]; simpl; intros line H; [discriminate|].
    destruct (N.eqb c LF) eqn:E.
    + apply N.eqb_eq in E. injection H as H1 H2. subst. split; [|reflexivity].
      exists []. split; [reflexivity|]. intros [].
    + destruct (read_line r) as [[l r']|]; [|discriminate].
      injection H as H1 H2. subst. destruct (IH l eq_refl) as [[p [Hp Hn]] Hr].
      apply N.eqb_neq in E. split.
      * exists (c :: p). split; [rewrite Hp; reflexivity|].
        intros [Hc|Hc]; [congruence|auto].
      * rewrite Hr. reflexivity.
  - intros [[p [Hp Hn]] Hb]. subst. revert Hn. induction p as [|c p IH]; intros Hn.
    + reflexivity.
    + cbn [app read_line]. destruct (N.eqb c LF) eqn:E.
      * apply N.eqb_eq in E. exfalso. apply Hn. left. congruence.
      * cbn [app] in IH. rewrite IH; [reflexivity|]. intros Hc. apply Hn. right. assumption.
Qed.

Lemma is_blank_line (l : bytes) : is_blank l = true -> is_line l.
Proof.
  destruct l as [|a [|b [|c l]]]; simpl; try discriminate.
  - intros H. apply N.eqb_eq in H. subst. exists []. split; [reflexivity|intros []].
  - intros H. apply andb_true_iff in H as [H1 H2]. apply N.eqb_eq in H1, H2. subst.
    exists [CR]. split; [reflexivity|]. intros [H|[]]. discriminate.
Qed.

Lemma is_line_nonempty (l : bytes) : is_line l -> 1 <= length l.
Proof. intros [p [Hp _]]. subst. rewrite app_length. simpl. lia. Qed.

(* ---------------------------------------------------------------- validate_headers *)
(* one Content-Type line is acceptable when its value parses to a tolerated media type *)
Definition ct_ok (tol : list text) (l : bytes) : Prop :=
  forall v, header_value h_content_type l = Some v ->
            exists m, mime_parse v = Some m /\ mt_matches m tol = true.

(* the stream is a sequence of non-blank lines (each ending in its only LF), then a blank line;
   every Content-Type line among them is acceptable; one was seen before or is among them *)
Definition headers_valid (tol : list text) (bs : bytes) (seen : bool) : Prop :=
  exists lines blank tail,
    bs = concat lines ++ blank ++ tail /\
    Forall is_line lines /\ Forall (fun l => is_blank l = false) lines /\
    is_blank blank = true /\
    Forall (ct_ok tol) lines /\
    (seen = true \/ Exists (fun l => header_value h_content_type l <> None) lines).

Lemma validate_headers_sound (fuel : nat) (tol : list text) :
  forall bs seen, validate_headers fuel tol bs seen = Some true -> headers_valid tol bs seen.
Proof.
  induction fuel as [|f IH]; intros bs seen H; simpl in H; [discriminate|].
  destruct (read_line bs) as [[line rest]|] eqn:Hr; [|discriminate].
  apply read_line_spec in Hr. destruct Hr as [Hl Hb].
  destruct (is_blank line) eqn:Hbl.
  - injection H as H. subst seen. exists [], line, rest. simpl.
    repeat split; auto.
  - destruct (header_value h_content_type line) as [v|] eqn:Hv.
    + destruct (mime_parse v) as [m|] eqn:Hm; [|discriminate].
      destruct (mt_matches m tol) eqn:Hmt; [|discriminate].
      apply IH in H. destruct H as (lines & blank & tail & H1 & H2 & H3 & H4 & H5 & H6).
      exists (line :: lines), blank, tail. simpl. rewrite <- app_assoc, <- H1.
      repeat split; auto.
      * constructor; [|assumption]. intros v' Hv'. rewrite Hv in Hv'. injection Hv' as Hv'. subst v'.
        exists m. auto.
      * right. apply Exists_cons_hd. rewrite Hv. discriminate.
    + apply IH in H. destruct H as (lines & blank & tail & H1 & H2 & H3 & H4 & H5 & H6).
      exists (line :: lines), blank, tail. simpl. rewrite <- app_assoc, <- H1.
      repeat split; auto.
      * constructor; [|assumption]. intros v' Hv'. rewrite Hv in Hv'. discriminate.
      * destruct H6 as [H6|H6]; [left; assumption|right; apply Exists_cons_tl; assumption].
Qed.

Lemma validate_headers_complete (tol : list text) :
  forall fuel bs seen, length bs < fuel -> headers_valid tol bs seen ->
                       validate_headers fuel tol bs seen = Some true.
Proof.
  intros fuel bs seen Hlen (lines & blank & tail & H1 & H2 & H3 & H4 & H5 & H6).
  revert fuel bs seen Hlen H1 H2 H3 H5 H6.
  induction lines as [|l ls IH]; intros fuel bs seen Hlen H1 H2 H3 H5 H6.
  - destruct fuel as [|f]; [lia|]. simpl in H1. simpl.
    assert (Hr : read_line bs = Some (blank, tail)).
    { apply read_line_spec. split; [apply is_blank_line; assumption|assumption]. }
    rewrite Hr, H4. destruct H6 as [H6|H6]; [congruence|inversion H6].
  - destruct fuel as [|f]; [lia|]. simpl in H1. rewrite <- app_assoc in H1.
    inversion H2 as [|? ? Hl H2']; subst.
    inversion H3 as [|? ? Hbl H3']; subst.
    inversion H5 as [|? ? Hct H5']; subst.
    assert (Hr : read_line (l ++ concat ls ++ blank ++ tail) = Some (l, concat ls ++ blank ++ tail)).
    { apply read_line_spec. split; [assumption|reflexivity]. }
    simpl. rewrite Hr, Hbl.
    assert (Hlen' : length (concat ls ++ blank ++ tail) < f).
    { apply is_line_nonempty in Hl. rewrite app_length in Hlen. lia. }
    destruct (header_value h_content_type l) as [v|] eqn:Hv.
    + destruct (Hct v Hv) as [m [Hm Hmt]]. rewrite Hm, Hmt.
      apply IH; auto.
    + apply IH; auto. destruct H6 as [H6|H6]; [left; assumption|].
      inversion H6 as [? ? Hx|? ? Hx]; subst; [congruence|right; assumption].
Qed.

Theorem validate_headers_spec_fact : forall fuel tol bs seen,
  (validate_headers fuel tol bs seen = Some true -> headers_valid tol bs seen) /\
  (length bs < fuel -> headers_valid tol bs seen -> validate_headers fuel tol bs seen = Some true).
Proof.
  intros fuel tol bs seen. split.
  - apply validate_headers_sound.
  - apply validate_headers_complete.
Qed.

Section JtpFacts.
Variables (W : url -> entry) (is_https : url -> bool) (resolve : url -> bytes -> option url)
          (tolerated : list text).

Notation getW := (get W is_https resolve tolerated).

Definition cold (b : nat) (u : url) : outcome * list url :=
  let '(o, _, log) := get W is_https resolve tolerated 0 b [] u in (o, log).

Inductive path : url -> list url -> url -> Prop :=
| p_here : forall u, path u [u] u
| p_step : forall u v loc us dst, is_https u = true -> e_dial (W u) = true ->
    classify_response tolerated (W u) = HRedirect v -> resolve u v = Some loc ->
    path loc us dst -> path u (u :: us) dst.

Definition cache_sound (c : cache) : Prop := forall k o, In (k, o) c -> exists b, o = fst (cold b k).

(* ---------------------------------------------------------------- one hop *)
(* what the first exchange decides: stop with an outcome (the requests made; whether the outcome
   is cached at this hop), or go on to another URL *)
Inductive hopres := RStop (o : outcome) (log : list url) (ci : bool) | RGo (loc : url).

Definition hop1 (u : url) : hopres :=
  if negb (is_https u) then RStop (OErr EScheme) [] false
  else if negb (e_dial (W u)) then RStop (OErr EDial) [] false
  else match classify_response tolerated (W u) with
       | HErr err => RStop (OErr err) [u] false
       | HDoc d => RStop (ODoc d u) [u] true
       | HRedirect v =>
           match resolve u v with
           | None => RStop (OErr ELocation) [u] false
           | Some loc => RGo loc
           end
       end.

Lemma get_unfold (cap b : nat) (c : cache) (u : url) :
  getW cap b c u =
  match c_get c u with
  | (Some o, c') => (o, c', [])
  | (None, _) =>
      match hop1 u with
      | RStop o log ci => (o, if ci then c_add cap c u o else c, log)
      | RGo loc =>
          match b with
          | O => (OErr ETooMany, c, [u])
          | S b' => let '(o, c', log) := getW cap b' c loc in (o, c_add cap c' u o, u :: log)
          end
      end
  end.
Proof.
  unfold hop1.
  destruct b; cbn [get]; destruct (c_get c u) as [[o|] c']; try reflexivity;
    destruct (negb (is_https u)); try reflexivity;
    destruct (negb (e_dial (W u))); try reflexivity;
    destruct (classify_response tolerated (W u)) as [d|v|err]; try reflexivity;
    destruct (resolve u v); reflexivity.
Qed.

Lemma hop1_doc (u : url) (d : list (text * jv)) (s : url) (log : list url) (ci : bool) :
  hop1 u = RStop (ODoc d s) log ci ->
  s = u /\ log = [u] /\ is_https u = true /\ e_dial (W u) = true /\
  classify_response tolerated (W u) = HDoc d.
Proof.
  unfold hop1. destruct (is_https u); simpl; [|discriminate].
  destruct (e_dial (W u)); simpl; [|discriminate].
  destruct (classify_response tolerated (W u)) as [d'|v|err]; try discriminate.
  - intros H. injection H as H1 H2 H3 H4. subst. auto.
  - destruct (resolve u v); discriminate.
Qed.

Lemma hop1_go (u loc : url) :
  hop1 u = RGo loc ->
  is_https u = true /\ e_dial (W u) = true /\
  exists v, classify_response tolerated (W u) = HRedirect v /\ resolve u v = Some loc.
Proof.
  unfold hop1. destruct (is_https u); simpl; [|discriminate].
  destruct (e_dial (W u)); simpl; [|discriminate].
  destruct (classify_response tolerated (W u)) as [d'|v|err]; try discriminate.
  destruct (resolve u v) as [l|] eqn:E; [|discriminate].
  intros H. injection H as H. subst. eauto.
Qed.

Lemma hop1_log (u : url) (o : outcome) (log : list url) (ci : bool) :
  hop1 u = RStop o log ci -> length log <= 1.
Proof.
  unfold hop1. destruct (negb (is_https u)).
  { intros H. injection H as H1 H2 H3. subst. simpl. lia. }
  destruct (negb (e_dial (W u))).
  { intros H. injection H as H1 H2 H3. subst. simpl. lia. }
  destruct (classify_response tolerated (W u)) as [d'|v|err].
  - intros H. injection H as H1 H2 H3. subst. simpl. lia.
  - destruct (resolve u v); [discriminate|].
    intros H. injection H as H1 H2 H3. subst. simpl. lia.
  - intros H. injection H as H1 H2 H3. subst. simpl. lia.
Qed.

(* ---------------------------------------------------------------- cold fetches *)
Lemma cold_unfold (b : nat) (u : url) :
  cold b u =
  match hop1 u with
  | RStop o log _ => (o, log)
  | RGo loc =>
      match b with
      | O => (OErr ETooMany, [u])
      | S b' => let '(o, log) := cold b' loc in (o, u :: log)
      end
  end.
Proof.
  unfold cold. rewrite get_unfold. simpl c_get.
  destruct (hop1 u) as [o log ci|loc]; [destruct ci; reflexivity|].
  destruct b as [|b]; [reflexivity|].
  destruct (getW 0 b [] loc) as [[o c'] log]. reflexivity.
Qed.

Lemma get_nil_cold (cap b : nat) (u : url) :
  (fst (fst (getW cap b [] u)), snd (getW cap b [] u)) = cold b u.
Proof.
  revert u. induction b as [|b IH]; intros u; rewrite get_unfold, cold_unfold; simpl c_get;
    destruct (hop1 u) as [o log ci|loc]; try reflexivity.
  rewrite <- IH. destruct (getW cap b [] loc) as [[o c'] log]. reflexivity.
Qed.

(* T1 *)
Theorem get_cold_fact : forall cap b u,
  let '(o, _, log) := get W is_https resolve tolerated cap b [] u in (o, log) = cold b u.
Proof.
  intros cap b u. generalize (get_nil_cold cap b u).
  destruct (getW cap b [] u) as [[o c'] log]. simpl. auto.
Qed.

Lemma path_nonempty (u : url) (l : list url) (d : url) : path u l d -> 1 <= length l.
Proof. intros H. destruct H; simpl; lia. Qed.

(* T2 *)
Theorem cold_sound_fact : forall b u d src log, cold b u = (ODoc d src, log) ->
  path u log src /\ (length log <= b + 1)%nat /\ is_https src = true /\ e_dial (W src) = true /\
  classify_response tolerated (W src) = HDoc d.
Proof.
  induction b as [|b IH]; intros u d src log H; rewrite cold_unfold in H;
    destruct (hop1 u) as [o l ci|loc] eqn:Hh.
  - injection H as H1 H2. subst. apply hop1_doc in Hh. destruct Hh as (-> & -> & H1 & H2 & H3).
    repeat split; auto. constructor.
  - discriminate.
  - injection H as H1 H2. subst. apply hop1_doc in Hh. destruct Hh as (-> & -> & H1 & H2 & H3).
    repeat split; auto. + constructor. + simpl. lia.
  - destruct (cold b loc) as [o' log'] eqn:Hc. injection H as H1 H2. subst.
    apply IH in Hc. destruct Hc as (Hp & Hl & H1 & H2 & H3).
    apply hop1_go in Hh. destruct Hh as (G1 & G2 & v & G3 & G4).
    repeat split; auto.
    + eapply p_step; eassumption.
    + simpl. lia.
Qed.

(* T3 *)
Theorem cold_complete_fact : forall b u d src log, path u log src -> (length log <= b + 1)%nat ->
  is_https src = true -> e_dial (W src) = true -> classify_response tolerated (W src) = HDoc d ->
  cold b u = (ODoc d src, log).
Proof.
  intros b u d src log Hp. revert b. induction Hp as [u|u v loc us dst H1 H2 H3 H4 Hp IH];
    intros b Hl Hs Hd Hc; rewrite cold_unfold; unfold hop1.
  - rewrite Hs, Hd, Hc. reflexivity.
  - rewrite H1, H2, H3, H4. simpl.
    pose proof (path_nonempty _ _ _ Hp) as Hn. simpl in Hl.
    destruct b as [|b]; [lia|].
    rewrite IH; auto. lia.
Qed.

(* T4 *)
Theorem get_requests_fact : forall cap b c u,
  (length (snd (get W is_https resolve tolerated cap b c u)) <= b + 1)%nat.
Proof.
  intros cap b. induction b as [|b IH]; intros c u; rewrite get_unfold;
    destruct (c_get c u) as [[o|] c']; simpl; try lia;
    destruct (hop1 u) as [o log ci|loc] eqn:Hh; simpl; try lia;
    try (apply hop1_log in Hh; lia).
  specialize (IH c loc). destruct (getW cap b c loc) as [[o c''] log]. simpl in *. lia.
Qed.

(* T5 *)
Theorem classify_doc_fact : forall e d, classify_response tolerated e = HDoc d ->
  exists sl rest a b c, read_line (e_bytes e) = Some (sl, rest) /\ parse_status_line sl = Some (a, b, c) /\
    a = 50%N /\ b = 48%N /\ (48 <= c <= 51)%N /\
    validate_headers (S (length rest)) tolerated rest false = Some true /\ e_body e = BObj d.
Proof.
  intros e d. unfold classify_response.
  destruct (read_line (e_bytes e)) as [[sl rest]|] eqn:Hr; [|discriminate].
  destruct (parse_status_line sl) as [[[a b] c]|] eqn:Hp; [|discriminate].
  destruct (N.eqb a 51).
  { destruct (find_location (S (length rest)) rest); discriminate. }
  destruct (N.eqb a 50 && N.eqb b 48 && (N.leb 48 c && N.leb c 51)) eqn:E; [|discriminate].
  destruct (validate_headers (S (length rest)) tolerated rest false) as [[|]|] eqn:Hv; try discriminate.
  destruct (e_body e) as [d'| |] eqn:Hb; try discriminate.
  intros H. injection H as H. subst d'.
  apply andb_true_iff in E as [E E3]. apply andb_true_iff in E as [E1 E2].
  apply andb_true_iff in E3 as [E3 E4].
  apply N.eqb_eq in E1, E2. apply N.leb_le in E3, E4.
  exists sl, rest, a, b, c. repeat split; auto.
Qed.

(* T6 *)
Lemma cold_stop (u : url) (o : outcome) (log : list url) (ci : bool) (b : nat) :
  hop1 u = RStop o log ci -> fst (cold b u) = o.
Proof. intros H. rewrite cold_unfold, H. reflexivity. Qed.

Lemma cold_go (u loc : url) (b : nat) :
  hop1 u = RGo loc -> fst (cold (S b) u) = fst (cold b loc).
Proof. intros H. rewrite cold_unfold, H. destruct (cold b loc). reflexivity. Qed.

Lemma cold_go0 (u loc : url) : hop1 u = RGo loc -> fst (cold 0 u) = OErr ETooMany.
Proof. intros H. rewrite cold_unfold, H. reflexivity. Qed.

Lemma cache_sound_add (cap : nat) (c : cache) (k : url) (o : outcome) :
  cache_sound c -> (exists b, o = fst (cold b k)) -> cache_sound (c_add cap c k o).
Proof.
  intros Hc Ho k' o' Hin. apply c_add_In in Hin. destruct Hin as [Hin|Hin].
  - injection Hin as H1 H2. subst. assumption.
  - apply Hc. assumption.
Qed.

Theorem get_cache_sound_fact : forall cap b c u, cache_sound c ->
  let '(o, c', _) := get W is_https resolve tolerated cap b c u in
  cache_sound c' /\ exists b', o = fst (cold b' u).
Proof.
  intros cap b. induction b as [|b IH]; intros c u Hc; rewrite get_unfold;
    destruct (c_get c u) as [[o|] c'] eqn:Hg.
  - apply c_get_hit in Hg. destruct Hg as [Hin Hsub]. split; [|apply Hc; assumption].
    intros k o' Hk. apply Hc. apply Hsub. assumption.
  - destruct (hop1 u) as [o log ci|loc] eqn:Hh.
    + assert (Ho : exists b', o = fst (cold b' u)).
      { exists 0. symmetry. eapply cold_stop. eassumption. }
      split; [|assumption]. destruct ci; [apply cache_sound_add; assumption|assumption].
    + split; [assumption|]. exists 0. symmetry. eapply cold_go0. eassumption.
  - apply c_get_hit in Hg. destruct Hg as [Hin Hsub]. split; [|apply Hc; assumption].
    intros k o' Hk. apply Hc. apply Hsub. assumption.
  - destruct (hop1 u) as [o log ci|loc] eqn:Hh.
    + assert (Ho : exists b', o = fst (cold b' u)).
      { exists 0. symmetry. eapply cold_stop. eassumption. }
      split; [|assumption]. destruct ci; [apply cache_sound_add; assumption|assumption].
    + specialize (IH c loc Hc). destruct (getW cap b c loc) as [[o c''] log].
      destruct IH as [Hc'' [b' Hb']].
      assert (Ho : exists b0, o = fst (cold b0 u)).
      { exists (S b'). rewrite (cold_go _ _ _ Hh). assumption. }
      split; [|assumption]. apply cache_sound_add; assumption.
Qed.

(* ---------------------------------------------------------------- T7: cache transparency *)
(* the number of redirects followed from u until a non-redirect answer; None if more than n *)
Fixpoint redirects (n : nat) (u : url) {struct n} : option nat :=
  if negb (is_https u) then Some 0
  else if negb (e_dial (W u)) then Some 0
  else match classify_response tolerated (W u) with
       | HErr _ => Some 0
       | HDoc _ => Some 0
       | HRedirect v =>
           match resolve u v with
           | None => Some 0
           | Some loc =>
               match n with
               | O => None
               | S n' => option_map S (redirects n' loc)
               end
           end
       end.

Definition tame : Prop :=
  forall u, (exists k, (k <= 20)%nat /\ forall n, (k <= n)%nat -> redirects n u = Some k) \/
            (forall n, redirects n u = None).

Definition fetch_all (cap : nat) (hist : list url) : cache :=
  fold_left (fun c u => snd (fst (get W is_https resolve tolerated cap 20 c u))) hist [].

Lemma redirects_unfold (n : nat) (u : url) :
  redirects n u =
  match hop1 u with
  | RStop _ _ _ => Some 0
  | RGo loc => match n with O => None | S n' => option_map S (redirects n' loc) end
  end.
Proof.
  unfold hop1. destruct n; cbn [redirects];
    destruct (negb (is_https u)); try reflexivity;
    destruct (negb (e_dial (W u))); try reflexivity;
    destruct (classify_response tolerated (W u)) as [d|v|err]; try reflexivity;
    destruct (resolve u v); reflexivity.
Qed.

Lemma cold_budget_enough : forall n u k b1 b2,
  redirects n u = Some k -> k <= b1 -> k <= b2 -> fst (cold b1 u) = fst (cold b2 u).
Proof.
  induction n as [|n IH]; intros u k b1 b2 Hr H1 H2; rewrite redirects_unfold in Hr;
    rewrite (cold_unfold b1), (cold_unfold b2); destruct (hop1 u) as [o log ci|loc]; try reflexivity.
  - discriminate.
  - destruct (redirects n loc) as [k'|] eqn:Hk; [|discriminate]. simpl in Hr.
    injection Hr as Hr. subst k.
    destruct b1 as [|b1]; [lia|]. destruct b2 as [|b2]; [lia|].
    assert (He : fst (cold b1 loc) = fst (cold b2 loc)) by (apply (IH loc k'); auto; lia).
    destruct (cold b1 loc), (cold b2 loc). simpl in *. assumption.
Qed.

Lemma cold_endless : forall u, (forall n, redirects n u = None) ->
  forall b, fst (cold b u) = OErr ETooMany.
Proof.
  intros u Hu b. revert u Hu. induction b as [|b IH]; intros u Hu; rewrite cold_unfold;
    destruct (hop1 u) as [o log ci|loc] eqn:Hh.
  - specialize (Hu 0). rewrite redirects_unfold, Hh in Hu. discriminate.
  - reflexivity.
  - specialize (Hu 0). rewrite redirects_unfold, Hh in Hu. discriminate.
  - assert (Hl : forall n, redirects n loc = None).
    { intros n. specialize (Hu (S n)). rewrite redirects_unfold, Hh in Hu.
      destruct (redirects n loc); [discriminate|reflexivity]. }
    specialize (IH loc Hl). destruct (cold b loc). simpl in *. assumption.
Qed.

(* budget b is enough for u: its chain has at most b redirects, or never ends *)
Definition suff (b : nat) (u : url) : Prop :=
  (exists k, k <= b /\ forall n, k <= n -> redirects n u = Some k) \/ (forall n, redirects n u = None).

Lemma suff_cold (b b1 b2 : nat) (u : url) :
  suff b u -> b <= b1 -> b <= b2 -> fst (cold b1 u) = fst (cold b2 u).
Proof.
  intros [[k [Hk Hr]]|He] H1 H2.
  - apply (cold_budget_enough k u k); [apply Hr; lia|lia|lia].
  - rewrite !cold_endless; auto.
Qed.

Lemma suff_go0 (u loc : url) : hop1 u = RGo loc -> suff 0 u -> forall n, redirects n u = None.
Proof.
  intros Hh [[k [Hk Hr]]|He]; [|assumption].
  specialize (Hr 0 Hk). rewrite redirects_unfold, Hh in Hr. discriminate.
Qed.

Lemma suff_go (b : nat) (u loc : url) : hop1 u = RGo loc -> suff (S b) u -> suff b loc.
Proof.
  intros Hh [[k [Hk Hr]]|He].
  - left. destruct k as [|k].
    + specialize (Hr 0 (le_n 0)). rewrite redirects_unfold, Hh in Hr. discriminate.
    + exists k. split; [lia|]. intros n Hn.
      assert (Hn' : S k <= S n) by lia.
      specialize (Hr (S n) Hn'). rewrite redirects_unfold, Hh in Hr.
      destruct (redirects n loc) as [k'|]; [|discriminate]. simpl in Hr. congruence.
  - right. intros n. specialize (He (S n)). rewrite redirects_unfold, Hh in He.
    destruct (redirects n loc); [discriminate|reflexivity].
Qed.

(* every cached answer is the answer of a cold fetch with the full budget *)
Definition cache_full (c : cache) : Prop := forall k o, In (k, o) c -> o = fst (cold 20 k).

Lemma cache_full_add (cap : nat) (c : cache) (k : url) (o : outcome) :
  cache_full c -> o = fst (cold 20 k) -> cache_full (c_add cap c k o).
Proof.
  intros Hc Ho k' o' Hin. apply c_add_In in Hin. destruct Hin as [Hin|Hin].
  - injection Hin as H1 H2. congruence.
  - apply Hc. assumption.
Qed.

Lemma get_full (cap : nat) : forall b c u, b <= 20 -> suff b u -> cache_full c ->
  fst (fst (getW cap b c u)) = fst (cold 20 u) /\ cache_full (snd (fst (getW cap b c u))).
Proof.
  induction b as [|b IH]; intros c u Hb Hs Hc; rewrite get_unfold;
    destruct (c_get c u) as [[o|] c'] eqn:Hg.
  - apply c_get_hit in Hg. destruct Hg as [Hin Hsub]. simpl. split; [apply Hc; assumption|].
    intros k o' Hk. apply Hc. apply Hsub. assumption.
  - destruct (hop1 u) as [o log ci|loc] eqn:Hh; simpl.
    + assert (Ho : o = fst (cold 20 u)) by (symmetry; eapply cold_stop; eassumption).
      split; [assumption|]. destruct ci; [apply cache_full_add; assumption|assumption].
    + split; [|assumption]. symmetry. apply cold_endless. eapply suff_go0; eassumption.
  - apply c_get_hit in Hg. destruct Hg as [Hin Hsub]. simpl. split; [apply Hc; assumption|].
    intros k o' Hk. apply Hc. apply Hsub. assumption.
  - destruct (hop1 u) as [o log ci|loc] eqn:Hh; simpl.
    + assert (Ho : o = fst (cold 20 u)) by (symmetry; eapply cold_stop; eassumption).
      split; [assumption|]. destruct ci; [apply cache_full_add; assumption|assumption].
    + pose proof (suff_go _ _ _ Hh Hs) as Hs'.
      assert (Hb' : b <= 20) by lia.
      specialize (IH c loc Hb' Hs' Hc). destruct (getW cap b c loc) as [[o c''] log].
      simpl in *. destruct IH as [Ho Hc''].
      assert (Hou : o = fst (cold 20 u)).
      { rewrite (cold_go _ _ 19 Hh). rewrite Ho. apply (suff_cold b); auto; lia. }
      split; [assumption|]. apply cache_full_add; assumption.
Qed.

Lemma fetch_all_full (cap : nat) (hist : list url) : tame -> cache_full (fetch_all cap hist).
Proof.
  intros Ht. unfold fetch_all.
  assert (G : forall c, cache_full c ->
    cache_full (fold_left (fun c u => snd (fst (getW cap 20 c u))) hist c)).
  { induction hist as [|h hs IH]; intros c Hc; simpl; [assumption|].
    apply IH. apply (get_full cap 20 c h); auto. apply Ht. }
  apply G. intros k o [].
Qed.

Theorem cache_transparent_partial_fact : tame -> forall cap hist u,
  fst (fst (get W is_https resolve tolerated cap 20 (fetch_all cap hist) u)) = fst (cold 20 u).
Proof.
  intros Ht cap hist u.
  destruct (get_full cap 20 (fetch_all cap hist) u) as [H _];
    [lia | apply Ht | apply fetch_all_full; assumption | exact H].
Qed.

End JtpFacts.

Print Assumptions validate_headers_spec_fact.
Print Assumptions get_cold_fact.
Print Assumptions cold_sound_fact.
Print Assumptions cold_complete_fact.
Print Assumptions get_requests_fact.
Print Assumptions classify_doc_fact.
Print Assumptions get_cache_sound_fact.
Print Assumptions cache_transparent_partial_fact.

(* ---------------------------------------------------------------- T8: transparency fails beyond the budget *)
Definition ex_redirect : bytes :=
  [72;84;84;80;47;49;46;48;32;51;48;50;32;120;10;76;111;99;97;116;105;111;110;58;32;121;10;10]%N.
Definition ex_doc : bytes :=
  [72;84;84;80;47;49;46;48;32;50;48;48;32;79;75;10;67;111;110;116;101;110;116;45;84;121;112;101;58;32;
   97;112;112;108;105;99;97;116;105;111;110;47;106;115;111;110;10;10]%N.
Definition ex_json : text := [97;112;112;108;105;99;97;116;105;111;110;47;106;115;111;110]%N.

Definition ex_W (u : url) : entry :=
  match u with
  | [n] => if N.ltb n 21 then mkentry true ex_redirect BBad
           else if N.eqb n 21 then mkentry true ex_doc (BObj [])
           else mkentry false [] BBad
  | _ => mkentry false [] BBad
  end.
Definition ex_resolve (u : url) (_ : bytes) : option url :=
  match u with [n] => Some [(n + 1)%N] | _ => None end.

Theorem cache_transparent_refuted_fact :
  exists W is_https resolve tol cap hist u,
    fst (fst (get W is_https resolve tol cap 20
                  (fold_left (fun c x => snd (fst (get W is_https resolve tol cap 20 c x))) hist []) u))
    <> fst (fst (get W is_https resolve tol 0 20 [] u)).
Proof.
  exists ex_W, (fun _ => true), ex_resolve, [ex_json], 100, [[0%N]], [5%N].
  vm_compute. discriminate.
Qed.

Print Assumptions cache_transparent_refuted_fact.
