(* Facts about what is opened for typed input (theories/Open.v, fetch_user_input): provenance of the
   object that is accepted, when the ActivityPub fetcher and the webfinger lookup share ONE cache.

   The difficulty.  ClientFacts.fetch_unknown_provenance_fact needs  cache_sound W .. as_tolerated c :
   EVERY entry (k, o) of the cache is the outcome of a cold fetch of k in the world W with the
   ActivityPub tolerated types.  A webfinger lookup leaves entries under tagged keys (tag u); they are
   outcomes of cold fetches in the tagged world (W_t, jrd_tolerated), not in W - in W the key "tag u"
   is not even an https URL (see [mixed_needed_example] at the end: after a lookup the cache is NOT
   cache_sound).  So the existing theorem cannot be applied to the second half of fetch_user_input.

   What is proved here.
   - [mixed_sound c]: every entry under an untagged key is sound in the sense of ClientFacts, every
     entry under a tagged key is the outcome of a cold fetch of that key in the tagged world.
   - [get] in either world, started from a key of its own class, only ever looks up, follows and adds
     keys of its own class ([get_sound_on], [get_agree], generic in the class), hence
     [get_mixed_fact] / [get_t_mixed_fact]: the outcome is sound, the cache stays mixed-sound, and
     outcome and requests are those obtained from the part of the cache with keys of that class.
   - [fetch_unknown_mixed_provenance_fact]: ClientFacts' provenance theorem with mixed_sound.
   - [fetch_user_input_provenance_fact], [fetch_user_input_cache_fact],
     [fetch_user_input_requests_fact].
   - a concrete world in which "@a@h" is opened ([open_example], [open_example_served]).

   World hygiene (Section hypotheses, premises of exactly the theorems that use them):
     Hres   : a Location resolved against an UNTAGGED URL is untagged       (get_mixed_fact and on)
     Hparse : url.Parse of a reference never yields a tagged URL            (fetch_unknown_* and on)
     Hurl   : url.Parse of an "id" never yields a tagged URL                (fetch_unknown_* and on)
   Nothing is needed about mk_url: the lookup fetches  tag (mk_url dom uri), tagged by construction,
   and resolve_t tags whatever it returns, so the tagged world never leaves the tagged keys.  Nothing
   is needed about the typed text, the source or the JSON input either: every URL fetch_unknown
   fetches comes out of parse_ref or url_parse. *)
From Servitor Require Import Base Unicode Ansi Mime Json Object Jtp Client Request Webfinger Listing Open.
From Servitor.Facts Require Import JtpFacts RequestFacts ClientFacts WebfingerFacts ListingFacts.
Local Open Scope nat_scope.

(* ---------------------------------------------------------------- tagged keys *)
Fixpoint has_prefix (p l : text) : bool :=
  match p, l with
  | [], _ => true
  | a :: p', b :: l' => N.eqb a b && has_prefix p' l'
  | _ :: _, [] => false
  end.

Definition is_tagged (k : url) : Prop := exists u, k = tag u.
Definition is_tagged_b (k : url) : bool := has_prefix wf_tag k.

Lemma has_prefix_spec (p l : text) : has_prefix p l = true <-> exists r, l = p ++ r.
Proof.
  revert l. induction p as [|a p IH]; intros l; simpl.
  - split; [intros _; exists l; reflexivity|reflexivity].
  - destruct l as [|b l].
    + split; [discriminate|]. intros [r Hr]. discriminate Hr.
    + split.
      * intros H. apply andb_true_iff in H as [H1 H2]. apply N.eqb_eq in H1. subst b.
        apply IH in H2. destruct H2 as [r Hr]. exists r. rewrite Hr. reflexivity.
      * intros [r Hr]. injection Hr as H1 H2. subst b. rewrite N.eqb_refl. simpl.
        apply IH. exists r. assumption.
Qed.

Lemma is_tagged_b_spec (k : url) : is_tagged_b k = true <-> is_tagged k.
Proof. unfold is_tagged_b, is_tagged, tag. apply has_prefix_spec. Qed.

Lemma is_tagged_tag (u : url) : is_tagged (tag u).
Proof. exists u. reflexivity. Qed.

Lemma is_tagged_dec (k : url) : {is_tagged k} + {~ is_tagged k}.
Proof.
  destruct (is_tagged_b k) eqn:E.
  - left. apply is_tagged_b_spec. assumption.
  - right. intros H. apply is_tagged_b_spec in H. congruence.
Qed.

Lemma not_tagged_b (k : url) : ~ is_tagged k -> negb (is_tagged_b k) = true.
Proof.
  intros H. destruct (is_tagged_b k) eqn:E; [|reflexivity].
  apply is_tagged_b_spec in E. contradiction.
Qed.

(* the part of a cache whose keys pass a test, in the same order *)
Definition part (pb : url -> bool) (c : cache) : cache := filter (fun kv => pb (fst kv)) c.
Definition untagged_part (c : cache) : cache := part (fun k => negb (is_tagged_b k)) c.
Definition tagged_part (c : cache) : cache := part is_tagged_b c.

Lemma c_find_part (pb : url -> bool) (c : cache) (k : url) :
  pb k = true -> c_find (part pb c) k = c_find c k.
Proof.
  intros Hk. induction c as [|[k' v] r IH]; [reflexivity|].
  unfold part in *. cbn [filter fst]. destruct (pb k') eqn:F; cbn [c_find].
  - rewrite IH. reflexivity.
  - destruct (text_eqb k k') eqn:E; [|assumption].
    apply text_eqb_eq in E. subst k'. congruence.
Qed.

(* ---------------------------------------------------------------- get and a class of keys *)
(* P is a class of keys closed under Location resolution.  [get] started from a key in P only looks
   up keys in P, only adds entries under keys in P, and - when the entries under keys in P are
   sound - returns a sound outcome and keeps them sound.  (LRU eviction only drops entries.) *)
Section KeyClass.
Variables (W : url -> entry) (is_https : url -> bool) (resolve : url -> bytes -> option url)
          (tol : list text) (cap : nat).
Variable P : url -> Prop.
Hypothesis Pres : forall u v r, P u -> resolve u v = Some r -> P r.

Notation getP := (get W is_https resolve tol cap).
Notation coldP := (cold W is_https resolve tol).
Notation hopP := (hop1 W is_https resolve tol).

Definition sound_on (c : cache) : Prop :=
  forall k o, In (k, o) c -> P k -> exists b, o = fst (coldP b k).

Lemma sound_on_add (c : cache) (k : url) (o : outcome) :
  sound_on c -> (exists b, o = fst (coldP b k)) -> sound_on (c_add cap c k o).
Proof.
  intros Hc Ho k' o' Hin Hk. apply c_add_In in Hin. destruct Hin as [Hin|Hin].
  - injection Hin as H1 H2. subst. assumption.
  - apply Hc; assumption.
Qed.

Lemma hop_go_P (u loc : url) : P u -> hopP u = RGo loc -> P loc.
Proof.
  intros Hu Hh. apply hop1_go in Hh. destruct Hh as (_ & _ & v & _ & Hr).
  eapply Pres; eassumption.
Qed.

Lemma get_sound_on : forall b c u, P u -> sound_on c ->
  sound_on (snd (fst (getP b c u))) /\
  (exists b', fst (fst (getP b c u)) = fst (coldP b' u)) /\
  (forall x, In x (snd (fst (getP b c u))) -> In x c \/ P (fst x)).
Proof.
  induction b as [|b IH]; intros c u Hu Hc; rewrite get_unfold;
    destruct (c_get c u) as [[o|] c'] eqn:Hg.
  - apply c_get_hit in Hg. destruct Hg as [Hin Hsub]. cbn [fst snd]. split; [|split].
    + intros k o' Hk. apply Hc. apply Hsub. assumption.
    + apply (Hc u o Hin Hu).
    + intros x Hx. left. apply Hsub. assumption.
  - destruct (hopP u) as [o log ci|loc] eqn:Hh; cbn [fst snd].
    + assert (Ho : exists b', o = fst (coldP b' u)).
      { exists 0. symmetry. eapply cold_stop. eassumption. }
      split; [|split; [assumption|]].
      * destruct ci; [apply sound_on_add; assumption|assumption].
      * intros x Hx. destruct ci; [|left; assumption].
        apply c_add_In in Hx. destruct Hx as [Hx|Hx]; [right; subst x; assumption|left; assumption].
    + split; [assumption|split].
      * exists 0. symmetry. eapply cold_go0. eassumption.
      * intros x Hx. left. assumption.
  - apply c_get_hit in Hg. destruct Hg as [Hin Hsub]. cbn [fst snd]. split; [|split].
    + intros k o' Hk. apply Hc. apply Hsub. assumption.
    + apply (Hc u o Hin Hu).
    + intros x Hx. left. apply Hsub. assumption.
  - destruct (hopP u) as [o log ci|loc] eqn:Hh; cbn [fst snd].
    + assert (Ho : exists b', o = fst (coldP b' u)).
      { exists 0. symmetry. eapply cold_stop. eassumption. }
      split; [|split; [assumption|]].
      * destruct ci; [apply sound_on_add; assumption|assumption].
      * intros x Hx. destruct ci; [|left; assumption].
        apply c_add_In in Hx. destruct Hx as [Hx|Hx]; [right; subst x; assumption|left; assumption].
    + pose proof (hop_go_P _ _ Hu Hh) as Hl. specialize (IH c loc Hl Hc).
      destruct (getP b c loc) as [[o c''] log]. cbn [fst snd] in *.
      destruct IH as (Hc'' & [b' Hb'] & Hk).
      assert (Ho : exists b0, o = fst (coldP b0 u)).
      { exists (S b'). rewrite (cold_go W is_https resolve tol u loc b' Hh). assumption. }
      split; [apply sound_on_add; assumption|split; [assumption|]].
      intros x Hx. apply c_add_In in Hx.
      destruct Hx as [Hx|Hx]; [right; subst x; assumption|apply Hk; assumption].
Qed.

(* entries under keys outside P are never read: two caches that agree on the keys in P give the
   same outcome and the same requests *)
Lemma get_agree : forall b c1 c2 u, P u -> (forall k, P k -> c_find c1 k = c_find c2 k) ->
  fst (fst (getP b c1 u)) = fst (fst (getP b c2 u)) /\ snd (getP b c1 u) = snd (getP b c2 u).
Proof.
  induction b as [|b IH]; intros c1 c2 u Hu Ha;
    rewrite (get_unfold W is_https resolve tol cap _ c1 u), (get_unfold W is_https resolve tol cap _ c2 u);
    unfold c_get; rewrite (Ha u Hu);
    destruct (c_find c2 u) as [o|]; cbn [fst snd]; try (split; reflexivity);
    destruct (hopP u) as [o log ci|loc] eqn:Hh; cbn [fst snd]; try (split; reflexivity).
  pose proof (hop_go_P _ _ Hu Hh) as Hl. specialize (IH c1 c2 loc Hl Ha).
  destruct (getP b c1 loc) as [[o1 c1'] l1]. destruct (getP b c2 loc) as [[o2 c2'] l2].
  cbn [fst snd] in *. destruct IH as [H1 H2]. subst. split; reflexivity.
Qed.

Lemma get_part (pb : url -> bool) : (forall k, P k -> pb k = true) ->
  forall b c u, P u ->
  fst (fst (getP b c u)) = fst (fst (getP b (part pb c) u)) /\
  snd (getP b c u) = snd (getP b (part pb c) u).
Proof.
  intros Hpb b c u Hu. apply get_agree; [assumption|].
  intros k Hk. symmetry. apply c_find_part. auto.
Qed.
End KeyClass.

(* ================================================================ the shared cache *)
Section OpenFacts.
Variables (W : url -> entry) (is_https : url -> bool) (resolve : url -> bytes -> option url)
          (cap : nat) (parse_ref : option url -> text -> option url) (url_parse : text -> option url)
          (host_of : url -> text) (mk_url : bytes -> bytes -> url).

Notation cold_ap := (cold W is_https resolve as_tolerated).
Notation cold_wf := (cold (W_t W) (is_https_t is_https) (resolve_t resolve) jrd_tolerated).
Notation get_ap := (get W is_https resolve as_tolerated cap).
Notation get_wf := (get (W_t W) (is_https_t is_https) (resolve_t resolve) jrd_tolerated cap).
Notation fu := (fetch_unknown W is_https resolve cap parse_ref url_parse host_of).
Notation furl := (fetch_url W is_https resolve cap).
Notation second2 := (second W is_https resolve cap url_parse host_of).
Notation servedW := (served W is_https resolve host_of).
Notation fui := (fetch_user_input W is_https resolve cap parse_ref url_parse host_of mk_url).
Notation rwf := (resolve_webfinger W is_https resolve cap mk_url).
Notation req_ok := (fun r : url => is_https r = true /\ e_dial (W r) = true).

(* ---------------------------------------------------------------- 1. soundness of a mixed cache *)
Definition mixed_sound (c : cache) : Prop :=
  forall k o, In (k, o) c ->
    (~ is_tagged k -> exists b, o = fst (cold_ap b k)) /\
    (is_tagged k -> exists b, o = fst (cold_wf b k)).

Lemma mixed_sound_split (c : cache) :
  mixed_sound c <->
  sound_on W is_https resolve as_tolerated (fun k => ~ is_tagged k) c /\
  sound_on (W_t W) (is_https_t is_https) (resolve_t resolve) jrd_tolerated is_tagged c.
Proof.
  unfold mixed_sound, sound_on. split.
  - intros H. split; intros k o Hin Hk; destruct (H k o Hin) as [H1 H2]; auto.
  - intros [H1 H2] k o Hin. split; intros Hk; eauto.
Qed.

Lemma mixed_sound_nil : mixed_sound [].
Proof. intros k o []. Qed.

(* ClientFacts' notion is the special case of a cache without tagged keys *)
Lemma sound_mixed (c : cache) :
  (forall k o, In (k, o) c -> ~ is_tagged k) ->
  (cache_sound W is_https resolve as_tolerated c <-> mixed_sound c).
Proof.
  intros Hn. split.
  - intros Hc k o Hin. split; [intros _; apply Hc; assumption|].
    intros Hk. exfalso. exact (Hn k o Hin Hk).
  - intros Hc k o Hin. destruct (Hc k o Hin) as [H1 _]. apply H1. eapply Hn. eassumption.
Qed.

Lemma mixed_sound_untagged_part (c : cache) :
  mixed_sound c -> cache_sound W is_https resolve as_tolerated (untagged_part c).
Proof.
  intros Hc k o Hin. unfold untagged_part, part in Hin. apply filter_In in Hin.
  destruct Hin as [Hin Hk]. cbn [fst] in Hk. destruct (Hc k o Hin) as [H1 _]. apply H1.
  intros Ht. apply is_tagged_b_spec in Ht. rewrite Ht in Hk. discriminate.
Qed.

(* ---------------------------------------------------------------- 3b. the tagged world (no hypothesis) *)
Lemma resolve_t_tagged (u : url) (v : bytes) (r : url) :
  is_tagged u -> resolve_t resolve u v = Some r -> is_tagged r.
Proof.
  intros _. unfold resolve_t. destruct (resolve (untag u) v) as [l|]; cbn [option_map]; [|discriminate].
  intros H. injection H as H. subst r. apply is_tagged_tag.
Qed.

Theorem get_t_mixed_fact : forall b c u, is_tagged u -> mixed_sound c ->
  let '(o, c', log) := get (W_t W) (is_https_t is_https) (resolve_t resolve) jrd_tolerated cap b c u in
  (exists b', o = fst (cold (W_t W) (is_https_t is_https) (resolve_t resolve) jrd_tolerated b' u)) /\
  mixed_sound c' /\
  (forall x, In x c' -> In x c \/ is_tagged (fst x)) /\
  (o, log) =
    (let '(o2, _, log2) :=
       get (W_t W) (is_https_t is_https) (resolve_t resolve) jrd_tolerated cap b (tagged_part c) u in
     (o2, log2)).
Proof.
  intros b c u Hu Hc. apply mixed_sound_split in Hc. destruct Hc as [Ha Ht].
  destruct (get_sound_on (W_t W) (is_https_t is_https) (resolve_t resolve) jrd_tolerated cap
              is_tagged resolve_t_tagged b c u Hu Ht) as (G1 & G2 & G3).
  destruct (get_part (W_t W) (is_https_t is_https) (resolve_t resolve) jrd_tolerated cap
              is_tagged resolve_t_tagged is_tagged_b (fun k => proj2 (is_tagged_b_spec k)) b c u Hu)
    as [G4 G5].
  fold (tagged_part c) in G4, G5.
  destruct (get_wf b c u) as [[o c'] log]. destruct (get_wf b (tagged_part c) u) as [[o2 c2] log2].
  cbn [fst snd] in *. split; [exact G2|split; [|split]].
  - apply mixed_sound_split. split; [|exact G1].
    intros k o' Hin Hk. destruct (G3 _ Hin) as [Hin'|Hn]; [exact (Ha k o' Hin' Hk)|].
    cbn [fst] in Hn. contradiction.
  - exact G3.
  - subst. reflexivity.
Qed.

(* the lookup keeps the cache mixed-sound *)
Theorem resolve_webfinger_mixed_fact : forall c name, mixed_sound c ->
  mixed_sound (snd (fst (resolve_webfinger W is_https resolve cap mk_url c name))).
Proof.
  intros c name Hc. unfold resolve_webfinger. destruct (split_at name) as [[acct dom]|]; [|exact Hc].
  pose proof (get_t_mixed_fact MAX_REDIRECTS c (tag (mk_url dom (wf_uri acct dom)))
                (is_tagged_tag _) Hc) as G.
  destruct (get_wf MAX_REDIRECTS c (tag (mk_url dom (wf_uri acct dom)))) as [[[d s|e] c'] log];
    cbn [fst snd]; destruct G as (_ & G & _); exact G.
Qed.

(* ---------------------------------------------------------------- 2. world hygiene *)
Hypothesis Hres : forall u v r, ~ is_tagged u -> resolve u v = Some r -> ~ is_tagged r.
Hypothesis Hparse : forall s t r, parse_ref s t = Some r -> ~ is_tagged r.
Hypothesis Hurl : forall t r, url_parse t = Some r -> ~ is_tagged r.

(* ---------------------------------------------------------------- 3a. the untagged world (Hres) *)
Theorem get_mixed_fact : forall b c u, ~ is_tagged u -> mixed_sound c ->
  let '(o, c', log) := get W is_https resolve as_tolerated cap b c u in
  (exists b', o = fst (cold W is_https resolve as_tolerated b' u)) /\
  mixed_sound c' /\
  (forall x, In x c' -> In x c \/ ~ is_tagged (fst x)) /\
  (o, log) =
    (let '(o2, _, log2) := get W is_https resolve as_tolerated cap b (untagged_part c) u in (o2, log2)).
Proof.
  intros b c u Hu Hc. apply mixed_sound_split in Hc. destruct Hc as [Ha Ht].
  destruct (get_sound_on W is_https resolve as_tolerated cap
              (fun k => ~ is_tagged k) Hres b c u Hu Ha) as (G1 & G2 & G3).
  destruct (get_part W is_https resolve as_tolerated cap
              (fun k => ~ is_tagged k) Hres (fun k => negb (is_tagged_b k)) not_tagged_b b c u Hu)
    as [G4 G5].
  fold (untagged_part c) in G4, G5.
  destruct (get_ap b c u) as [[o c'] log]. destruct (get_ap b (untagged_part c) u) as [[o2 c2] log2].
  cbn [fst snd] in *. split; [exact G2|split; [|split]].
  - apply mixed_sound_split. split; [exact G1|].
    intros k o' Hin Hk. destruct (G3 _ Hin) as [Hin'|Hn]; [exact (Ht k o' Hin' Hk)|].
    cbn [fst] in Hn. contradiction.
  - exact G3.
  - subst. reflexivity.
Qed.

(* ---------------------------------------------------------------- 4. fetch_unknown on a mixed cache *)
Lemma served_iff (h : text) (v : jv) :
  servedW h v <->
  exists b u d src log, cold_ap b u = (ODoc d src, log) /\ host_of src = h /\ subvalue v (JObj d).
Proof. split; intros H; exact H. Qed.

Lemma obj_id_untagged (o : obj) (id : url) : obj_id url_parse o = Some (Some id) -> ~ is_tagged id.
Proof.
  unfold obj_id, get_url. destruct (get_string o s_id) as [s| |]; try discriminate.
  destruct (url_parse s) as [u|] eqn:E; try discriminate.
  intros H. injection H as H. subst u. eapply Hurl. eassumption.
Qed.

Lemma fetch_url_mixed (c : cache) (u : url) (o : outcome) (c' : cache) (log : list url) :
  ~ is_tagged u -> mixed_sound c -> furl c u = (o, c', log) ->
  mixed_sound c' /\ exists b, o = fst (cold_ap b u).
Proof.
  intros Hu Hc H. pose proof (get_mixed_fact MAX_REDIRECTS c u Hu Hc) as G.
  unfold fetch_url in H. rewrite H in G. destruct G as (G1 & G2 & _). auto.
Qed.

Lemma fetch_url_served_mixed (c : cache) (u : url) d src (c' : cache) (log : list url) :
  ~ is_tagged u -> mixed_sound c -> furl c u = (ODoc d src, c', log) ->
  servedW (host_of src) (JObj d) /\ mixed_sound c'.
Proof.
  intros Hu Hc H. destruct (fetch_url_mixed _ _ _ _ _ Hu Hc H) as [Hc' [b Hb]].
  split; [|assumption]. apply served_iff.
  destruct (cold_ap b u) as [o l] eqn:E. cbn [fst] in Hb. subst o.
  exists b, u, d, src, l. repeat split; [assumption|constructor].
Qed.

(* fetch_unknown is: obtain an object and where it came from, then ClientFacts.second *)
Lemma fetch_unknown_unfold (c : cache) (input : jv) (source : option url) :
  fu c input source =
  match input with
  | JStr s =>
      match parse_ref source s with
      | None => (FUErr FUBadRef, c, [])
      | Some target =>
          match furl c target with
          | (ODoc d src, c1, l1) => second2 c1 l1 d (Some src)
          | (OErr e, c1, l1) => (FUErr (FUFetch e), c1, l1)
          end
      end
  | JObj o => second2 c [] o source
  | _ => (FUErr FUBadInput, c, [])
  end.
Proof.
  unfold fetch_unknown, second. destruct input as [|bo|bits|s|l|o]; try reflexivity.
  destruct (parse_ref source s) as [target|]; [|reflexivity].
  destruct (furl c target) as [[[d src|e] c1] l1]; reflexivity.
Qed.

Lemma second_mixed (c1 : cache) (log : list url) (o : obj) (src : option url)
      (r : fu_result) (c' : cache) (log' : list url) :
  mixed_sound c1 -> second2 c1 log o src = (r, c', log') ->
  mixed_sound c' /\
  ((forall s, src = Some s -> servedW (host_of s) (JObj o)) ->
   forall o' id, r = FUOk o' (Some id) -> servedW (host_of id) (JObj o')).
Proof.
  intros Hc1 H. unfold second in H.
  destruct (obj_id url_parse o) as [[id|]|] eqn:Hid.
  - destruct (needs_refetch host_of o src id) eqn:Hn.
    + pose proof (obj_id_untagged _ _ Hid) as Hu.
      destruct (furl c1 id) as [[[d src'|e] c2] l2] eqn:Hf.
      * destruct (fetch_url_served_mixed _ _ _ _ _ _ Hu Hc1 Hf) as [Hs Hc2].
        destruct (obj_id url_parse d) as [[id'|]|] eqn:Hid'.
        -- destruct (text_eqb (host_of src') (host_of id')) eqn:Hh.
           ++ injection H as H1 H2 H3. subst. apply text_eqb_eq in Hh.
              split; [assumption|]. intros _ o' id0 H. injection H as H1 H2. subst.
              rewrite <- Hh. assumption.
           ++ injection H as H1 H2 H3. subst. split; [assumption|]. intros _ o' id0 H. discriminate.
        -- injection H as H1 H2 H3. subst. split; [assumption|]. intros _ o' id0 H. discriminate.
        -- injection H as H1 H2 H3. subst. split; [assumption|]. intros _ o' id0 H. discriminate.
      * injection H as H1 H2 H3. subst.
        destruct (fetch_url_mixed _ _ _ _ _ Hu Hc1 Hf) as [G _].
        split; [assumption|]. intros _ o' id0 H. discriminate.
    + injection H as H1 H2 H3. subst. split; [assumption|].
      intros Hp o' id0 H. injection H as H1 H2. subst.
      unfold needs_refetch in Hn. destruct src as [s|]; [|discriminate].
      apply orb_false_iff in Hn as [Hn _]. apply negb_false_iff in Hn. apply text_eqb_eq in Hn.
      rewrite <- Hn. apply Hp. reflexivity.
  - injection H as H1 H2 H3. subst. split; [assumption|]. intros _ o' id0 H. discriminate.
  - injection H as H1 H2 H3. subst. split; [assumption|]. intros _ o' id0 H. discriminate.
Qed.

Lemma fetch_unknown_mixed (c : cache) (input : jv) (source : option url)
      (r : fu_result) (c' : cache) (log : list url) :
  mixed_sound c -> fu c input source = (r, c', log) ->
  mixed_sound c' /\
  ((source = None \/ exists s, source = Some s /\ servedW (host_of s) input) ->
   forall o id, r = FUOk o (Some id) -> servedW (host_of id) (JObj o)).
Proof.
  intros Hc H. rewrite fetch_unknown_unfold in H.
  assert (Herr : forall e c0 l0, mixed_sound c0 -> (FUErr e, c0, l0) = (r, c', log) ->
            mixed_sound c' /\
            ((source = None \/ exists s, source = Some s /\ servedW (host_of s) input) ->
             forall o id, r = FUOk o (Some id) -> servedW (host_of id) (JObj o))).
  { intros e c0 l0 Hc0 He. injection He as H1 H2 H3. subst.
    split; [assumption|]. intros _ o id Ho. discriminate. }
  destruct input as [|bo|bits|s|l|o]; try (eapply Herr; eassumption).
  - destruct (parse_ref source s) as [target|] eqn:Hp; [|eapply Herr; eassumption].
    pose proof (Hparse _ _ _ Hp) as Hu.
    destruct (furl c target) as [[[d src|e] c1] l1] eqn:Hf.
    + destruct (fetch_url_served_mixed _ _ _ _ _ _ Hu Hc Hf) as [Hs Hc1].
      destruct (second_mixed _ _ _ _ _ _ _ Hc1 H) as [G1 G2].
      split; [assumption|]. intros _. apply G2.
      intros s0 Hs0. injection Hs0 as Hs0. subst s0. assumption.
    + destruct (fetch_url_mixed _ _ _ _ _ Hu Hc Hf) as [Hc1 _]. eapply Herr; eassumption.
  - destruct (second_mixed _ _ _ _ _ _ _ Hc H) as [G1 G2].
    split; [assumption|]. intros Hp. apply G2.
    intros s Hs. destruct Hp as [Hn|[s0 [Hs0 Hv]]]; congruence.
Qed.

Theorem fetch_unknown_mixed_provenance_fact : forall c input source o id c' log,
  mixed_sound c ->
  (source = None \/ exists s, source = Some s /\ served W is_https resolve host_of (host_of s) input) ->
  fetch_unknown W is_https resolve cap parse_ref url_parse host_of c input source
    = (FUOk o (Some id), c', log) ->
  served W is_https resolve host_of (host_of id) (JObj o) /\ mixed_sound c'.
Proof.
  intros c input source o id c' log Hc Hp H.
  destruct (fetch_unknown_mixed _ _ _ _ _ _ Hc H) as [G1 G2].
  split; [|assumption]. apply G2; [assumption|reflexivity].
Qed.

Theorem fetch_unknown_mixed_cache_fact : forall c input source r c' log,
  mixed_sound c ->
  fetch_unknown W is_https resolve cap parse_ref url_parse host_of c input source = (r, c', log) ->
  mixed_sound c'.
Proof.
  intros c input source r c' log Hc H.
  destruct (fetch_unknown_mixed _ _ _ _ _ _ Hc H) as [G1 _]. assumption.
Qed.

(* ---------------------------------------------------------------- 5. typed input *)
Theorem fetch_user_input_cache_fact : forall c typed r c' log,
  mixed_sound c ->
  fetch_user_input W is_https resolve cap parse_ref url_parse host_of mk_url c typed = (r, c', log) ->
  mixed_sound c'.
Proof.
  intros c typed r c' log Hc H. unfold fetch_user_input, open_ref in H.
  destruct typed as [|s name].
  - eapply fetch_unknown_mixed_cache_fact; eassumption.
  - destruct (N.eqb s SIGIL_AT || N.eqb s SIGIL_BANG).
    + pose proof (resolve_webfinger_mixed_fact c name Hc) as H1.
      destruct (rwf c name) as [[w c1] log1]. cbn [fst snd] in H1.
      destruct w as [href| | | |];
        try (injection H as E1 E2 E3; subst; assumption).
      destruct (fu c1 (JStr href) None) as [[r2 c2] log2] eqn:E.
      injection H as E1 E2 E3. subst.
      eapply fetch_unknown_mixed_cache_fact; eassumption.
    + eapply fetch_unknown_mixed_cache_fact; eassumption.
Qed.

Theorem fetch_user_input_provenance_fact : forall c typed o id c' log,
  mixed_sound c ->
  fetch_user_input W is_https resolve cap parse_ref url_parse host_of mk_url c typed
    = (FUOk o (Some id), c', log) ->
  served W is_https resolve host_of (host_of id) (JObj o) /\ mixed_sound c'.
Proof.
  intros c typed o id c' log Hc H. unfold fetch_user_input, open_ref in H.
  destruct typed as [|s name].
  - eapply fetch_unknown_mixed_provenance_fact; [eassumption|left; reflexivity|eassumption].
  - destruct (N.eqb s SIGIL_AT || N.eqb s SIGIL_BANG).
    + pose proof (resolve_webfinger_mixed_fact c name Hc) as H1.
      destruct (rwf c name) as [[w c1] log1]. cbn [fst snd] in H1.
      destruct w as [href| | | |]; try discriminate H.
      destruct (fu c1 (JStr href) None) as [[r2 c2] log2] eqn:E.
      injection H as E1 E2 E3. subst.
      eapply fetch_unknown_mixed_provenance_fact; [eassumption|left; reflexivity|eassumption].
    + eapply fetch_unknown_mixed_provenance_fact; [eassumption|left; reflexivity|eassumption].
Qed.

(* starting from ClientFacts' soundness on a cache that has seen no lookup yet *)
Corollary fetch_user_input_provenance_sound_fact : forall c typed o id c' log,
  cache_sound W is_https resolve as_tolerated c -> (forall k o, In (k, o) c -> ~ is_tagged k) ->
  fetch_user_input W is_https resolve cap parse_ref url_parse host_of mk_url c typed
    = (FUOk o (Some id), c', log) ->
  served W is_https resolve host_of (host_of id) (JObj o) /\ mixed_sound c'.
Proof.
  intros c typed o id c' log Hc Hn H.
  eapply fetch_user_input_provenance_fact; [|eassumption]. apply sound_mixed; assumption.
Qed.

(* ---------------------------------------------------------------- the target of an activity *)
(* pub.getPostOrActor: whatever the activity embeds - directly or inside an inline Create wrapper (Lemmy), whatever ids the
   wrapper and the embedded object claim - the reference that is resolved is a part of the ACTIVITY's document, and it is
   resolved against the activity's own id; so the object shown as the target was served by the host its id names. *)
Lemma target_ref_subvalue (act : obj) (r : jv) : target_ref act = Some r -> subvalue r (JObj act).
Proof.
  unfold target_ref. intros H.
  destruct (get_any act s_object) as [v| |] eqn:Hg; try discriminate.
  pose proof (get_any_subvalue _ _ _ Hg) as Hv.
  destruct v as [|b|bits|s|l|m]; try (injection H as <-; exact Hv).
  destruct (get_string m k_type) as [k| |]; try discriminate.
  destruct (text_eqb k s_Create).
  - destruct (get_any m s_object) as [r'| |] eqn:Hg2; try discriminate. injection H as <-.
    eapply subvalue_trans; [apply (get_any_subvalue _ _ _ Hg2)|exact Hv].
  - injection H as <-. exact Hv.
Qed.

Theorem activity_target_provenance_fact : forall c act act_id r o id c' log,
  mixed_sound c ->
  (act_id = None \/ exists s, act_id = Some s /\ served W is_https resolve host_of (host_of s) (JObj act)) ->
  target_ref act = Some r ->
  fetch_unknown W is_https resolve cap parse_ref url_parse host_of c r act_id = (FUOk o (Some id), c', log) ->
  served W is_https resolve host_of (host_of id) (JObj o) /\ mixed_sound c'.
Proof.
  intros c act act_id r o id c' log Hc Hsrc Hr H.
  eapply fetch_unknown_mixed_provenance_fact; [exact Hc| |exact H].
  destruct Hsrc as [Hn|[s [Hs Hv]]]; [left; exact Hn|right].
  exists s. split; [exact Hs|]. eapply served_sub; [exact Hv|]. apply target_ref_subvalue, Hr.
Qed.

End OpenFacts.

(* ---------------------------------------------------------------- 5b. the requests (no hypothesis) *)
Section OpenRequests.
Variables (W : url -> entry) (is_https : url -> bool) (resolve : url -> bytes -> option url)
          (cap : nat) (parse_ref : option url -> text -> option url) (url_parse : text -> option url)
          (host_of : url -> text) (mk_url : bytes -> bytes -> url).

Notation req_ok := (fun r : url => is_https r = true /\ e_dial (W r) = true).

Lemma fetch_url_log_ok (c : cache) (u : url) :
  Forall req_ok (snd (fetch_url W is_https resolve cap c u)).
Proof. unfold fetch_url. apply get_log_ok. Qed.

Lemma second_log_ok (c1 : cache) (log : list url) (o : obj) (src : option url) :
  Forall req_ok log -> Forall req_ok (snd (second W is_https resolve cap url_parse host_of c1 log o src)).
Proof.
  intros Hl. unfold second.
  destruct (obj_id url_parse o) as [[id|]|]; cbn [snd]; try assumption.
  destruct (needs_refetch host_of o src id); cbn [snd]; try assumption.
  pose proof (fetch_url_log_ok c1 id) as G.
  destruct (fetch_url W is_https resolve cap c1 id) as [[[d src'|e] c2] l2]; cbn [snd] in *.
  - destruct (obj_id url_parse d) as [[id'|]|]; cbn [snd]; try (apply Forall_app; split; assumption).
    destruct (text_eqb (host_of src') (host_of id')); cbn [snd]; apply Forall_app; split; assumption.
  - apply Forall_app; split; assumption.
Qed.

(* the log of fetch_unknown is a concatenation of [get] logs *)
Theorem fetch_unknown_requests_fact : forall c input source,
  Forall (fun r => is_https r = true /\ e_dial (W r) = true)
         (snd (fetch_unknown W is_https resolve cap parse_ref url_parse host_of c input source)).
Proof.
  intros c input source. rewrite fetch_unknown_unfold.
  destruct input as [|bo|bits|s|l|o]; cbn [snd]; try constructor.
  - destruct (parse_ref source s) as [target|]; cbn [snd]; [|constructor].
    pose proof (fetch_url_log_ok c target) as G.
    destruct (fetch_url W is_https resolve cap c target) as [[[d src|e] c1] l1]; cbn [snd] in *.
    + apply second_log_ok. assumption.
    + assumption.
  - apply second_log_ok. constructor.
Qed.

Theorem fetch_user_input_requests_fact : forall c typed,
  Forall (fun r => is_https r = true /\ e_dial (W r) = true)
         (snd (fetch_user_input W is_https resolve cap parse_ref url_parse host_of mk_url c typed)).
Proof.
  intros c typed. unfold fetch_user_input, open_ref. destruct typed as [|s name].
  - apply fetch_unknown_requests_fact.
  - destruct (N.eqb s SIGIL_AT || N.eqb s SIGIL_BANG); [|apply fetch_unknown_requests_fact].
    pose proof (wf_requests_fact W is_https resolve cap mk_url c name) as G.
    destruct (resolve_webfinger W is_https resolve cap mk_url c name) as [[w c1] log1].
    destruct G as [G _].
    destruct w as [href| | | |]; cbn [snd]; try assumption.
    pose proof (fetch_unknown_requests_fact c1 (JStr href) None) as G2.
    destruct (fetch_unknown W is_https resolve cap parse_ref url_parse host_of c1 (JStr href) None)
      as [[r2 c2] log2].
    cbn [snd] in *. apply Forall_app. split; assumption.
Qed.
End OpenRequests.

(* ---------------------------------------------------------------- 6. non-vacuity *)
(* One host "h".  https://h/.well-known/webfinger?resource=acct%3Aa%40h serves a JRD document whose
   self link points to https://h/u, which serves an actor with that id.  The user types "@a@h". *)
Local Open Scope N_scope.
Definition ox_https : text := [104;116;116;112;115;58;47;47].                     (* "https://" *)
Definition ox_host : bytes := [104].                                              (* "h" *)
Definition ox_typed : bytes := [64;97;64;104].                                    (* "@a@h" *)
Definition ox_actor_url : url := ox_https ++ ox_host ++ [47;117].                 (* "https://h/u" *)
Definition ox_mk_url (h p : bytes) : url := ox_https ++ h ++ p.
Definition ox_wf_url : url := ox_mk_url ox_host (wf_uri [97] ox_host).
Definition ox_is_https (u : url) : bool := has_prefix ox_https u.
Definition ox_resolve (_ : url) (_ : bytes) : option url := None.
Definition ox_parse (t : text) : option url := if ox_is_https t then Some t else None.
Definition ox_parse_ref (_ : option url) (t : text) : option url := ox_parse t.
Fixpoint ox_until_slash (l : text) : text :=
  match l with [] => [] | c :: r => if N.eqb c 47 then [] else c :: ox_until_slash r end.
Definition ox_host_of (u : url) : text := ox_until_slash (skipn 8 u).

Definition ox_jrd : obj :=
  [ (s_links, JArr [ JObj [ (s_rel, JStr s_self);
                            (s_type, JStr [97;112;112;108;105;99;97;116;105;111;110;47;97;99;116;105;118;105;116;121;43;106;115;111;110]);
                            (s_href, JStr ox_actor_url) ] ]) ].
Definition ox_actor : obj :=
  [ (s_id, JStr ox_actor_url);
    (s_type, JStr [80;101;114;115;111;110]);        (* "Person" *)
    ([110;97;109;101], JStr [97]) ].                (* "name": "a" *)

(* both documents are served as "HTTP/1.0 200 OK / Content-Type: application/json" (JtpFacts.ex_doc) *)
Definition ox_W (u : url) : entry :=
  if text_eqb u ox_wf_url then mkentry true ex_doc (BObj ox_jrd)
  else if text_eqb u ox_actor_url then mkentry true ex_doc (BObj ox_actor)
  else mkentry false [] BBad.

Notation ox_fui := (fetch_user_input ox_W ox_is_https ox_resolve 8 ox_parse_ref ox_parse ox_host_of ox_mk_url).

Example open_example :
  fst (fst (ox_fui [] ox_typed)) = FUOk ox_actor (Some ox_actor_url) /\
  snd (ox_fui [] ox_typed) = [ox_wf_url; ox_actor_url] /\
  map fst (snd (fst (ox_fui [] ox_typed))) = [ox_actor_url; tag ox_wf_url] /\
  ox_host_of ox_actor_url = ox_host.
Proof. vm_compute. repeat split; reflexivity. Qed.

(* the hygiene hypotheses hold: these oracles only return https URLs, or nothing *)
Lemma ox_https_untagged (t : text) : ox_is_https t = true -> ~ is_tagged t.
Proof. intros H [u Hu]. subst t. cbv in H. discriminate H. Qed.

Lemma ox_Hres : forall u v r, ~ is_tagged u -> ox_resolve u v = Some r -> ~ is_tagged r.
Proof. intros u v r _ H. discriminate H. Qed.

Lemma ox_Hurl : forall t r, ox_parse t = Some r -> ~ is_tagged r.
Proof.
  intros t r. unfold ox_parse. destruct (ox_is_https t) eqn:E; [|discriminate].
  intros H. injection H as H. subst r. apply ox_https_untagged. assumption.
Qed.

Lemma ox_Hparse : forall s t r, ox_parse_ref s t = Some r -> ~ is_tagged r.
Proof. intros s t r. apply ox_Hurl. Qed.

(* the final theorem applies to it, from the empty cache *)
Example open_example_served :
  served ox_W ox_is_https ox_resolve ox_host_of ox_host (JObj ox_actor).
Proof.
  destruct open_example as (E1 & _ & _ & E4). rewrite <- E4.
  destruct (ox_fui [] ox_typed) as [[r c'] log] eqn:E. cbn [fst] in E1. subst r.
  destruct (fetch_user_input_provenance_fact ox_W ox_is_https ox_resolve 8 ox_parse_ref ox_parse
              ox_host_of ox_mk_url ox_Hres ox_Hparse ox_Hurl [] ox_typed _ _ _ _
              (mixed_sound_nil ox_W ox_is_https ox_resolve) E) as [G _].
  exact G.
Qed.

(* and the cache the lookup leaves is NOT sound in the sense of ClientFacts / JtpFacts: in the
   untagged world its tagged key is not an https URL, so a cold fetch of it is a scheme error,
   while the entry is the JRD document.  This is why [mixed_sound] is needed. *)
Example mixed_needed_example :
  ~ cache_sound ox_W ox_is_https ox_resolve as_tolerated
      (snd (fst (resolve_webfinger ox_W ox_is_https ox_resolve 8 ox_mk_url [] [97;64;104]))).
Proof.
  intros H.
  assert (Hin : In (tag ox_wf_url, ODoc ox_jrd (tag ox_wf_url))
                   (snd (fst (resolve_webfinger ox_W ox_is_https ox_resolve 8 ox_mk_url [] [97;64;104])))).
  { vm_compute. left. reflexivity. }
  destruct (H _ _ Hin) as [b Hb]. rewrite cold_unfold in Hb.
  assert (Hh : hop1 ox_W ox_is_https ox_resolve as_tolerated (tag ox_wf_url) = RStop (OErr EScheme) [] false).
  { vm_compute. reflexivity. }
  rewrite Hh in Hb. discriminate Hb.
Qed.

Print Assumptions get_mixed_fact.
Print Assumptions get_t_mixed_fact.
Print Assumptions resolve_webfinger_mixed_fact.
Print Assumptions fetch_unknown_mixed_provenance_fact.
Print Assumptions fetch_unknown_mixed_cache_fact.
Print Assumptions fetch_user_input_cache_fact.
Print Assumptions fetch_user_input_provenance_fact.
Print Assumptions fetch_user_input_provenance_sound_fact.
Print Assumptions activity_target_provenance_fact.
Print Assumptions fetch_unknown_requests_fact.
Print Assumptions fetch_user_input_requests_fact.
Print Assumptions open_example.
Print Assumptions open_example_served.
Print Assumptions mixed_needed_example.
