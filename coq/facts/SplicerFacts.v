(* Facts about the splicer model: the feed is the k-way merge (latest stamp first, ties to the
   source listed first) of the sources' lazy item lists. *)
From Servitor Require Import Base Splicer.
From Coq Require Import Permutation.

Section SF.
Variables (I C : Type) (stamp : I -> Z)
          (charvest : C -> nat -> nat -> list I * option C * nat).

(* the items a source position still has to give; finite *)
Variable rest : option C -> nat -> list I.
Hypothesis rest_none : forall b, rest None b = [].
Hypothesis harvest_spec : forall c q b items k b', charvest c q b = (items, k, b') ->
  items = firstn q (rest (Some c) b) /\ rest k b' = skipn q (rest (Some c) b).

Definition denote (s : source I C) : list I := s_buf s ++ rest (s_page s) (s_base s).

(* reference k-way merge on plain lists *)
Fixpoint pick (ls : list (list I)) (i : nat) (cur : option (nat * I)) : option (nat * I) :=
  match ls with
  | [] => cur
  | l :: ls' =>
      match l with
      | [] => pick ls' (S i) cur
      | x :: _ =>
          match cur with
          | None => pick ls' (S i) (Some (i, x))
          | Some (j, y) => if Z.ltb (stamp y) (stamp x) then pick ls' (S i) (Some (i, x))
                           else pick ls' (S i) cur
          end
      end
  end.

Fixpoint pop_list (ls : list (list I)) (i : nat) : list (list I) :=
  match ls, i with
  | [], _ => []
  | l :: ls', O => tl l :: ls'
  | l :: ls', S j => l :: pop_list ls' j
  end.

Fixpoint merge (fuel : nat) (ls : list (list I)) : list I :=
  match fuel with
  | O => []
  | S f => match pick ls 0 None with
           | None => []
           | Some (i, x) => x :: merge f (pop_list ls i)
           end
  end.

Definition total (ls : list (list I)) : nat := length (concat ls).
Definition merged (ls : list (list I)) : list I := merge (total ls) ls.

Inductive subseq : list I -> list I -> Prop :=
| sub_nil : forall l, subseq [] l
| sub_keep : forall x a b, subseq a b -> subseq (x :: a) (x :: b)
| sub_skip : forall x a b, subseq a b -> subseq a (x :: b).

(* ---------- pick ---------- *)

Lemma pick_spec : forall ls k cur i x,
  (forall j y, cur = Some (j, y) -> j < k) ->
  pick ls k cur = Some (i, x) ->
  (cur = Some (i, x) \/
   exists i' r, i = k + i' /\ nth_error ls i' = Some (x :: r) /\
                forall j y, cur = Some (j, y) -> (stamp y < stamp x)%Z) /\
  (forall j y r', nth_error ls j = Some (y :: r') ->
     (stamp y <= stamp x)%Z /\ (k + j < i -> (stamp y < stamp x)%Z)).
Proof.
  induction ls as [|l ls IH]; intros k cur i x Hcur Hp; simpl in Hp.
  - split; [left; exact Hp|]. intros j y r' Hj. destruct j; discriminate Hj.
  - destruct l as [|y0 l0].
    + assert (Hc' : forall j y, cur = Some (j, y) -> j < S k).
      { intros j y E. specialize (Hcur j y E). lia. }
      destruct (IH (S k) cur i x Hc' Hp) as [HA HB]. split.
      * destruct HA as [HA|[i' [r [Hi [Hn Hs]]]]]; [left; exact HA|].
        right. exists (S i'), r. split; [lia|]. split; [exact Hn|exact Hs].
      * intros j y r' Hj. destruct j as [|j]; [discriminate Hj|]. simpl in Hj.
        destruct (HB j y r' Hj) as [H1 H2]. split; [exact H1|]. intros Hlt. apply H2. lia.
    + destruct cur as [[j0 y1]|].
      * destruct (Z.ltb (stamp y1) (stamp y0)) eqn:Elt.
        -- assert (Hc' : forall j y, Some (k, y0) = Some (j, y) -> j < S k).
           { intros j y E. inversion E; subst. lia. }
           destruct (IH (S k) (Some (k, y0)) i x Hc' Hp) as [HA HB].
           apply Z.ltb_lt in Elt. split.
           ++ right. destruct HA as [HA|[i' [r [Hi [Hn Hs]]]]].
              ** inversion HA; subst. exists 0, l0. split; [lia|]. split; [reflexivity|].
                 intros j y E. inversion E; subst. exact Elt.
              ** exists (S i'), r. split; [lia|]. split; [exact Hn|].
                 intros j y E. inversion E; subst. specialize (Hs k y0 eq_refl). lia.
           ++ intros j y r' Hj. destruct j as [|j].
              ** simpl in Hj. inversion Hj; subst.
                 destruct HA as [HA|[i' [r [Hi [Hn Hs]]]]].
                 --- inversion HA; subst. split; [lia|]. intros Hlt. lia.
                 --- specialize (Hs k y eq_refl). split; [lia|]. intros _. exact Hs.
              ** simpl in Hj. destruct (HB j y r' Hj) as [H1 H2]. split; [exact H1|].
                 intros Hlt. apply H2. lia.
        -- assert (Hc' : forall j y, Some (j0, y1) = Some (j, y) -> j < S k).
           { intros j y E. specialize (Hcur j y E). lia. }
           destruct (IH (S k) (Some (j0, y1)) i x Hc' Hp) as [HA HB].
           apply Z.ltb_ge in Elt. split.
           ++ destruct HA as [HA|[i' [r [Hi [Hn Hs]]]]]; [left; exact HA|].
              right. exists (S i'), r. split; [lia|]. split; [exact Hn|exact Hs].
           ++ intros j y r' Hj. destruct j as [|j].
              ** simpl in Hj. inversion Hj; subst.
                 destruct HA as [HA|[i' [r [Hi [Hn Hs]]]]].
                 --- inversion HA; subst. split; [lia|]. intros Hlt.
                     specialize (Hcur i x eq_refl). lia.
                 --- specialize (Hs j0 y1 eq_refl). split; [lia|]. intros _. lia.
              ** simpl in Hj. destruct (HB j y r' Hj) as [H1 H2]. split; [exact H1|].
                 intros Hlt. apply H2. lia.
      * assert (Hc' : forall j y, Some (k, y0) = Some (j, y) -> j < S k).
        { intros j y E. inversion E; subst. lia. }
        destruct (IH (S k) (Some (k, y0)) i x Hc' Hp) as [HA HB]. split.
        -- right. destruct HA as [HA|[i' [r [Hi [Hn Hs]]]]].
           ++ inversion HA; subst. exists 0, l0. split; [lia|]. split; [reflexivity|].
              intros j y E. discriminate E.
           ++ exists (S i'), r. split; [lia|]. split; [exact Hn|].
              intros j y E. discriminate E.
        -- intros j y r' Hj. destruct j as [|j].
           ++ simpl in Hj. inversion Hj; subst.
              destruct HA as [HA|[i' [r [Hi [Hn Hs]]]]].
              ** inversion HA; subst. split; [lia|]. intros Hlt. lia.
              ** specialize (Hs k y eq_refl). split; [lia|]. intros _. exact Hs.
           ++ simpl in Hj. destruct (HB j y r' Hj) as [H1 H2]. split; [exact H1|].
              intros Hlt. apply H2. lia.
Qed.

Lemma pick_none : forall ls k cur, pick ls k cur = None ->
  cur = None /\ Forall (fun l => l = []) ls.
Proof.
  induction ls as [|l ls IH]; intros k cur Hp; simpl in Hp.
  - split; [exact Hp|constructor].
  - destruct l as [|y0 l0].
    + destruct (IH _ _ Hp) as [H1 H2]. split; [exact H1|]. constructor; [reflexivity|exact H2].
    + destruct cur as [[j0 y1]|].
      * destruct (Z.ltb (stamp y1) (stamp y0)); destruct (IH _ _ Hp) as [H1 _]; discriminate H1.
      * destruct (IH _ _ Hp) as [H1 _]; discriminate H1.
Qed.

Lemma pick_head : forall ls i x, pick ls 0 None = Some (i, x) ->
  exists r, nth_error ls i = Some (x :: r).
Proof.
  intros ls i x Hp.
  assert (Hc : forall j y, @None (nat * I) = Some (j, y) -> j < 0) by (intros j y E; discriminate E).
  destruct (pick_spec ls 0 None i x Hc Hp) as [[HA|[i' [r [Hi [Hn _]]]]] _]; [discriminate HA|].
  simpl in Hi. subst i'. exists r. exact Hn.
Qed.

(* ---------- pop_list, concat, total ---------- *)

Lemma concat_pop : forall ls i x r, nth_error ls i = Some (x :: r) ->
  Permutation (x :: concat (pop_list ls i)) (concat ls).
Proof.
  induction ls as [|l ls IH]; intros i x r Hn.
  - destruct i; discriminate Hn.
  - destruct i as [|i]; simpl in Hn.
    + inversion Hn; subst. simpl. apply Permutation_refl.
    + simpl. eapply Permutation_trans; [apply Permutation_middle|].
      apply Permutation_app_head. apply (IH i x r Hn).
Qed.

Lemma total_pop : forall ls i x r, nth_error ls i = Some (x :: r) ->
  total ls = S (total (pop_list ls i)).
Proof.
  intros ls i x r Hn. unfold total.
  rewrite <- (Permutation_length (concat_pop ls i x r Hn)). reflexivity.
Qed.

Lemma concat_all_nil : forall ls : list (list I), Forall (fun l => l = []) ls -> concat ls = [].
Proof.
  induction ls as [|l ls IH]; intros H; [reflexivity|].
  inversion H; subst. simpl. apply IH. assumption.
Qed.

Lemma nth_all_nil : forall (ls : list (list I)) i l, Forall (fun l => l = []) ls ->
  nth_error ls i = Some l -> l = [].
Proof.
  intros ls i l H Hn. apply nth_error_In in Hn. rewrite Forall_forall in H. apply H. exact Hn.
Qed.

Lemma length_le_total : forall ls i l, nth_error ls i = Some l -> length l <= total ls.
Proof.
  induction ls as [|l0 ls IH]; intros i l Hn.
  - destruct i; discriminate Hn.
  - unfold total. simpl. rewrite app_length. destruct i as [|i]; simpl in Hn.
    + inversion Hn; subst. lia.
    + specialize (IH i l Hn). unfold total in IH. lia.
Qed.

Lemma nth_pop_same : forall ls i l, nth_error ls i = Some l ->
  nth_error (pop_list ls i) i = Some (tl l).
Proof.
  induction ls as [|l0 ls IH]; intros i l Hn.
  - destruct i; discriminate Hn.
  - destruct i as [|i]; simpl in *.
    + inversion Hn; subst. reflexivity.
    + apply IH. exact Hn.
Qed.

Lemma nth_pop_other : forall ls i j, i <> j -> nth_error (pop_list ls i) j = nth_error ls j.
Proof.
  induction ls as [|l0 ls IH]; intros i j Hij.
  - destruct i; reflexivity.
  - destruct i as [|i]; destruct j as [|j]; simpl; try reflexivity.
    + congruence.
    + apply IH. congruence.
Qed.

(* ---------- merged, one step ---------- *)

Lemma merged_some : forall ls i x, pick ls 0 None = Some (i, x) ->
  merged ls = x :: merged (pop_list ls i).
Proof.
  intros ls i x Hp. destruct (pick_head ls i x Hp) as [r Hn].
  unfold merged. rewrite (total_pop ls i x r Hn). simpl. rewrite Hp. reflexivity.
Qed.

Lemma merged_none : forall ls, pick ls 0 None = None -> merged ls = [].
Proof.
  intros ls Hp. unfold merged. destruct (total ls); simpl; [reflexivity|]. rewrite Hp. reflexivity.
Qed.

(* ---------- 1 ---------- *)

Lemma merge_perm_aux : forall n ls, total ls = n -> Permutation (merge n ls) (concat ls).
Proof.
  induction n as [|n IH]; intros ls Ht.
  - unfold total in Ht. apply length_zero_iff_nil in Ht. rewrite Ht. apply Permutation_refl.
  - simpl. destruct (pick ls 0 None) as [[i x]|] eqn:Hp.
    + destruct (pick_head ls i x Hp) as [r Hn].
      eapply Permutation_trans; [|apply (concat_pop ls i x r Hn)].
      apply perm_skip. apply IH. rewrite (total_pop ls i x r Hn) in Ht. lia.
    + apply pick_none in Hp as [_ Hall]. rewrite (concat_all_nil ls Hall). apply Permutation_refl.
Qed.

Theorem merge_perm_fact : forall ls, Permutation (merged ls) (concat ls).
Proof.
  intros ls. unfold merged. apply merge_perm_aux. reflexivity.
Qed.

(* ---------- 2 ---------- *)

Theorem merge_step_fact : forall ls i x, pick ls 0 None = Some (i, x) ->
  exists r, nth_error ls i = Some (x :: r) /\
    forall j y r', nth_error ls j = Some (y :: r') ->
      (stamp y <= stamp x)%Z /\ ((j < i)%nat -> (stamp y < stamp x)%Z).
Proof.
  intros ls i x Hp.
  assert (Hc : forall j y, @None (nat * I) = Some (j, y) -> j < 0) by (intros j y E; discriminate E).
  destruct (pick_spec ls 0 None i x Hc Hp) as [[HA|[i' [r [Hi [Hn _]]]]] HB]; [discriminate HA|].
  simpl in Hi. subst i'. exists r. split; [exact Hn|].
  intros j y r' Hj. destruct (HB j y r' Hj) as [H1 H2]. split; [exact H1|].
  intros Hlt. apply H2. simpl. exact Hlt.
Qed.

(* ---------- 3 ---------- *)

Lemma merge_order_aux : forall n ls, total ls = n ->
  forall i l, nth_error ls i = Some l -> subseq l (merge n ls).
Proof.
  induction n as [|n IH]; intros ls Ht i l Hn.
  - pose proof (length_le_total ls i l Hn) as Hle. rewrite Ht in Hle.
    destruct l as [|a l]; [apply sub_nil|simpl in Hle; lia].
  - simpl. destruct (pick ls 0 None) as [[i0 x]|] eqn:Hp.
    + destruct (pick_head ls i0 x Hp) as [r Hn0].
      assert (Ht' : total (pop_list ls i0) = n).
      { rewrite (total_pop ls i0 x r Hn0) in Ht. lia. }
      destruct (Nat.eq_dec i0 i) as [E|E].
      * subst i0. rewrite Hn in Hn0. inversion Hn0; subst l.
        apply sub_keep. apply (IH _ Ht' i r).
        apply (nth_pop_same ls i (x :: r) Hn).
      * apply sub_skip. apply (IH _ Ht' i l). rewrite (nth_pop_other ls i0 i E). exact Hn.
    + apply pick_none in Hp as [_ Hall]. rewrite (nth_all_nil ls i l Hall Hn). apply sub_nil.
Qed.

Theorem merge_order_fact : forall ls i l, nth_error ls i = Some l -> subseq l (merged ls).
Proof.
  intros ls i l Hn. unfold merged. apply (merge_order_aux _ ls eq_refl i l Hn).
Qed.

(* ---------- 4 ---------- *)

Definition ready1 (m : nat) (s : source I C) : Prop :=
  m <= length (s_buf s) \/ rest (s_page s) (s_base s) = [].
Definition ready (m : nat) (sp : splicer I C) : Prop := Forall (ready1 m) sp.

Lemma replenish1_spec : forall n s,
  denote (replenish1 charvest n s) = denote s /\ ready1 n (replenish1 charvest n s).
Proof.
  intros n [buf pg b]. unfold replenish1, denote, ready1. simpl.
  destruct pg as [pg|].
  - destruct (Nat.ltb (length buf) n) eqn:E.
    + destruct (charvest pg (n - length buf) b) as [[items k] b'] eqn:H.
      apply harvest_spec in H as [H1 H2]. simpl. split.
      * rewrite <- app_assoc, H1, H2, firstn_skipn. reflexivity.
      * destruct (le_lt_dec (n - length buf) (length (rest (Some pg) b))) as [L|L].
        -- left. rewrite app_length, H1, firstn_length_le by exact L.
           apply Nat.ltb_lt in E. lia.
        -- right. rewrite H2. apply skipn_all2. lia.
    + simpl. split; [reflexivity|]. left. apply Nat.ltb_ge in E. exact E.
  - simpl. split; [reflexivity|]. right. apply rest_none.
Qed.

Lemma replenish_spec : forall n sp,
  map denote (replenish charvest n sp) = map denote sp /\ ready n (replenish charvest n sp).
Proof.
  intros n sp. unfold replenish, ready. induction sp as [|s sp [IH1 IH2]]; simpl.
  - split; [reflexivity|constructor].
  - destruct (replenish1_spec n s) as [H1 H2]. split.
    + rewrite H1, IH1. reflexivity.
    + constructor; assumption.
Qed.

Lemma ready_weaken : forall m sp, ready (S m) sp -> ready m sp.
Proof.
  intros m sp H. unfold ready in *. eapply Forall_impl; [|exact H].
  intros s [Hs|Hs]; [left; lia|right; exact Hs].
Qed.

Lemma best_pick : forall m sp k cur, ready (S m) sp ->
  best stamp sp k cur = pick (map denote sp) k cur.
Proof.
  intros m sp. induction sp as [|s sp IH]; intros k cur H; [reflexivity|].
  inversion H as [|s' sp' Hs Hsp]; subst. simpl.
  destruct s as [buf pg b]. unfold denote at 1. simpl.
  destruct buf as [|x buf].
  - destruct Hs as [Hs|Hs]; [simpl in Hs; lia|]. simpl in Hs. rewrite Hs. simpl. apply IH. exact Hsp.
  - simpl. destruct cur as [[j y]|].
    + destruct (Z.ltb (stamp y) (stamp x)); apply IH; exact Hsp.
    + apply IH; exact Hsp.
Qed.

Lemma pop_denote : forall m sp i, ready (S m) sp ->
  map denote (pop_at sp i) = pop_list (map denote sp) i /\ ready m (pop_at sp i).
Proof.
  intros m sp. induction sp as [|s sp IH]; intros i H.
  - destruct i; simpl; split; try reflexivity; constructor.
  - inversion H as [|s' sp' Hs Hsp]; subst. destruct i as [|i]; simpl.
    + split.
      * f_equal. destruct s as [buf pg b]. unfold denote. simpl.
        destruct buf as [|x buf]; [|reflexivity].
        destruct Hs as [Hs|Hs]; [simpl in Hs; lia|]. simpl in Hs. rewrite Hs. reflexivity.
      * constructor; [|apply ready_weaken; exact Hsp].
        destruct Hs as [Hs|Hs]; [left|right; exact Hs]. simpl.
        destruct (s_buf s); simpl in *; lia.
    + destruct (IH i Hsp) as [H1 H2]. split.
      * rewrite H1. reflexivity.
      * constructor; [|exact H2].
        destruct Hs as [Hs|Hs]; [left; lia|right; exact Hs].
Qed.

Lemma micro_some : forall m sp x sp', ready (S m) sp -> micro stamp sp = Some (x, sp') ->
  merged (map denote sp) = x :: merged (map denote sp') /\ ready m sp'.
Proof.
  intros m sp x sp' H Hm. unfold micro in Hm. rewrite (best_pick m sp 0 None H) in Hm.
  destruct (pick (map denote sp) 0 None) as [[i y]|] eqn:Hp; [|discriminate Hm].
  inversion Hm; subst. destruct (pop_denote m sp i H) as [H1 H2].
  split; [|exact H2]. rewrite H1. apply merged_some. exact Hp.
Qed.

Lemma micro_none : forall m sp, ready (S m) sp -> micro stamp sp = None ->
  merged (map denote sp) = [].
Proof.
  intros m sp H Hm. unfold micro in Hm. rewrite (best_pick m sp 0 None H) in Hm.
  destruct (pick (map denote sp) 0 None) as [[i y]|] eqn:Hp; [discriminate Hm|].
  apply merged_none. exact Hp.
Qed.

Lemma ready_weaken_add : forall n q sp, ready (n + q) sp -> ready q sp.
Proof.
  induction n as [|n IH]; intros q sp H; [exact H|]. apply IH. apply ready_weaken. exact H.
Qed.

Lemma drop_n_spec : forall n q sp, ready (n + q) sp ->
  ready q (drop_n stamp n sp) /\
  merged (map denote (drop_n stamp n sp)) = skipn n (merged (map denote sp)).
Proof.
  induction n as [|n IH]; intros q sp H; simpl.
  - split; [exact H|reflexivity].
  - destruct (micro stamp sp) as [[x sp']|] eqn:Hm.
    + destruct (micro_some (n + q) sp x sp' H Hm) as [H1 H2].
      destruct (IH q sp' H2) as [H3 H4]. split; [exact H3|]. rewrite H4, H1. reflexivity.
    + pose proof (micro_none (n + q) sp H Hm) as H1. split.
      * apply (ready_weaken_add (S n)). exact H.
      * rewrite H1. reflexivity.
Qed.

Lemma collect_spec : forall q sp out k, ready q sp -> collect stamp q sp = (out, k) ->
  out = firstn q (merged (map denote sp)) /\
  match k with
  | Some sp' => length out = q /\ merged (map denote sp') = skipn q (merged (map denote sp))
  | None => length out < q
  end.
Proof.
  induction q as [|q IH]; intros sp out k H Hc; simpl in Hc.
  - inversion Hc; subst. simpl. split; [reflexivity|]. split; reflexivity.
  - destruct (micro stamp sp) as [[x sp']|] eqn:Hm.
    + destruct (micro_some q sp x sp' H Hm) as [H1 H2].
      destruct (collect stamp q sp') as [xs r] eqn:Hc'. inversion Hc; subst.
      destruct (IH sp' xs k H2 Hc') as [H3 H4]. rewrite H1. simpl. split.
      * rewrite H3. reflexivity.
      * destruct k as [sp''|].
        -- destruct H4 as [H4 H5]. split; [lia|exact H5].
        -- lia.
    + inversion Hc; subst. rewrite (micro_none q sp H Hm). simpl. split; [reflexivity|lia].
Qed.

Lemma skipn_skipn' : forall (a b : nat) (l : list I), skipn a (skipn b l) = skipn (b + a) l.
Proof.
  intros a b. induction b as [|b IH]; intros l; [reflexivity|].
  destruct l as [|x l]; simpl; [apply skipn_nil|apply IH].
Qed.

Theorem sp_harvest_correct_fact : forall sp q start out k,
  sp_harvest stamp charvest sp q start = (out, k) ->
  out = firstn q (skipn start (merged (map denote sp))) /\
  match k with
  | Some sp' => length out = q /\
                merged (map denote sp') = skipn (start + q) (merged (map denote sp))
  | None => (length out < q)%nat
  end.
Proof.
  intros sp q start out k Hh. unfold sp_harvest in Hh.
  destruct (replenish_spec (q + start) sp) as [R1 R2].
  rewrite Nat.add_comm in R2.
  destruct (drop_n_spec start q (replenish charvest (q + start) sp)) as [D1 D2].
  { rewrite (Nat.add_comm q start). exact R2. }
  rewrite R1 in D2.
  destruct (collect_spec q _ out k D1 Hh) as [C1 C2]. rewrite D2 in C1, C2.
  split; [exact C1|]. destruct k as [sp'|]; [|exact C2].
  destruct C2 as [C2 C3]. split; [exact C2|]. rewrite C3.
  apply skipn_skipn'.
Qed.

(* ---------- 5 ---------- *)

Theorem sp_exhaustion_fact : forall sp q start, (0 < q)%nat ->
  merged (map denote sp) = [] -> sp_harvest stamp charvest sp q start = ([], None).
Proof.
  intros sp q start Hq Hm.
  destruct (sp_harvest stamp charvest sp q start) as [out k] eqn:Hh.
  destruct (sp_harvest_correct_fact sp q start out k Hh) as [H1 H2].
  rewrite Hm, skipn_nil, firstn_nil in H1. subst out.
  destruct k as [sp'|]; [|reflexivity].
  destruct H2 as [H2 _]. simpl in H2. lia.
Qed.

End SF.

Print Assumptions merge_perm_fact.
Print Assumptions merge_step_fact.
Print Assumptions merge_order_fact.
Print Assumptions sp_harvest_correct_fact.
Print Assumptions sp_exhaustion_fact.
