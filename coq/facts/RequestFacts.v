(* Facts about what is written on a connection (C04): the bytes are exactly one well-formed GET
   with a Host and an Accept header; the recogniser accepts nothing else; a component carrying
   CR/LF would not be recognised; requests only ever go to https URLs that could be dialled. *)
From Servitor Require Import Base Mime Json Jtp Request.
From Servitor.Facts Require Import JtpFacts.
Local Open Scope N_scope.

(* ---------------------------------------------------------------- strip *)
Lemma strip_app (p l r : bytes) : strip p l = Some r -> l = p ++ r.
Proof.
  revert l. induction p as [|a p IH]; intros l H; simpl in H.
  - injection H as H. subst. reflexivity.
  - destruct l as [|b l]; [discriminate|].
    destruct (N.eqb a b) eqn:E; [|discriminate].
    apply N.eqb_eq in E. subst b. simpl. f_equal. apply IH. assumption.
Qed.

Lemma strip_same (p r : bytes) : strip p (p ++ r) = Some r.
Proof.
  induction p as [|a p IH]; simpl; [reflexivity|]. rewrite N.eqb_refl. assumption.
Qed.

(* ---------------------------------------------------------------- span_field *)
Definition stop (sp : bool) (c : N) : bool := N.eqb c 13 || N.eqb c 10 || (sp && N.eqb c 32).

Definition starts_stop (sp : bool) (l : bytes) : bool :=
  match l with [] => true | c :: _ => stop sp c end.

Lemma span_field_spec (sp : bool) (l a b : bytes) :
  span_field sp l = (a, b) ->
  l = a ++ b /\ forallb (fun c => negb (stop sp c)) a = true /\ starts_stop sp b = true.
Proof.
  revert a b. induction l as [|c r IH]; intros a b H; simpl in H.
  - injection H as H1 H2. subst. auto.
  - fold (stop sp c) in H. destruct (stop sp c) eqn:E.
    + injection H as H1 H2. subst. simpl. auto.
    + destruct (span_field sp r) as [a' b'] eqn:Hs.
      destruct (IH a' b' eq_refl) as (I1 & I2 & I3).
      injection H as H1 H2. subst. simpl. rewrite E. simpl. auto.
Qed.

Lemma span_field_app (sp : bool) (a b : bytes) :
  forallb (fun c => negb (stop sp c)) a = true -> starts_stop sp b = true ->
  span_field sp (a ++ b) = (a, b).
Proof.
  intros Ha Hb. induction a as [|c a IH]; simpl.
  - destruct b as [|c r]; [reflexivity|]. simpl in Hb. simpl. fold (stop sp c). rewrite Hb. reflexivity.
  - simpl in Ha. apply andb_true_iff in Ha as [H1 H2]. apply negb_true_iff in H1.
    fold (stop sp c). rewrite H1. rewrite (IH H2). reflexivity.
Qed.

Lemma nostop_true (l : bytes) : forallb (fun c => negb (stop true c)) l = no_crlf_sp l.
Proof. reflexivity. Qed.

Lemma nostop_false (l : bytes) : forallb (fun c => negb (stop false c)) l = no_crlf l.
Proof.
  unfold no_crlf, stop. induction l as [|c l IH]; simpl in *; [reflexivity|].
  rewrite IH, orb_false_r. reflexivity.
Qed.

(* ---------------------------------------------------------------- R1 *)
Theorem request_shape_fact : forall uri host accept, uri <> [] -> no_crlf_sp uri = true ->
  no_crlf host = true -> no_crlf accept = true ->
  parse_request (request_bytes uri host accept) = Some (uri, host, accept).
Proof.
  intros uri host accept Hne Hu Hh Ha. unfold parse_request, request_bytes.
  rewrite strip_same.
  rewrite (span_field_app true uri); [|rewrite nostop_true; assumption|reflexivity].
  rewrite (app_assoc CRLF b_host), (app_assoc b_http10 (CRLF ++ b_host)).
  rewrite strip_same.
  rewrite (span_field_app false host); [|rewrite nostop_false; assumption|reflexivity].
  rewrite (app_assoc CRLF b_accept). rewrite strip_same.
  rewrite (span_field_app false accept); [|rewrite nostop_false; assumption|reflexivity].
  destruct uri as [|c u]; [congruence|]. reflexivity.
Qed.

(* ---------------------------------------------------------------- R2 *)
Theorem request_single_fact : forall l uri host accept, parse_request l = Some (uri, host, accept) ->
  l = request_bytes uri host accept /\ uri <> [] /\ no_crlf_sp uri = true /\
  no_crlf host = true /\ no_crlf accept = true.
Proof.
  intros l uri host accept H. unfold parse_request in H.
  destruct (strip b_get l) as [r1|] eqn:S1; [|discriminate].
  destruct (span_field true r1) as [u r2] eqn:F1.
  destruct u as [|c u]; [discriminate|].
  destruct (strip (b_http10 ++ CRLF ++ b_host) r2) as [r3|] eqn:S2; [|discriminate].
  destruct (span_field false r3) as [h r4] eqn:F2.
  destruct (strip (CRLF ++ b_accept) r4) as [r5|] eqn:S3; [|discriminate].
  destruct (span_field false r5) as [a r6] eqn:F3.
  destruct (strip (CRLF ++ CRLF) r6) as [[|x r7]|] eqn:S4; try discriminate.
  injection H as H1 H2 H3. subst uri host accept.
  apply strip_app in S1, S2, S3, S4.
  apply span_field_spec in F1, F2, F3.
  destruct F1 as (A1 & A2 & _). destruct F2 as (B1 & B2 & _). destruct F3 as (C1 & C2 & _).
  rewrite nostop_true in A2. rewrite nostop_false in B2, C2.
  subst. repeat split; auto. discriminate.
Qed.

(* ---------------------------------------------------------------- R3 *)
Lemma no_crlf_existsb (l : bytes) :
  no_crlf l = true -> existsb (fun c => N.eqb c 13 || N.eqb c 10) l = false.
Proof.
  unfold no_crlf. induction l as [|c l IH]; simpl; intros H; [reflexivity|].
  apply andb_true_iff in H as [H1 H2]. apply negb_true_iff in H1. rewrite H1, (IH H2). reflexivity.
Qed.

Lemma no_crlf_sp_no_crlf (l : bytes) : no_crlf_sp l = true -> no_crlf l = true /\ ~ In 32 l.
Proof.
  unfold no_crlf_sp, no_crlf. induction l as [|c l IH]; simpl; intros H; [auto|].
  apply andb_true_iff in H as [H1 H2]. apply negb_true_iff in H1.
  apply orb_false_iff in H1 as [H1 H3]. destruct (IH H2) as [I1 I2].
  rewrite H1, I1. split; [reflexivity|]. intros [Hc|Hc]; [|auto].
  subst c. discriminate.
Qed.

Theorem injection_refused_fact : forall uri host accept,
  (existsb (fun c => N.eqb c 13 || N.eqb c 10) (uri ++ host ++ accept) = true \/ In 32%N uri \/ uri = []) ->
  parse_request (request_bytes uri host accept) <> Some (uri, host, accept).
Proof.
  intros uri host accept Hbad Hp.
  apply request_single_fact in Hp. destruct Hp as (_ & Hne & Hu & Hh & Ha).
  apply no_crlf_sp_no_crlf in Hu. destruct Hu as [Hu Hsp].
  destruct Hbad as [Hbad|[Hbad|Hbad]]; [|auto|auto].
  rewrite !existsb_app in Hbad.
  rewrite (no_crlf_existsb _ Hu), (no_crlf_existsb _ Hh), (no_crlf_existsb _ Ha) in Hbad.
  discriminate.
Qed.

(* ---------------------------------------------------------------- R4 *)
Section RequestFacts.
Variables (W : url -> entry) (is_https : url -> bool) (resolve : url -> bytes -> option url)
          (tolerated : list text).

Lemma hop1_log_ok (u : url) (o : outcome) (log : list url) (ci : bool) :
  hop1 W is_https resolve tolerated u = RStop o log ci ->
  Forall (fun r => is_https r = true /\ e_dial (W r) = true) log.
Proof.
  unfold hop1. destruct (is_https u) eqn:Hs; simpl.
  2:{ intros H. injection H as H1 H2 H3. subst. constructor. }
  destruct (e_dial (W u)) eqn:Hd; simpl.
  2:{ intros H. injection H as H1 H2 H3. subst. constructor. }
  assert (Hu : Forall (fun r => is_https r = true /\ e_dial (W r) = true) [u]).
  { constructor; [split; assumption|constructor]. }
  destruct (classify_response tolerated (W u)) as [d'|v|err].
  - intros H. injection H as H1 H2 H3. subst. assumption.
  - destruct (resolve u v); [discriminate|].
    intros H. injection H as H1 H2 H3. subst. assumption.
  - intros H. injection H as H1 H2 H3. subst. assumption.
Qed.

Lemma get_log_ok : forall cap b c u,
  Forall (fun r => is_https r = true /\ e_dial (W r) = true)
         (snd (get W is_https resolve tolerated cap b c u)).
Proof.
  intros cap b. induction b as [|b IH]; intros c u; rewrite get_unfold;
    destruct (c_get c u) as [[o|] c']; simpl; try (constructor; fail);
    destruct (hop1 W is_https resolve tolerated u) as [o log ci|loc] eqn:Hh; simpl;
    try (eapply hop1_log_ok; eassumption).
  - apply hop1_go in Hh. destruct Hh as (G1 & G2 & _). constructor; [split; assumption|constructor].
  - specialize (IH c loc). destruct (get W is_https resolve tolerated cap b c loc) as [[o c''] log].
    simpl in *. apply hop1_go in Hh. destruct Hh as (G1 & G2 & _).
    constructor; [split; assumption|assumption].
Qed.

Theorem no_plaintext_fact : forall cap b c u,
  Forall (fun r => is_https r = true) (snd (get W is_https resolve tolerated cap b c u)).
Proof.
  intros cap b c u. eapply Forall_impl; [|apply get_log_ok]. simpl. intros a [H _]. assumption.
Qed.

Theorem request_needs_dial_fact : forall cap b c u,
  Forall (fun r => e_dial (W r) = true) (snd (get W is_https resolve tolerated cap b c u)).
Proof.
  intros cap b c u. eapply Forall_impl; [|apply get_log_ok]. simpl. intros a [_ H]. assumption.
Qed.

End RequestFacts.

Print Assumptions request_shape_fact.
Print Assumptions request_single_fact.
Print Assumptions injection_refused_fact.
Print Assumptions no_plaintext_fact.
Print Assumptions request_needs_dial_fact.
