(* Facts about the model of link construction and selection (theories/Links.v):
   what NewLink stores, that getLinks keeps length and order, that SelectBestLink / SelectFirstLink never
   invent a link, that SelectBestLink returns the FIRST best candidate (wanted supertype first, then area),
   and the tie to the numbers printed next to the attachments of a post (PubFacts). *)
From Servitor Require Import Base Unicode Ansi Mime Json Object Pub Links.
From Servitor.Facts Require Import PubFacts.
From Coq Require Import List NArith ZArith Lia Bool ZifyBool.
Import ListNotations.
Local Open Scope Z_scope.

(* ------------------------------------------------------------------ 1, 2. what NewLink stores *)
Theorem new_link_kind_fact : forall url_parse v l, new_link url_parse v = FOk l ->
  exists o, v = JObj o /\ get_string o s_ltype = Present (l_kind l) /\ is_link_kind (l_kind l) = true.
Proof.
  intros url_parse v l H.
  destruct v as [|b|bits|s|vs|o]; cbn [new_link] in H; try discriminate H.
  exists o.
  destruct (get_string o s_ltype) as [k| |] eqn:Ek; try discriminate H.
  destruct (is_link_kind k) eqn:Eik; [|discriminate H].
  injection H as H. subst l. cbn [l_kind]. auto.
Qed.

Theorem new_link_uri_fact : forall url_parse o l, new_link url_parse (JObj o) = FOk l ->
  l_uri l = fval_of (get_url url_parse o (if text_eqb (l_kind l) k_link then s_lhref else s_lurl)).
Proof.
  intros url_parse o l H. cbn [new_link] in H.
  destruct (get_string o s_ltype) as [k| |] eqn:Ek; try discriminate H.
  destruct (is_link_kind k) eqn:Eik; [|discriminate H].
  injection H as H. subst l. cbn [l_kind l_uri]. reflexivity.
Qed.

(* ------------------------------------------------------------------ 3, 4. lists of links *)
Theorem all_links_spec_fact : forall url_parse vs ls,
  all_links url_parse vs = FOk ls <-> Forall2 (fun v l => new_link url_parse v = FOk l) vs ls.
Proof.
  intros url_parse vs. induction vs as [|v r IH]; intros ls; cbn [all_links].
  - split; intros H.
    + injection H as H. subst ls. constructor.
    + inversion H. reflexivity.
  - split; intros H.
    + destruct (new_link url_parse v) as [x| |m] eqn:En; try discriminate H.
      destruct (all_links url_parse r) as [xs| |m] eqn:Ea; try discriminate H.
      injection H as H. subst ls. constructor; [exact En|]. apply IH. reflexivity.
    + inversion H as [|v' l' r' ls' H1 H2]; subst. rewrite H1.
      apply IH in H2. rewrite H2. reflexivity.
Qed.

Lemma Forall2_nth_error_r : forall (A B : Type) (R : A -> B -> Prop) (xs : list A) (ys : list B) (j : nat) (y : B),
  Forall2 R xs ys -> nth_error ys j = Some y -> exists x, nth_error xs j = Some x /\ R x y.
Proof.
  intros A B R xs ys j y HF. revert j. induction HF as [|x0 y0 xs ys H0 HF IH]; intros j Hj.
  - destruct j; discriminate Hj.
  - destruct j as [|j]; cbn [nth_error] in *.
    + injection Hj as Hj. subst y0. exists x0. split; [reflexivity|exact H0].
    + apply IH. exact Hj.
Qed.

Theorem get_links_nth_fact : forall url_parse o key vs ls j l,
  get_list o key = Present vs -> get_links url_parse o key = FOk ls -> nth_error ls j = Some l ->
  exists v, nth_error vs j = Some v /\ new_link url_parse v = FOk l.
Proof.
  intros url_parse o key vs ls j l Hlist Hlinks Hnth.
  unfold get_links in Hlinks. rewrite Hlist in Hlinks.
  apply all_links_spec_fact in Hlinks.
  exact (Forall2_nth_error_r _ _ _ _ _ _ _ Hlinks Hnth).
Qed.

(* ------------------------------------------------------------------ 5, 6. selection never invents a link *)
Lemma best_loop_in : forall rest best sup l, best_loop best rest sup = Some l -> In l (best :: rest).
Proof.
  induction rest as [|this r IH]; intros best sup l H; cbn [best_loop] in H.
  - injection H as H. left. exact H.
  - destruct (sup_matches best sup) as [bm|]; [|discriminate H].
    destruct (sup_matches this sup) as [tm|]; [|discriminate H].
    assert (Hcases : best_loop this r sup = Some l \/ best_loop best r sup = Some l).
    { destruct (tm && negb bm); [left; exact H|].
      destruct (negb tm && bm); [right; exact H|].
      destruct (rating this) as [tr|]; [|discriminate H].
      destruct (rating best) as [br|]; [|discriminate H].
      destruct (Z.ltb br tr); [left|right]; exact H. }
    destruct Hcases as [Hc|Hc]; apply IH in Hc.
    + right. exact Hc.
    + destruct Hc as [Hc|Hc]; [left; exact Hc|right; right; exact Hc].
Qed.

Theorem select_best_in_fact : forall ls sup l, select_best ls sup = Some l -> In l ls.
Proof.
  intros ls sup l H. destruct ls as [|b r]; [discriminate H|].
  cbn [select_best] in H. apply best_loop_in in H. exact H.
Qed.

Theorem select_first_in_fact : forall ls l, select_first ls = Some l -> In l ls.
Proof.
  intros ls l H. destruct ls as [|b r]; [discriminate H|].
  cbn [select_first] in H. injection H as H. left. exact H.
Qed.

Theorem select_best_single_fact : forall l sup, select_best [l] sup = Some l.
Proof. intros l sup. reflexivity. Qed.

(* ------------------------------------------------------------------ 7, 8. the choice is the first best candidate *)
(* well-formed candidates: the media type and both dimensions of every link were read without error *)
Definition links_wf (sup : text) (ls : list link) : Prop :=
  forall x, In x ls -> sup_matches x sup <> None /\ rating x <> None.

(* one number that orders candidates the way the loop does: the wanted supertype counts 2^64, more than any area *)
Definition score (sup : text) (l : link) : Z :=
  (match sup_matches l sup with Some true => 2 ^ 64 | _ => 0 end)
  + (match rating l with Some r => r | None => 0 end).

Lemma rating_range : forall l r, rating l = Some r -> 0 <= r < 2 ^ 64.
Proof.
  intros l r H. unfold rating in H.
  assert (Hpos : 0 < 2 ^ 64) by lia. revert H Hpos. generalize (2 ^ 64). intros M H Hpos.
  destruct (l_height l) as [h| |mh]; destruct (l_width l) as [w| |mw]; try discriminate H;
    injection H as H; subst r; apply Z.mod_pos_bound; exact Hpos.
Qed.

Lemma best_loop_step : forall sup best this r,
  sup_matches best sup <> None -> rating best <> None ->
  sup_matches this sup <> None -> rating this <> None ->
  best_loop best (this :: r) sup = best_loop (if score sup best <? score sup this then this else best) r sup.
Proof.
  intros sup best this r Hbm Hbr Htm Htr. cbn [best_loop]. unfold score.
  destruct (sup_matches best sup) as [bm|]; [|congruence].
  destruct (sup_matches this sup) as [tm|]; [|congruence].
  destruct (rating best) as [br|] eqn:Ebr; [|congruence].
  destruct (rating this) as [tr|] eqn:Etr; [|congruence].
  apply rating_range in Ebr. apply rating_range in Etr.
  revert Ebr Etr. generalize (2 ^ 64). intros M Ebr Etr.
  destruct bm, tm; cbn [andb negb];
    repeat match goal with |- context [Z.ltb ?a ?b] => destruct (Z.ltb_spec a b) end;
    try reflexivity; lia.
Qed.

(* the loop returns the first candidate of maximal score *)
Lemma best_loop_first_max : forall sup rest best, links_wf sup (best :: rest) ->
  exists l pre post, best_loop best rest sup = Some l /\ best :: rest = pre ++ l :: post /\
    (forall y, In y pre -> score sup y < score sup l) /\
    (forall y, In y post -> score sup y <= score sup l).
Proof.
  intros sup. induction rest as [|this r IH]; intros best Hwf.
  - exists best, [], []. cbn [best_loop app]. repeat split; intros y Hy; destruct Hy.
  - destruct (Hwf best (or_introl eq_refl)) as [Hb1 Hb2].
    destruct (Hwf this (or_intror (or_introl eq_refl))) as [Ht1 Ht2].
    rewrite (best_loop_step sup best this r Hb1 Hb2 Ht1 Ht2).
    destruct (Z.ltb_spec (score sup best) (score sup this)) as [Hlt|Hge].
    + destruct (IH this) as (l & pre & post & Hl & Hd & Hpre & Hpost).
      { intros x Hx. apply Hwf. right. exact Hx. }
      assert (Hthis : score sup this <= score sup l).
      { destruct pre as [|p pre']; cbn [app] in Hd; injection Hd as Hp Hr.
        - subst l. lia.
        - subst p. specialize (Hpre this (or_introl eq_refl)). lia. }
      exists l, (best :: pre), post. split; [exact Hl|]. split.
      { cbn [app]. rewrite <- Hd. reflexivity. }
      split; [|exact Hpost].
      intros y [Hy|Hy]; [subst y; lia|apply Hpre; exact Hy].
    + destruct (IH best) as (l & pre & post & Hl & Hd & Hpre & Hpost).
      { intros x [Hx|Hx]; apply Hwf; [left|right; right]; exact Hx. }
      destruct pre as [|p pre']; cbn [app] in Hd; injection Hd as Hp Hr.
      * subst l. subst r. exists best, [], (this :: post). split; [exact Hl|]. split; [reflexivity|].
        split; [intros y Hy; destruct Hy|].
        intros y [Hy|Hy]; [subst y; lia|apply Hpost; exact Hy].
      * subst p. subst r. exists l, (best :: this :: pre'), post. split; [exact Hl|]. split; [reflexivity|].
        split; [|exact Hpost].
        assert (Hbest : score sup best < score sup l) by (apply Hpre; left; reflexivity).
        intros y [Hy|[Hy|Hy]]; [subst y; lia|subst y; lia|apply Hpre; right; exact Hy].
Qed.

Lemma select_best_first_max : forall sup ls, links_wf sup ls -> ls <> [] ->
  exists l pre post, select_best ls sup = Some l /\ ls = pre ++ l :: post /\
    (forall y, In y pre -> score sup y < score sup l) /\
    (forall y, In y post -> score sup y <= score sup l).
Proof.
  intros sup ls Hwf Hne. destruct ls as [|b r]; [congruence|].
  cbn [select_best]. apply best_loop_first_max. exact Hwf.
Qed.

Lemma select_best_max : forall sup ls l, links_wf sup ls -> select_best ls sup = Some l ->
  forall l', In l' ls -> score sup l' <= score sup l.
Proof.
  intros sup ls l Hwf Hsel l' Hin.
  destruct (select_best_first_max sup ls Hwf) as (l0 & pre & post & Hl & Hd & Hpre & Hpost).
  { intros E. subst ls. destruct Hin. }
  rewrite Hsel in Hl. injection Hl as Hl. subst l0.
  rewrite Hd in Hin. apply in_app_or in Hin. destruct Hin as [Hin|[Hin|Hin]].
  - specialize (Hpre l' Hin). lia.
  - subst l'. lia.
  - apply Hpost. exact Hin.
Qed.

(* what an order of scores says in terms of supertype and area *)
Lemma score_le_meaning : forall sup a b,
  sup_matches a sup <> None -> rating a <> None -> sup_matches b sup <> None -> rating b <> None ->
  score sup b <= score sup a ->
  (sup_matches b sup = Some true -> sup_matches a sup = Some true) /\
  (sup_matches b sup = sup_matches a sup -> exists r r', rating a = Some r /\ rating b = Some r' /\ r' <= r).
Proof.
  intros sup a b Ha1 Ha2 Hb1 Hb2 Hle. unfold score in Hle.
  destruct (sup_matches a sup) as [am|]; [|congruence].
  destruct (sup_matches b sup) as [bm|]; [|congruence].
  destruct (rating a) as [ar|] eqn:Ear; [|congruence].
  destruct (rating b) as [br|] eqn:Ebr; [|congruence].
  apply rating_range in Ear. apply rating_range in Ebr.
  revert Hle Ear Ebr. generalize (2 ^ 64). intros M Hle Ear Ebr.
  split.
  - intros Hbt. injection Hbt as Hbt. subst bm. destruct am; [reflexivity|]. lia.
  - intros Heq. injection Heq as Heq. subst bm. exists ar, br. split; [reflexivity|]. split; [reflexivity|].
    destruct am; lia.
Qed.

Lemma score_lt_not_better : forall sup a b,
  sup_matches a sup <> None -> rating a <> None -> sup_matches b sup <> None -> rating b <> None ->
  score sup b < score sup a ->
  ~ ((sup_matches a sup = Some true -> sup_matches b sup = Some true) /\
     (sup_matches a sup = sup_matches b sup -> exists r r', rating b = Some r /\ rating a = Some r' /\ r' <= r)).
Proof.
  intros sup a b Ha1 Ha2 Hb1 Hb2 Hlt [H1 H2]. unfold score in Hlt.
  destruct (sup_matches a sup) as [am|]; [|congruence].
  destruct (sup_matches b sup) as [bm|]; [|congruence].
  destruct (rating a) as [ar|] eqn:Ear; [|congruence].
  destruct (rating b) as [br|] eqn:Ebr; [|congruence].
  apply rating_range in Ear. apply rating_range in Ebr.
  revert Hlt Ear Ebr. generalize (2 ^ 64). intros M Hlt Ear Ebr.
  destruct am, bm.
  - destruct (H2 eq_refl) as (r & r' & Hr & Hr' & Hle). injection Hr as Hr. injection Hr' as Hr'. lia.
  - specialize (H1 eq_refl). discriminate H1.
  - lia.
  - destruct (H2 eq_refl) as (r & r' & Hr & Hr' & Hle). injection Hr as Hr. injection Hr' as Hr'. lia.
Qed.

Lemma score_lt_differs : forall sup a b, score sup b < score sup a ->
  ~ (sup_matches b sup = sup_matches a sup /\ rating b = rating a).
Proof.
  intros sup a b Hlt [H1 H2]. unfold score in Hlt. rewrite H1, H2 in Hlt. lia.
Qed.

Theorem select_best_total_fact : forall ls sup, links_wf sup ls -> ls <> [] ->
  exists l, select_best ls sup = Some l.
Proof.
  intros ls sup Hwf Hne.
  destruct (select_best_first_max sup ls Hwf Hne) as (l & pre & post & Hl & _).
  exists l. exact Hl.
Qed.

Theorem select_best_optimal_fact : forall ls sup l, links_wf sup ls -> select_best ls sup = Some l ->
  forall l', In l' ls ->
    (sup_matches l' sup = Some true -> sup_matches l sup = Some true) /\
    (sup_matches l' sup = sup_matches l sup ->
       exists r r', rating l = Some r /\ rating l' = Some r' /\ r' <= r).
Proof.
  intros ls sup l Hwf Hsel l' Hin.
  assert (Hl : In l ls) by (apply select_best_in_fact with sup; exact Hsel).
  destruct (Hwf l Hl) as [Ha1 Ha2]. destruct (Hwf l' Hin) as [Hb1 Hb2].
  apply score_le_meaning; try assumption.
  apply select_best_max with ls; assumption.
Qed.

(* the chosen link is the FIRST optimal one: it sits at a position before which no candidate has the same standing
   (same supertype verdict and same area), and indeed before which no candidate is at least as good *)
Theorem select_best_first_of_ties_fact : forall ls sup l, links_wf sup ls -> select_best ls sup = Some l ->
  exists pre post, ls = pre ++ l :: post /\
    (forall y, In y pre -> ~ (sup_matches y sup = sup_matches l sup /\ rating y = rating l)) /\
    (forall y, In y pre ->
       ~ ((sup_matches l sup = Some true -> sup_matches y sup = Some true) /\
          (sup_matches l sup = sup_matches y sup ->
             exists r r', rating y = Some r /\ rating l = Some r' /\ r' <= r))).
Proof.
  intros ls sup l Hwf Hsel.
  destruct (select_best_first_max sup ls Hwf) as (l0 & pre & post & Hl & Hd & Hpre & Hpost).
  { intros E. rewrite E in Hsel. discriminate Hsel. }
  rewrite Hsel in Hl. injection Hl as Hl. subst l0.
  exists pre, post. split; [exact Hd|]. split.
  - intros y Hy. apply score_lt_differs. apply Hpre. exact Hy.
  - intros y Hy.
    assert (Hyin : In y ls) by (rewrite Hd; apply in_or_app; left; exact Hy).
    assert (Hlin : In l ls) by (rewrite Hd; apply in_or_app; right; left; reflexivity).
    destruct (Hwf y Hyin) as [Hy1 Hy2]. destruct (Hwf l Hlin) as [Hl1 Hl2].
    apply score_lt_not_better; try assumption. apply Hpre. exact Hy.
Qed.

(* The version quantified over EVERY decomposition  ls = pre ++ x :: post  is FALSE: the same link may occur twice,
   and then the later occurrence has an equal earlier candidate (itself). *)
Definition cx_link : link := mklink k_link FAbsent FAbsent FAbsent FAbsent FAbsent.
Example select_best_first_of_ties_counterexample :
  let ls := [cx_link; cx_link] in
  let sup : text := [] in
  links_wf sup ls /\
  exists pre x post, ls = pre ++ x :: post /\ select_best ls sup = Some x /\
    exists y, In y pre /\ sup_matches y sup = sup_matches x sup /\ rating y = rating x.
Proof.
  cbv zeta. split.
  - intros x Hx. destruct Hx as [Hx|[Hx|Hx]]; [subst x|subst x|destruct Hx]; split; discriminate.
  - exists [cx_link], cx_link, []. split; [reflexivity|]. split; [vm_compute; reflexivity|].
    exists cx_link. split; [left; reflexivity|]. split; reflexivity.
Qed.

Lemma first_occurrence_unique : forall (A : Type) (x : A) (pre pre' post post' : list A),
  pre ++ x :: post = pre' ++ x :: post' -> ~ In x pre -> ~ In x pre' -> pre = pre'.
Proof.
  intros A x. induction pre as [|a pre IH]; intros pre' post post' He Hn Hn'.
  - destruct pre' as [|a' pre']; [reflexivity|].
    cbn [app] in He. injection He as Ha Hr. exfalso. apply Hn'. left. symmetry. exact Ha.
  - destruct pre' as [|a' pre']; cbn [app] in He; injection He as Ha Hr.
    + exfalso. apply Hn. left. exact Ha.
    + subst a'. f_equal. apply (IH pre' post post' Hr).
      * intros Hi. apply Hn. right. exact Hi.
      * intros Hi. apply Hn'. right. exact Hi.
Qed.

(* the closest true statement: for the decomposition at the FIRST occurrence of the chosen link *)
Theorem select_best_first_of_ties_partial_fact : forall ls sup pre x post, links_wf sup ls ->
  ls = pre ++ x :: post -> ~ In x pre -> select_best ls sup = Some x ->
  forall y, In y pre -> ~ (sup_matches y sup = sup_matches x sup /\ rating y = rating x).
Proof.
  intros ls sup pre x post Hwf Hd Hnin Hsel y Hy.
  destruct (select_best_first_max sup ls Hwf) as (l0 & pre0 & post0 & Hl & Hd0 & Hpre & Hpost).
  { intros E. rewrite E in Hsel. discriminate Hsel. }
  rewrite Hsel in Hl. injection Hl as Hl. subst l0.
  assert (Hnin0 : ~ In x pre0). { intros Hi. specialize (Hpre x Hi). lia. }
  assert (Heq : pre = pre0).
  { apply (first_occurrence_unique link x pre pre0 post post0); [|exact Hnin|exact Hnin0].
    rewrite <- Hd. exact Hd0. }
  subst pre0. apply score_lt_differs. apply Hpre. exact Hy.
Qed.

(* ------------------------------------------------------------------ 9. the number next to an attachment *)
Theorem attachment_opens_json_link_fact : forall url_parse o p ls j l,
  p_attachments p = post_attachments_of url_parse o ->
  post_attachments_of url_parse o = FOk ls ->
  nth_error ls j = Some l ->
  post_select_link p (Z.of_nat (length (p_body_links p) + j + 1)) = link_select l mt_unknown /\
  exists vs v, get_list o s_attachment = Present vs /\ nth_error vs j = Some v /\ new_link url_parse v = FOk l.
Proof.
  intros url_parse o p ls j l Hp Hatt Hnth. split.
  - replace (length (p_body_links p) + j + 1)%nat with (S (length (p_body_links p)) + j)%nat by lia.
    apply post_select_attachment_fact. unfold post_events. rewrite Hp, Hatt.
    apply att_events_in. exact Hnth.
  - unfold post_attachments_of in Hatt.
    destruct (get_list o s_attachment) as [vs| |] eqn:Elist.
    + destruct (get_links_nth_fact url_parse o s_attachment vs ls j l Elist Hatt Hnth) as (v & Hv & Hnew).
      exists vs, v. auto.
    + unfold get_links in Hatt. rewrite Elist in Hatt. discriminate Hatt.
    + unfold get_links in Hatt. rewrite Elist in Hatt. discriminate Hatt.
Qed.

(* ------------------------------------------------------------------ 10. non-vacuity *)
Module Lit.
  Import Coq.Strings.Ascii Coq.Strings.String.
  Definition tx (s : string) : text := List.map N_of_ascii (list_ascii_of_string s).
  Definition t_text_html : text := tx "text/html".
  Definition t_image_png : text := tx "image/png".
  Definition t_image_jpeg : text := tx "image/jpeg".
  Definition t_image : text := tx "image".
  Definition t_text : text := tx "text".
  Definition t_html : text := tx "html".
  Definition t_png : text := tx "png".
  Definition t_jpeg : text := tx "jpeg".
  Definition t_url1 : text := tx "https://e.example/page".
  Definition t_url2 : text := tx "https://e.example/small.png".
  Definition t_url3 : text := tx "https://e.example/large.jpg".
End Lit.
Import Lit.

Definition f64_10 : Z := 4621819117588971520.    (* the bits of 10.0 *)
Definition f64_100 : Z := 4636737291354636288.   (* the bits of 100.0 *)

Definition ex_vs : list jv :=
  [ JObj [(s_ltype, JStr k_link); (s_lhref, JStr t_url1); (s_lmedia_type, JStr t_text_html)];
    JObj [(s_ltype, JStr k_image); (s_lurl, JStr t_url2); (s_lmedia_type, JStr t_image_png);
          (s_lheight, JNum f64_10); (s_lwidth, JNum f64_10)];
    JObj [(s_ltype, JStr k_link); (s_lhref, JStr t_url3); (s_lmedia_type, JStr t_image_jpeg);
          (s_lheight, JNum f64_100); (s_lwidth, JNum f64_100)] ].

Definition ex_l1 : link :=
  mklink k_link (FOk (mkmt t_text_html t_text t_html)) (FOk t_url1) FAbsent FAbsent FAbsent.
(* an Image keeps no dimensions: NewLink reads height and width of a Link only *)
Definition ex_l2 : link :=
  mklink k_image (FOk (mkmt t_image_png t_image t_png)) (FOk t_url2) FAbsent FAbsent FAbsent.
Definition ex_l3 : link :=
  mklink k_link (FOk (mkmt t_image_jpeg t_image t_jpeg)) (FOk t_url3) FAbsent (FOk 100) (FOk 100).

Example links_example :
  all_links (fun s => Some s) ex_vs = FOk [ex_l1; ex_l2; ex_l3] /\
  select_best [ex_l1; ex_l2; ex_l3] t_image = Some ex_l3 /\
  select_first [ex_l1; ex_l2; ex_l3] = Some ex_l1 /\
  map (fun l => sup_matches l t_image) [ex_l1; ex_l2; ex_l3] = [Some false; Some true; Some true] /\
  map rating [ex_l1; ex_l2; ex_l3] = [Some 1; Some 1; Some 10000] /\
  t_image = lower_ascii s_image /\        (* the supertype asked for by actor_pfp_of / actor_banner_of *)
  links_wf t_image [ex_l1; ex_l2; ex_l3].
Proof.
  split; [vm_compute; reflexivity|].
  split; [vm_compute; reflexivity|].
  split; [vm_compute; reflexivity|].
  split; [reflexivity|].
  split; [vm_compute; reflexivity|].
  split; [vm_compute; reflexivity|].
  intros x Hx. destruct Hx as [Hx|[Hx|[Hx|Hx]]]; [subst x|subst x|subst x|destruct Hx];
    split; intros E; vm_compute in E; discriminate E.
Qed.

Print Assumptions new_link_kind_fact.
Print Assumptions new_link_uri_fact.
Print Assumptions all_links_spec_fact.
Print Assumptions get_links_nth_fact.
Print Assumptions select_best_in_fact.
Print Assumptions select_first_in_fact.
Print Assumptions select_best_single_fact.
Print Assumptions select_best_total_fact.
Print Assumptions select_best_optimal_fact.
Print Assumptions select_best_first_of_ties_fact.
Print Assumptions select_best_first_of_ties_counterexample.
Print Assumptions select_best_first_of_ties_partial_fact.
Print Assumptions attachment_opens_json_link_fact.
Print Assumptions links_example.
