(* Facts about Height / CenterVertically / ReplaceLastLine / SetLength (model in Ansi.v). *)
From Servitor Require Import Base Unicode Ansi.
From Coq Require Import ZifyBool.
Local Open Scope Z_scope.
Local Ltac Zify.zify_post_hook ::= Z.div_mod_to_equations.

(* ------------------------------------------------------------------ split_nl / join_nl *)
Definition no_nl (l : text) : Prop := has_nl l = false.

Lemma split_aux_spec : forall (t cur : text),
  split_nl_aux cur t = (rev cur ++ hd [] (split_nl t)) :: tl (split_nl t).
Proof.
  unfold split_nl. induction t as [|c t IH]; intros cur.
  - cbn [split_nl_aux rev hd tl]. rewrite app_nil_r. reflexivity.
  - cbn [split_nl_aux]. destruct (N.eqb c NL) eqn:E.
    + cbn [rev hd tl]. rewrite app_nil_r. reflexivity.
    + rewrite (IH (c :: cur)), (IH [c]). cbn [hd tl rev app]. rewrite <- app_assoc. reflexivity.
Qed.

Lemma split_nil : split_nl [] = [[]].
Proof. reflexivity. Qed.

Lemma split_cons_nl (t : text) : split_nl (NL :: t) = [] :: split_nl t.
Proof. reflexivity. Qed.

Lemma split_cons_other (c : rune) (t : text) :
  N.eqb c NL = false -> split_nl (c :: t) = (c :: hd [] (split_nl t)) :: tl (split_nl t).
Proof.
  intros E. unfold split_nl at 1. cbn [split_nl_aux]. rewrite E. rewrite split_aux_spec. reflexivity.
Qed.

Lemma split_nonempty (t : text) : exists l r, split_nl t = l :: r.
Proof. unfold split_nl. rewrite split_aux_spec. eauto. Qed.

Lemma split_not_nil (t : text) : split_nl t <> [].
Proof. destruct (split_nonempty t) as (l & r & E). rewrite E. discriminate. Qed.

Lemma split_length_pos (t : text) : (length (split_nl t) >= 1)%nat.
Proof. destruct (split_nonempty t) as (l & r & E). rewrite E. cbn [length]. lia. Qed.

Lemma height_split (t : text) : height t = Z.of_nat (length (split_nl t)).
Proof.
  unfold height, count_nl. induction t as [|c t IH].
  - reflexivity.
  - cbn [filter]. destruct (N.eqb c NL) eqn:E.
    + apply N.eqb_eq in E. subst c. rewrite split_cons_nl. cbn [length]. lia.
    + rewrite split_cons_other by exact E.
      destruct (split_nonempty t) as (l & r & E2). rewrite E2 in *. cbn [length hd tl] in *. lia.
Qed.

Lemma height_pos (t : text) : 1 <= height t.
Proof. unfold height. lia. Qed.

Lemma split_no_nl (t : text) : Forall no_nl (split_nl t).
Proof.
  induction t as [|c t IH].
  - rewrite split_nil. constructor; [reflexivity|constructor].
  - destruct (N.eqb c NL) eqn:E.
    + apply N.eqb_eq in E. subst c. rewrite split_cons_nl. constructor; [reflexivity|exact IH].
    + rewrite split_cons_other by exact E.
      destruct (split_nonempty t) as (l & r & E2). rewrite E2 in *. cbn [hd tl].
      inversion IH as [|? ? Hl Hr]; subst. constructor; [|exact Hr].
      unfold no_nl, has_nl in *. cbn [existsb]. rewrite E. exact Hl.
Qed.

Lemma join_split (t : text) : join_nl (split_nl t) = t.
Proof.
  induction t as [|c t IH].
  - reflexivity.
  - destruct (split_nonempty t) as (l & r & E2).
    destruct (N.eqb c NL) eqn:E.
    + apply N.eqb_eq in E. subst c. rewrite split_cons_nl. rewrite E2 in *.
      cbn [join_nl app]. cbn [join_nl] in IH. rewrite IH. reflexivity.
    + rewrite split_cons_other by exact E. rewrite E2 in *. cbn [hd tl].
      destruct r as [|l2 r]; cbn [join_nl app] in *; rewrite IH; reflexivity.
Qed.

Lemma split_app_nl (a b : text) : split_nl (a ++ NL :: b) = split_nl a ++ split_nl b.
Proof.
  induction a as [|c a IH].
  - cbn [app]. rewrite split_cons_nl. reflexivity.
  - cbn [app]. destruct (N.eqb c NL) eqn:E.
    + apply N.eqb_eq in E. subst c. rewrite !split_cons_nl, IH. reflexivity.
    + rewrite !split_cons_other by exact E. rewrite IH.
      destruct (split_nonempty a) as (l & r & E2). rewrite E2. reflexivity.
Qed.

Lemma split_one_line (l : text) : no_nl l -> split_nl l = [l].
Proof.
  unfold no_nl, has_nl. induction l as [|c l IH]; intros H.
  - reflexivity.
  - cbn [existsb] in H. apply orb_false_iff in H as [E H].
    rewrite split_cons_other by exact E. rewrite (IH H). reflexivity.
Qed.

Lemma split_join (ls : list text) : ls <> [] -> Forall no_nl ls -> split_nl (join_nl ls) = ls.
Proof.
  induction ls as [|l ls IH]; intros Hne Hall; [congruence|].
  inversion Hall as [|? ? Hl Hr]; subst.
  destruct ls as [|l2 ls].
  - cbn [join_nl]. apply split_one_line. exact Hl.
  - change (join_nl (l :: l2 :: ls)) with (l ++ NL :: join_nl (l2 :: ls)).
    rewrite split_app_nl, IH by (try discriminate; assumption).
    rewrite split_one_line by exact Hl. reflexivity.
Qed.

Lemma height_app_nl (a b : text) : height (a ++ NL :: b) = height a + height b.
Proof. rewrite !height_split, split_app_nl, app_length. lia. Qed.

Lemma split_repeat_nl (n : nat) (p : text) :
  split_nl (repeat_text [NL] n ++ p) = repeat ([] : text) n ++ split_nl p.
Proof.
  induction n as [|n IH].
  - reflexivity.
  - cbn [repeat_text repeat app]. rewrite split_cons_nl, IH. reflexivity.
Qed.

Lemma height_repeat_nl (n : nat) : height (repeat_text [NL] n) = Z.of_nat n + 1.
Proof.
  rewrite <- (app_nil_r (repeat_text [NL] n)), height_split, split_repeat_nl, app_length, repeat_length.
  rewrite split_nil. cbn [length]. lia.
Qed.

Lemma height_join (ls : list text) :
  ls <> [] -> Forall no_nl ls -> height (join_nl ls) = Z.of_nat (length ls).
Proof. intros Hne Hall. rewrite height_split, split_join by assumption. reflexivity. Qed.

Lemma split_app_repeat_nl (s : text) (n : nat) :
  split_nl (s ++ repeat_text [NL] n) = split_nl s ++ repeat ([] : text) n.
Proof.
  induction n as [|n IH].
  - cbn [repeat_text repeat]. rewrite !app_nil_r. reflexivity.
  - cbn [repeat_text app]. rewrite split_app_nl.
    rewrite <- (app_nil_r (repeat_text [NL] n)), split_repeat_nl, split_nil.
    f_equal. change [[]] with (repeat ([] : text) 1). rewrite <- repeat_app.
    f_equal. lia.
Qed.

(* ------------------------------------------------------------------ list helpers *)
Lemma Forall_firstn_ {A} (P : A -> Prop) (n : nat) (l : list A) : Forall P l -> Forall P (firstn n l).
Proof.
  revert l. induction n as [|n IH]; intros l H; [constructor|].
  destruct l as [|x l]; [constructor|]. inversion H; subst. cbn [firstn]. constructor; auto.
Qed.

Lemma Forall_skipn_ {A} (P : A -> Prop) (n : nat) (l : list A) : Forall P l -> Forall P (skipn n l).
Proof.
  revert l. induction n as [|n IH]; intros l H; [exact H|].
  destruct l as [|x l]; [constructor|]. inversion H; subst. cbn [skipn]. auto.
Qed.

Lemma skipn_repeat {A} (x : A) (k n : nat) : skipn k (repeat x n) = repeat x (n - k).
Proof.
  revert n. induction k as [|k IH]; intros n.
  - rewrite Nat.sub_0_r. reflexivity.
  - destruct n as [|n]; [reflexivity|]. cbn [repeat skipn]. rewrite IH. reflexivity.
Qed.

Lemma firstn_repeat {A} (x : A) (k n : nat) : firstn k (repeat x n) = repeat x (Nat.min k n).
Proof.
  revert n. induction k as [|k IH]; intros n.
  - reflexivity.
  - destruct n as [|n]; [reflexivity|]. cbn [repeat firstn Nat.min]. rewrite IH. reflexivity.
Qed.

Lemma length_nonnil {A} (l : list A) : (length l >= 1)%nat -> l <> [].
Proof. destruct l; cbn [length]; [lia|discriminate]. Qed.

(* the last T lines of (T blank lines ++ l) *)
Lemma above_cases {A} (x : A) (T : nat) (l : list A) :
  skipn (length (repeat x T ++ l) - T) (repeat x T ++ l) =
  if (length l <=? T)%nat then repeat x (T - length l) ++ l else skipn (length l - T) l.
Proof.
  rewrite app_length, repeat_length.
  replace (T + length l - T)%nat with (length l) by lia.
  rewrite skipn_app, skipn_repeat, repeat_length.
  destruct (length l <=? T)%nat eqn:E.
  - replace (length l - T)%nat with 0%nat by lia. reflexivity.
  - replace (T - length l)%nat with 0%nat by lia. reflexivity.
Qed.

(* the first B lines of (l ++ B blank lines) *)
Lemma below_cases {A} (x : A) (B : nat) (l : list A) :
  firstn B (l ++ repeat x B) =
  if (length l <=? B)%nat then l ++ repeat x (B - length l) else firstn B l.
Proof.
  rewrite firstn_app, firstn_repeat.
  destruct (length l <=? B)%nat eqn:E.
  - rewrite firstn_all2 by lia. f_equal. f_equal. lia.
  - replace (Nat.min (B - length l) B) with 0%nat by lia. cbn [repeat]. rewrite app_nil_r. reflexivity.
Qed.

(* ------------------------------------------------------------------ CenterVertically *)
Lemma prefix_split (p : text) (top : Z) : 1 <= top ->
  split_nl (if Z.ltb (height p) top then repeat_text [NL] (Z.to_nat (top - height p)) ++ p
            else if Z.ltb top (height p) then join_nl (skipn (Z.to_nat (height p - top)) (split_nl p))
            else p) =
  skipn (length (repeat ([] : text) (Z.to_nat top) ++ split_nl p) - Z.to_nat top)
        (repeat ([] : text) (Z.to_nat top) ++ split_nl p).
Proof.
  intros Ht. rewrite above_cases. rewrite (height_split p).
  pose proof (split_length_pos p) as Hpos.
  pose proof (split_no_nl p) as Hall.
  set (ls := split_nl p) in *. set (n := length ls) in *.
  destruct (Z.ltb (Z.of_nat n) top) eqn:E1.
  - subst ls. rewrite split_repeat_nl. destruct (n <=? Z.to_nat top)%nat eqn:E2; [|lia].
    f_equal. f_equal. lia.
  - destruct (Z.ltb top (Z.of_nat n)) eqn:E2.
    + rewrite split_join.
      * destruct (n <=? Z.to_nat top)%nat eqn:E3; [lia|]. f_equal. lia.
      * apply length_nonnil. rewrite skipn_length. fold n. lia.
      * apply Forall_skipn_. exact Hall.
    + destruct (n <=? Z.to_nat top)%nat eqn:E3; [|lia].
      replace (Z.to_nat top - n)%nat with 0%nat by lia. subst ls. reflexivity.
Qed.

Lemma suffix_split (s : text) (bot : Z) : 1 <= bot ->
  split_nl (if Z.ltb (height s) bot then s ++ repeat_text [NL] (Z.to_nat (bot - height s))
            else if Z.ltb bot (height s) then join_nl (firstn (Z.to_nat bot) (split_nl s))
            else s) =
  firstn (Z.to_nat bot) (split_nl s ++ repeat ([] : text) (Z.to_nat bot)).
Proof.
  intros Hb. rewrite below_cases. rewrite (height_split s).
  pose proof (split_length_pos s) as Hpos.
  pose proof (split_no_nl s) as Hall.
  set (ls := split_nl s) in *. set (n := length ls) in *.
  destruct (Z.ltb (Z.of_nat n) bot) eqn:E1.
  - subst ls. rewrite split_app_repeat_nl. destruct (n <=? Z.to_nat bot)%nat eqn:E2; [|lia].
    f_equal. f_equal. lia.
  - destruct (Z.ltb bot (Z.of_nat n)) eqn:E2.
    + rewrite split_join.
      * destruct (n <=? Z.to_nat bot)%nat eqn:E3; [lia|]. reflexivity.
      * apply length_nonnil. rewrite firstn_length. fold n. lia.
      * apply Forall_firstn_. exact Hall.
    + destruct (n <=? Z.to_nat bot)%nat eqn:E3; [|lia].
      replace (Z.to_nat bot - n)%nat with 0%nat by lia. cbn [repeat]. rewrite app_nil_r.
      subst ls. reflexivity.
Qed.

Lemma center_split_short (p c s : text) (h : Z) : height c < h ->
  let top := (h - height c) / 2 in
  let bot := (h - height c) - top in
  split_nl (center_vertically p c s h) =
    skipn (length (repeat ([] : text) (Z.to_nat top) ++ split_nl p) - Z.to_nat top)
          (repeat ([] : text) (Z.to_nat top) ++ split_nl p)
    ++ split_nl c
    ++ firstn (Z.to_nat bot) (split_nl s ++ repeat ([] : text) (Z.to_nat bot)).
Proof.
  intros Hlt top bot. unfold center_vertically. cbv zeta.
  destruct (Z.leb h (height c)) eqn:E; [lia|].
  fold top.
  replace (top + (h - height c) mod 2) with bot by (subst top bot; lia).
  assert (Hbot : 1 <= bot) by (subst top bot; lia).
  assert (Htop : 0 <= top) by (subst top; lia).
  destruct (Z.eqb top 0) eqn:E0.
  - replace (Z.to_nat top) with 0%nat by lia.
    cbn [repeat app]. rewrite Nat.sub_0_r, skipn_all. cbn [app].
    rewrite split_app_nl, suffix_split by exact Hbot. reflexivity.
  - rewrite <- app_assoc. cbn [app]. rewrite !split_app_nl.
    rewrite prefix_split by lia. rewrite suffix_split by exact Hbot. reflexivity.
Qed.

Theorem center_tall_fact : forall (p c s : text) (h : Z), 1 <= h -> h <= height c ->
  split_nl (center_vertically p c s h) = firstn (Z.to_nat h) (split_nl c).
Proof.
  intros p c s h H1 Hle. unfold center_vertically. cbv zeta.
  destruct (Z.leb h (height c)) eqn:E; [|lia].
  apply split_join.
  - apply length_nonnil. rewrite firstn_length. pose proof (split_length_pos c). lia.
  - apply Forall_firstn_, split_no_nl.
Qed.
Print Assumptions center_tall_fact.

Theorem centered_position_fact : forall (p c s : text) (h : Z), height c < h ->
  let top := (h - height c) / 2 in
  exists above below,
    split_nl (center_vertically p c s h) = above ++ split_nl c ++ below /\
    Z.of_nat (length above) = top /\
    Z.of_nat (length below) = (h - height c) - top /\
    above = skipn (length (repeat [] (Z.to_nat top) ++ split_nl p) - Z.to_nat top)
                  (repeat ([] : text) (Z.to_nat top) ++ split_nl p) /\
    below = firstn (Z.to_nat ((h - height c) - top))
                   (split_nl s ++ repeat ([] : text) (Z.to_nat ((h - height c) - top))).
Proof.
  intros p c s h Hlt top.
  eexists. eexists. split; [apply center_split_short; exact Hlt|].
  fold top.
  assert (Htop : 0 <= top) by (subst top; lia).
  assert (Hbot : 0 <= h - height c - top) by (subst top; lia).
  split; [|split; [|split; reflexivity]].
  - rewrite skipn_length, app_length, repeat_length. lia.
  - rewrite firstn_length, app_length, repeat_length. lia.
Qed.
Print Assumptions centered_position_fact.

Theorem center_height_fact : forall (p c s : text) (h : Z), 1 <= h -> height (center_vertically p c s h) = h.
Proof.
  intros p c s h H1. destruct (Z.leb h (height c)) eqn:E.
  - rewrite height_split, center_tall_fact by lia. rewrite firstn_length.
    rewrite (height_split c) in E. lia.
  - destruct (centered_position_fact p c s h ltac:(lia)) as (above & below & Hs & Ha & Hb & _ & _).
    rewrite height_split, Hs, !app_length. rewrite (height_split c) in *. lia.
Qed.
Print Assumptions center_height_fact.

(* ------------------------------------------------------------------ ReplaceLastLine *)
Theorem replace_last_line_fact : forall (o r x : text),
  replace_last_line o r = Ok x -> 2 <= height o ->
  height x = height o /\
  exists keep, split_nl o = keep ++ [last (split_nl o) []] /\ split_nl x = keep ++ [r].
Proof.
  intros o r x H H2. unfold replace_last_line in H.
  destruct (has_nl r) eqn:Er; [discriminate|]. injection H as <-.
  pose proof (split_no_nl o) as Hall. rewrite (height_split o) in *.
  unfold before_last_nl.
  destruct (exists_last (split_not_nil o)) as (keep & lst & E).
  rewrite E in *. rewrite rev_unit, rev_involutive, last_last.
  assert (Hk : keep <> []).
  { destruct keep; [cbn [app length] in H2; lia|discriminate]. }
  apply Forall_app in Hall as [Hkeep _].
  cbn [app].
  assert (Hsx : split_nl (join_nl keep ++ NL :: r) = keep ++ [r]).
  { rewrite split_app_nl, split_join by assumption.
    rewrite split_one_line by exact Er. reflexivity. }
  split.
  - rewrite height_split, Hsx, !app_length. reflexivity.
  - exists keep. split; [reflexivity|exact Hsx].
Qed.
Print Assumptions replace_last_line_fact.

Theorem replace_last_line_ok_fact : forall (o r : text),
  has_nl r = false -> exists x, replace_last_line o r = Ok x.
Proof. intros o r H. unfold replace_last_line. rewrite H. eauto. Qed.
Print Assumptions replace_last_line_ok_fact.

(* ------------------------------------------------------------------ SetLength *)
Lemma spaces_length (n : Z) : length (spaces n) = Z.to_nat n.
Proof.
  unfold spaces. induction (Z.to_nat n) as [|k IH]; [reflexivity|].
  cbn [repeat_text app length]. rewrite IH. reflexivity.
Qed.

Lemma spaces_no_nl (n : Z) : has_nl (spaces n) = false.
Proof.
  unfold spaces. induction (Z.to_nat n) as [|k IH]; [reflexivity|].
  cbn [repeat_text app]. unfold has_nl in *. cbn [existsb]. rewrite IH. reflexivity.
Qed.

Lemma squash_no_nl (t : text) : has_nl (squash t) = false.
Proof.
  unfold has_nl, squash. induction t as [|c t IH]; [reflexivity|].
  cbn [map existsb]. rewrite IH. destruct (N.eqb c NL) eqn:E; [reflexivity|]. rewrite E. reflexivity.
Qed.

Lemma has_nl_app (a b : text) : has_nl (a ++ b) = has_nl a || has_nl b.
Proof. apply existsb_app. Qed.

Lemma firstn_no_nl (k : nat) (t : text) : has_nl t = false -> has_nl (firstn k t) = false.
Proof.
  unfold has_nl. revert t. induction k as [|k IH]; intros t H; [reflexivity|].
  destruct t as [|c t]; [reflexivity|]. cbn [firstn existsb] in *.
  apply orb_false_iff in H as [H1 H2]. rewrite H1, (IH t H2). reflexivity.
Qed.

Theorem set_length_len_fact : forall (t e r : text) (len : Z),
  0 <= len -> length e = 1%nat -> set_length t len e = Ok r -> Z.of_nat (length r) = len.
Proof.
  intros t e r len H0 He H. unfold set_length in H.
  set (q := squash (scrub t)) in *.
  destruct (Z.eqb len 0) eqn:E0.
  - injection H as <-. cbn [length]. lia.
  - destruct (Z.ltb len (Z.of_nat (length q))) eqn:E1.
    + destruct (Z.ltb len 1) eqn:E2; [discriminate|]. injection H as <-.
      rewrite app_length, firstn_length, He. lia.
    + destruct (Z.ltb (Z.of_nat (length q)) len) eqn:E2; injection H as <-.
      * rewrite app_length, spaces_length. lia.
      * lia.
Qed.
Print Assumptions set_length_len_fact.

Theorem set_length_ok_fact : forall (t e : text) (len : Z),
  0 <= len -> exists r, set_length t len e = Ok r.
Proof.
  intros t e len H0. unfold set_length.
  destruct (Z.eqb len 0) eqn:E0; [eauto|].
  destruct (Z.ltb len (Z.of_nat (length (squash (scrub t))))) eqn:E1.
  - destruct (Z.ltb len 1) eqn:E2; [lia|eauto].
  - destruct (Z.ltb (Z.of_nat (length (squash (scrub t)))) len); eauto.
Qed.
Print Assumptions set_length_ok_fact.

Theorem set_length_one_line_fact : forall (t e r : text) (len : Z),
  has_nl e = false -> set_length t len e = Ok r -> has_nl r = false.
Proof.
  intros t e r len He H. unfold set_length in H.
  pose proof (squash_no_nl (scrub t)) as Hq.
  set (q := squash (scrub t)) in *.
  destruct (Z.eqb len 0) eqn:E0.
  - injection H as <-. reflexivity.
  - destruct (Z.ltb len (Z.of_nat (length q))) eqn:E1.
    + destruct (Z.ltb len 1) eqn:E2; [discriminate|]. injection H as <-.
      rewrite has_nl_app, He, firstn_no_nl by exact Hq. reflexivity.
    + destruct (Z.ltb (Z.of_nat (length q)) len) eqn:E2; injection H as <-.
      * rewrite has_nl_app, Hq, spaces_no_nl. reflexivity.
      * exact Hq.
Qed.
Print Assumptions set_length_one_line_fact.
