(* Facts about the terminal model (Term.v) on well-formed styled text, and about
   expand / scrub on plain text. *)
From Servitor Require Import Base Unicode Ansi AnsiSpec Term.
From Coq Require Import List NArith Lia Bool ZifyBool ZifyN.
Import ListNotations.

(* ------------------------------------------------------------------ fuel independence *)
Lemma take_params_len : forall l p r,
  take_params l = Some (p, r) -> length l = S (length p + length r).
Proof.
  induction l as [|c l IH]; intros p r H; cbn [take_params] in H; [discriminate|].
  destruct (N.eqb c CH_m).
  - inversion H; subst. reflexivity.
  - destruct (is_param c); [|discriminate].
    destruct (take_params l) as [[p' r']|] eqn:E; [|discriminate].
    inversion H; subst. cbn [length]. rewrite (IH _ _ eq_refl). reflexivity.
Qed.

Lemma sgr_at_len : forall t p r, sgr_at t = Some (p, r) -> length r < length t.
Proof.
  intros t p r H. unfold sgr_at in H.
  destruct t as [|a [|b t2]]; try discriminate.
  destruct (N.eqb a ESC && N.eqb b LBR); [|discriminate].
  apply take_params_len in H. cbn [length]. lia.
Qed.

Lemma term_fuel2 : forall f1 f2 st t,
  length t <= f1 -> length t <= f2 -> term f1 st t = term f2 st t.
Proof.
  induction f1 as [|f1 IH]; intros f2 st t H1 H2.
  - destruct t; [|cbn [length] in H1; lia]. destruct f2; reflexivity.
  - destruct t as [|a t1]. { destruct f2; reflexivity. }
    destruct f2 as [|f2]; [cbn [length] in H2; lia|].
    cbn [term].
    destruct (sgr_at (a :: t1)) as [[p rest]|] eqn:E.
    + apply sgr_at_len in E. cbn [length] in *. apply IH; lia.
    + cbn [length] in *. rewrite (IH f2 st t1) by lia. reflexivity.
Qed.

Lemma term_fuel : forall fuel st t, length t <= fuel -> term fuel st t = term (length t) st t.
Proof. intros fuel st t H. apply term_fuel2; [assumption|apply le_n]. Qed.

Definition run (st : attrs) (t : text) : list (rune * attrs) * attrs := term (length t) st t.

Lemma display_run : forall t, display t = run [] t.
Proof. reflexivity. Qed.

Lemma run_nil : forall st, run st [] = ([], st).
Proof. reflexivity. Qed.

Lemma run_sgr : forall st t p rest, sgr_at t = Some (p, rest) ->
  run st t = run (if is_clear p then [] else st ++ [p]) rest.
Proof.
  intros st t p rest H. unfold run.
  destruct t as [|a t1]; [discriminate H|].
  cbn [length term]. rewrite H.
  apply sgr_at_len in H. cbn [length] in H.
  apply term_fuel. lia.
Qed.

Lemma run_char : forall st a t1, sgr_at (a :: t1) = None ->
  run st (a :: t1) = let (out, st') := run st t1 in ((a, st) :: out, st').
Proof.
  intros st a t1 H. unfold run. cbn [length term]. rewrite H. reflexivity.
Qed.

(* ------------------------------------------------------------------ SGR groups *)
Lemma is_param_not_m : forall a, is_param a = true -> N.eqb a CH_m = false.
Proof. intros a H. unfold is_param, CH_m in *. lia. Qed.

Lemma take_params_app : forall ps rest, forallb is_param ps = true ->
  take_params (ps ++ CH_m :: rest) = Some (ps, rest).
Proof.
  induction ps as [|a ps IH]; intros rest H.
  - cbn [app take_params]. rewrite N.eqb_refl. reflexivity.
  - cbn [forallb] in H. apply andb_true_iff in H as [Ha Hps].
    cbn [app take_params]. rewrite (is_param_not_m _ Ha), Ha, (IH _ Hps). reflexivity.
Qed.

Lemma sgr_at_group : forall ps rest, forallb is_param ps = true ->
  sgr_at (ESC :: LBR :: ps ++ CH_m :: rest) = Some (ps, rest).
Proof.
  intros ps rest H. unfold sgr_at. rewrite !N.eqb_refl. cbn [andb].
  apply take_params_app. assumption.
Qed.

Lemma sgr_at_not_esc : forall a t, a <> ESC -> sgr_at (a :: t) = None.
Proof.
  intros a t H. unfold sgr_at. destruct t as [|b t2]; [reflexivity|].
  apply N.eqb_neq in H. rewrite H. reflexivity.
Qed.

Lemma is_clear_false : forall ps, ps <> [] -> ps <> [CH_0] -> is_clear ps = false.
Proof.
  intros ps H1 H2. destruct ps as [|c [|d ps]]; cbn [is_clear]; try congruence.
  destruct (N.eqb_spec c CH_0) as [E|E]; [subst; congruence|reflexivity].
Qed.

Lemma groups_of_S : forall f p,
  groups_of (S f) p = match sgr_at p with
                      | Some (ps, rest) => ps :: groups_of f rest
                      | None => []
                      end.
Proof. reflexivity. Qed.

Lemma groups_fuel : forall p, sgr_groups p ->
  forall f, length p <= f -> groups_of f p = groups_of (length p) p.
Proof.
  intros p Hp. induction Hp as [|ps rest Hps Hne H0 Hrest IH]; intros f Hf.
  - destruct f; reflexivity.
  - destruct f as [|f]; [cbn [length] in Hf; lia|].
    cbn [length] in *.
    rewrite !groups_of_S, sgr_at_group by assumption.
    rewrite app_length in *. cbn [length] in *.
    rewrite (IH f) by lia. rewrite (IH (S (length ps + S (length rest)))) by lia.
    reflexivity.
Qed.

Lemma groups_of_group : forall ps rest f, forallb is_param ps = true -> sgr_groups rest ->
  length (ESC :: LBR :: ps ++ CH_m :: rest) <= f ->
  groups_of f (ESC :: LBR :: ps ++ CH_m :: rest) = ps :: groups_of (length rest) rest.
Proof.
  intros ps rest f Hps Hrest Hf.
  destruct f as [|f]; [cbn [length] in Hf; lia|].
  rewrite groups_of_S, sgr_at_group by assumption.
  cbn [length] in Hf. rewrite app_length in Hf. cbn [length] in Hf.
  rewrite (groups_fuel _ Hrest f) by lia. reflexivity.
Qed.

Lemma run_groups : forall p, sgr_groups p -> forall st rest,
  run st (p ++ rest) = run (st ++ groups_of (length p) p) rest.
Proof.
  intros p Hp. induction Hp as [|ps rest0 Hps Hne H0 Hrest IH]; intros st rest.
  - cbn [app length groups_of]. rewrite app_nil_r. reflexivity.
  - rewrite groups_of_group by (try assumption; apply le_n).
    cbn [app]. rewrite <- app_assoc. cbn [app].
    rewrite (run_sgr st _ ps (rest0 ++ rest)) by (apply sgr_at_group; assumption).
    rewrite is_clear_false by assumption.
    rewrite IH. rewrite <- app_assoc. reflexivity.
Qed.

Lemma run_reset : forall st rest, run st (reset_seq ++ rest) = run [] rest.
Proof.
  intros st rest. unfold reset_seq. cbn [app].
  rewrite (run_sgr st _ [CH_0] rest).
  - reflexivity.
  - apply (sgr_at_group [CH_0] rest). reflexivity.
Qed.

Lemma wf_cell_rst_false : forall c, wf_cell c -> rst c = false -> pre c = [].
Proof.
  intros c (_ & _ & Hr & _) E. destruct (pre c) as [|x p]; [reflexivity|].
  assert (H : rst c = true) by (apply Hr; discriminate). congruence.
Qed.

Lemma run_cell : forall c, wf_cell c -> forall rest,
  run [] (full c ++ rest) =
  let (out, st') := run [] rest in ((letter c, cell_attrs c) :: out, st').
Proof.
  intros c Hwf rest. pose proof Hwf as (Hg & Hl & Hr & Hn).
  unfold full, cell_attrs.
  rewrite <- app_assoc. rewrite run_groups by assumption.
  cbn [app].
  rewrite run_char by (apply sgr_at_not_esc; assumption).
  destruct (rst c) eqn:Er.
  - rewrite run_reset. reflexivity.
  - rewrite (wf_cell_rst_false c Hwf Er). cbn [app length groups_of]. reflexivity.
Qed.

(* ------------------------------------------------------------------ 1. display *)
Theorem display_wf_fact : forall cs : list cell, wf_cells cs ->
  display (collapse cs) = (map (fun c => (letter c, cell_attrs c)) cs, []).
Proof.
  intros cs H. rewrite display_run.
  induction H as [|c cs Hc Hcs IH].
  - reflexivity.
  - unfold collapse in *. cbn [flat_map map].
    rewrite run_cell by assumption. rewrite IH. reflexivity.
Qed.
Print Assumptions display_wf_fact.

(* ------------------------------------------------------------------ 2. apply *)
Definition styled (style : text) (c : cell) : cell :=
  if is_nl_cell c then mkcell [] NL false
  else mkcell (ESC :: LBR :: style ++ CH_m :: pre c) (letter c) true.

Lemma styled_wf : forall style c, wf_cell c ->
  forallb is_param style = true -> style <> [] -> style <> [CH_0] -> wf_cell (styled style c).
Proof.
  intros style c (Hg & Hl & Hr & Hn) Hs Hne H0. unfold styled.
  destruct (is_nl_cell c) eqn:E; unfold wf_cell; cbn [pre letter rst].
  - repeat split; try congruence.
    + constructor.
    + unfold NL, ESC. discriminate.
  - repeat split; try congruence.
    + constructor; assumption.
    + intros E2. unfold is_nl_cell in E. apply N.eqb_neq in E. contradiction.
Qed.

Lemma styled_full : forall style c,
  (if N.eqb (letter c) NL then [NL]
   else [ESC; LBR] ++ style ++ [CH_m] ++ pre c ++ [letter c] ++ reset_seq) = full (styled style c).
Proof.
  intros style c. unfold styled, is_nl_cell, full.
  destruct (N.eqb (letter c) NL); cbn [pre letter rst app].
  - reflexivity.
  - rewrite <- app_assoc. reflexivity.
Qed.

Theorem apply_cells_wf_fact : forall (style : text) (cs : list cell),
  wf_cells cs -> forallb is_param style = true -> style <> [] -> style <> [CH_0] ->
  let cs' := map (fun c => if is_nl_cell c then mkcell [] NL false
                           else mkcell (ESC :: LBR :: style ++ CH_m :: pre c) (letter c) true) cs in
  wf_cells cs' /\ apply_cells style cs = collapse cs'.
Proof.
  intros style cs H Hs Hne H0. cbv zeta.
  change (wf_cells (map (styled style) cs) /\ apply_cells style cs = collapse (map (styled style) cs)).
  split.
  - unfold wf_cells in *. apply Forall_map. eapply Forall_impl; [|exact H].
    intros c Hc. apply styled_wf; assumption.
  - unfold apply_cells, collapse. clear H.
    induction cs as [|c cs IH]; [reflexivity|].
    cbn [map flat_map]. rewrite IH. rewrite styled_full. reflexivity.
Qed.
Print Assumptions apply_cells_wf_fact.

Theorem apply_attrs_fact : forall style cs, wf_cells cs ->
  forallb is_param style = true -> style <> [] -> style <> [CH_0] ->
  display (apply_cells style cs) =
    (map (fun c => if is_nl_cell c then (NL, []) else (letter c, style :: cell_attrs c)) cs, []).
Proof.
  intros style cs H Hs Hne H0.
  destruct (apply_cells_wf_fact style cs H Hs Hne H0) as [Hwf Heq].
  rewrite Heq. rewrite display_wf_fact by assumption.
  rewrite map_map. f_equal.
  apply map_ext_in. intros c Hc.
  assert (Hcw : wf_cell c) by (eapply Forall_forall; [exact H|exact Hc]).
  destruct (is_nl_cell c); unfold cell_attrs; cbn [pre letter].
  - reflexivity.
  - destruct Hcw as (Hg & _). rewrite groups_of_group by (try assumption; apply le_n).
    reflexivity.
Qed.
Print Assumptions apply_attrs_fact.

(* ------------------------------------------------------------------ 3. neutral *)
Theorem neutral_wf_fact : forall cs, wf_cells cs -> neutral_b (collapse cs) = true.
Proof.
  intros cs H. unfold neutral_b. rewrite display_wf_fact by assumption.
  cbn [fst snd]. rewrite andb_true_r.
  apply forallb_forall. intros [l a] Hin. cbn [fst snd].
  apply in_map_iff in Hin as (c & Hc & Hin). inversion Hc; subst.
  assert (Hcw : wf_cell c) by (eapply Forall_forall; [exact H|exact Hin]).
  destruct Hcw as (_ & _ & _ & Hn).
  destruct (N.eqb_spec (letter c) NL) as [E|E]; [|reflexivity].
  unfold cell_attrs. rewrite (Hn E). reflexivity.
Qed.
Print Assumptions neutral_wf_fact.

(* ------------------------------------------------------------------ 4. safe *)
Theorem safe_wf_fact : forall cs, wf_cells cs ->
  forallb (fun c => printable (letter c)) cs = true -> safe_b (collapse cs) = true.
Proof.
  intros cs H Hp. unfold safe_b. rewrite display_wf_fact by assumption.
  cbn [fst]. rewrite forallb_forall in *. intros [l a] Hin. cbn [fst].
  apply in_map_iff in Hin as (c & Hc & Hin). inversion Hc; subst.
  apply Hp. assumption.
Qed.
Print Assumptions safe_wf_fact.

(* ------------------------------------------------------------------ 5. expand on plain text *)
Lemma take_groups_plain : forall fuel c l, c <> ESC -> take_groups fuel (c :: l) = ([], c :: l).
Proof.
  intros fuel c l H. destruct fuel as [|f]; [reflexivity|].
  cbn [take_groups]. destruct l as [|b l']; [reflexivity|].
  apply N.eqb_neq in H. rewrite H. reflexivity.
Qed.

Lemma strip_reset_plain : forall l, ~ In ESC l -> strip_reset l = (false, l).
Proof.
  intros l H. unfold strip_reset.
  destruct l as [|a [|b [|c [|d l']]]]; try reflexivity.
  assert (E : a <> ESC) by (intros E; apply H; left; exact E).
  apply N.eqb_neq in E. rewrite E. reflexivity.
Qed.

Lemma expand_fuel_plain : forall fuel t, length t <= fuel -> ~ In ESC t ->
  expand_fuel fuel t = map (fun c => mkcell [] c false) t.
Proof.
  induction fuel as [|f IH]; intros t Hlen Hno.
  - destruct t; [reflexivity|cbn [length] in Hlen; lia].
  - destruct t as [|c t]; [reflexivity|].
    assert (Hc : c <> ESC) by (intros E; apply Hno; left; exact E).
    assert (Ht : ~ In ESC t) by (intros E; apply Hno; right; exact E).
    cbn [expand_fuel]. rewrite take_groups_plain by assumption.
    rewrite strip_reset_plain by assumption.
    cbn [length] in Hlen. rewrite IH by (try assumption; lia). reflexivity.
Qed.

Theorem expand_plain_fact : forall t : text, ~ In ESC t ->
  expand t = map (fun c => mkcell [] c false) t.
Proof. intros t H. unfold expand. apply expand_fuel_plain; [apply le_n|assumption]. Qed.
Print Assumptions expand_plain_fact.

Corollary plain_wf_fact : forall t, ~ In ESC t -> wf_cells (map (fun c => mkcell [] c false) t).
Proof.
  intros t H. unfold wf_cells. apply Forall_map. apply Forall_forall. intros c Hc.
  unfold wf_cell. cbn [pre letter rst]. repeat split; try congruence.
  - constructor.
Qed.
Print Assumptions plain_wf_fact.

(* ------------------------------------------------------------------ 6. scrub *)
Definition scrub1 (c : rune) : text :=
  if N.eqb c 9 then [SP; SP; SP; SP]
  else if negb (N.eqb c NL) && is_control c then [] else [c].

Lemma scrub_flat : forall t, scrub t = flat_map scrub1 t.
Proof. reflexivity. Qed.

Lemma scrub_cons : forall c t, scrub (c :: t) = scrub1 c ++ scrub t.
Proof. reflexivity. Qed.

Lemma scrub1_clean : forall c, forallb printable (scrub1 c) = true.
Proof.
  intros c. unfold scrub1. destruct (N.eqb c 9); [reflexivity|].
  destruct (negb (N.eqb c NL) && is_control c) eqn:E; [reflexivity|].
  cbn [forallb]. unfold printable. rewrite andb_true_r.
  destruct (N.eqb c NL); [reflexivity|]. cbn [negb andb orb] in *. rewrite E. reflexivity.
Qed.

Theorem scrub_clean_fact : forall t : text, forallb printable (scrub t) = true.
Proof.
  induction t as [|c t IH]; [reflexivity|].
  rewrite scrub_cons, forallb_app, scrub1_clean, IH. reflexivity.
Qed.
Print Assumptions scrub_clean_fact.

Theorem scrub_no_esc_fact : forall t : text, ~ In ESC (scrub t).
Proof.
  intros t Hin. pose proof (scrub_clean_fact t) as H.
  rewrite forallb_forall in H. apply H in Hin. vm_compute in Hin. discriminate.
Qed.
Print Assumptions scrub_no_esc_fact.

Lemma scrub1_printable : forall c, printable c = true -> scrub1 c = [c].
Proof.
  intros c H. unfold scrub1.
  destruct (N.eqb_spec c 9) as [E|E]; [subst; vm_compute in H; discriminate|].
  unfold printable in H.
  destruct (N.eqb c NL); [reflexivity|].
  cbn [orb negb andb] in *. destruct (is_control c); [discriminate|reflexivity].
Qed.

Lemma scrub_printable : forall l, forallb printable l = true -> scrub l = l.
Proof.
  induction l as [|c l IH]; intros H; [reflexivity|].
  cbn [forallb] in H. apply andb_true_iff in H as [Hc Hl].
  rewrite scrub_cons, (scrub1_printable c Hc), (IH Hl). reflexivity.
Qed.

Theorem scrub_idempotent_fact : forall t, scrub (scrub t) = scrub t.
Proof. intros t. apply scrub_printable. apply scrub_clean_fact. Qed.
Print Assumptions scrub_idempotent_fact.
