(* Facts about the WebFinger lookup (theories/Webfinger.v): where the typed name is split, what
   url.QueryEscape can emit and that a server reading the query gets back exactly what was typed,
   the shape of the request that is written, which link the scan of the JRD returns, and what a
   lookup may send (https only, dialled, bounded, first request to the URL built from the name). *)
From Coq Require Import ZifyN ZifyBool.
From Servitor Require Import Base Unicode Ansi Mime Json Object Jtp Client Request Webfinger.
From Servitor.Facts Require Import JtpFacts RequestFacts.
Local Open Scope N_scope.

Definition is_byte (c : N) : Prop := (c < 256)%N.

(* what a server does with the query: '+' is a space, percent-XX is the byte *)
Definition unhex (c : N) : option N :=
  if (48 <=? c) && (c <=? 57) then Some (c - 48)
  else if (65 <=? c) && (c <=? 70) then Some (c - 55) else None.

(* Written with N.eqb tests instead of the literal patterns 37 / 43 (the literal-pattern version
   is [query_unescape_lit] below, proved equal to this one in [query_unescape_lit_eq]). *)
Fixpoint query_unescape (l : bytes) : option bytes :=
  match l with
  | [] => Some []
  | c :: r =>
      if c =? 37 then
        match r with
        | a :: b :: r' =>
            match unhex a, unhex b, query_unescape r' with
            | Some x, Some y, Some t => Some (16 * x + y :: t)
            | _, _, _ => None
            end
        | _ => None
        end
      else if c =? 43 then option_map (cons 32) (query_unescape r)
      else option_map (cons c) (query_unescape r)
  end.

Definition uri_char (c : N) : bool := unreserved c || N.eqb c 43 || N.eqb c 37.    (* what query_escape can emit *)

(* ---------------------------------------------------------------- finite checks over bytes *)
Definition all_bytes : list N := map N.of_nat (seq 0 256).

Lemma in_all_bytes (c : N) : is_byte c -> In c all_bytes.
Proof.
  intros Hc. unfold all_bytes. rewrite <- (N2Nat.id c). apply in_map. apply in_seq.
  unfold is_byte in Hc. lia.
Qed.

Lemma byte_check (P : N -> bool) : forallb P all_bytes = true -> forall c, is_byte c -> P c = true.
Proof.
  intros Hall c Hc. rewrite forallb_forall in Hall. apply Hall. apply in_all_bytes. assumption.
Qed.

(* ---------------------------------------------------------------- 1. split_at *)
Theorem split_at_spec_fact : forall t a d,
  split_at t = Some (a, d) <-> t = a ++ AT_B :: d /\ ~ In AT_B a.
Proof.
  induction t as [|c r IH]; intros a d; cbn [split_at].
  - split; [discriminate|]. intros [Heq _]. destruct a; discriminate Heq.
  - destruct (N.eqb c AT_B) eqn:E.
    + apply N.eqb_eq in E. subst c. split.
      * intros Heq. injection Heq as Ha Hd. subst a d. split; [reflexivity|intros []].
      * intros [Heq Hn]. destruct a as [|x a]; cbn [app] in Heq.
        -- injection Heq as Hd. subst d. reflexivity.
        -- injection Heq as Hx _. exfalso. apply Hn. left. symmetry. assumption.
    + apply N.eqb_neq in E. split.
      * intros Heq. destruct (split_at r) as [[a' d']|] eqn:S; [|discriminate].
        injection Heq as Ha Hd. subst a d.
        destruct (proj1 (IH a' d') eq_refl) as [H1 H2]. subst r.
        split; [reflexivity|]. intros [Hc|Hc]; [congruence|auto].
      * intros [Heq Hn]. destruct a as [|x a]; cbn [app] in Heq.
        -- injection Heq as Hc _. congruence.
        -- injection Heq as Hx Hr. subst x r.
           rewrite (proj2 (IH a d)); [reflexivity|].
           split; [reflexivity|]. intros Hc. apply Hn. right. assumption.
Qed.

Theorem split_at_none_fact : forall t, split_at t = None <-> ~ In AT_B t.
Proof.
  induction t as [|c r IH]; cbn [split_at].
  - split; [intros _ []|reflexivity].
  - destruct (N.eqb c AT_B) eqn:E.
    + apply N.eqb_eq in E. subst c. split; [discriminate|].
      intros Hn. exfalso. apply Hn. left. reflexivity.
    + apply N.eqb_neq in E. destruct (split_at r) as [[a' d']|] eqn:S.
      * split; [discriminate|]. intros Hn. exfalso.
        assert (Hr : ~ In AT_B r) by (intros Hc; apply Hn; right; assumption).
        apply IH in Hr. discriminate Hr.
      * split; [|reflexivity]. intros _ [Hc|Hc]; [congruence|].
        apply (proj1 IH eq_refl). assumption.
Qed.

(* ---------------------------------------------------------------- 2. what query_escape emits *)
Lemma query_escape_cons (c : N) (bs : bytes) : query_escape (c :: bs) = escape_byte c ++ query_escape bs.
Proof. reflexivity. Qed.

Lemma escape_byte_chars (c : N) : is_byte c -> forallb uri_char (escape_byte c) = true.
Proof.
  revert c. apply (byte_check (fun c => forallb uri_char (escape_byte c))). vm_compute. reflexivity.
Qed.

Theorem query_escape_chars_fact : forall bs, Forall is_byte bs -> forallb uri_char (query_escape bs) = true.
Proof.
  intros bs Hb. induction Hb as [|c bs Hc Hb IH]; [reflexivity|].
  rewrite query_escape_cons, forallb_app, IH, (escape_byte_chars c Hc). reflexivity.
Qed.

(* The hypothesis is needed: for a "byte" of 576 the first hex digit would be '[' (55 + 36). *)
Example query_escape_chars_needs_bytes : forallb uri_char (query_escape [576]) = false.
Proof. vm_compute. reflexivity. Qed.

(* ---------------------------------------------------------------- 3. nothing that ends a line, a field, a parameter or the path *)
(* These hold for every list of N (hex_digit never falls below '0' and never hits a delimiter),
   so the general forms come first and the stated ones are instances. *)
Lemma escape_byte_safe (c x : N) : In x (escape_byte c) ->
  x <> 13 /\ x <> 10 /\ x <> 32 /\ x <> 38 /\ x <> 35 /\ x <> 61 /\ x <> 63 /\ x <> 47.
Proof.
  unfold escape_byte. destruct (unreserved c) eqn:U.
  - intros [Hx|[]]. subst x. unfold unreserved in U. lia.
  - destruct (N.eqb c 32) eqn:E.
    + intros [Hx|[]]. subst x. lia.
    + unfold hex_digit. intros [Hx|[Hx|[Hx|[]]]]; subst x.
      * lia.
      * destruct (N.ltb (c / 16) 10) eqn:L; lia.
      * destruct (N.ltb (c mod 16) 10) eqn:L; lia.
Qed.

Lemma query_escape_safe (bs : bytes) (x : N) : In x (query_escape bs) ->
  x <> 13 /\ x <> 10 /\ x <> 32 /\ x <> 38 /\ x <> 35 /\ x <> 61 /\ x <> 63 /\ x <> 47.
Proof.
  unfold query_escape. intros Hx. apply in_flat_map in Hx. destruct Hx as (c & _ & Hx).
  eapply escape_byte_safe. eassumption.
Qed.

Lemma query_escape_no_crlf_sp_any (bs : bytes) : no_crlf_sp (query_escape bs) = true.
Proof.
  unfold no_crlf_sp. apply forallb_forall. intros x Hx. apply query_escape_safe in Hx. lia.
Qed.

Lemma query_escape_no_delims_any (bs : bytes) (c : N) : In c (query_escape bs) ->
  c <> 38 /\ c <> 35 /\ c <> 61 /\ c <> 63 /\ c <> 47.
Proof. intros Hc. apply query_escape_safe in Hc. tauto. Qed.

Theorem query_escape_no_crlf_sp_fact : forall bs, Forall is_byte bs -> no_crlf_sp (query_escape bs) = true.
Proof. intros bs _. apply query_escape_no_crlf_sp_any. Qed.

Theorem query_escape_no_delims_fact : forall bs c, Forall is_byte bs -> In c (query_escape bs) ->
  c <> 38 /\ c <> 35 /\ c <> 61 /\ c <> 63 /\ c <> 47.
Proof. intros bs c _. apply query_escape_no_delims_any. Qed.

(* ---------------------------------------------------------------- 4. the server reads back what was typed *)
Lemma unhex_hex_digit (n : N) : n < 16 -> unhex (hex_digit n) = Some n.
Proof.
  intros Hn. unfold unhex, hex_digit. destruct (N.ltb n 10) eqn:L.
  - replace ((48 <=? 48 + n) && (48 + n <=? 57)) with true by lia. f_equal. lia.
  - replace ((48 <=? 55 + n) && (55 + n <=? 57)) with false by lia.
    replace ((65 <=? 55 + n) && (55 + n <=? 70)) with true by lia. f_equal. lia.
Qed.

Lemma query_unescape_escape_byte (c : N) (rest : bytes) : is_byte c ->
  query_unescape (escape_byte c ++ rest) = option_map (cons c) (query_unescape rest).
Proof.
  unfold is_byte. intros Hc. unfold escape_byte. destruct (unreserved c) eqn:U.
  - cbn [app query_unescape]. unfold unreserved in U.
    replace (c =? 37) with false by lia. replace (c =? 43) with false by lia. reflexivity.
  - destruct (N.eqb c 32) eqn:E.
    + apply N.eqb_eq in E. subst c. reflexivity.
    + cbn [app query_unescape]. rewrite N.eqb_refl.
      rewrite (unhex_hex_digit (c / 16)) by lia. rewrite (unhex_hex_digit (c mod 16)) by lia.
      destruct (query_unescape rest) as [t|]; [|reflexivity].
      cbn [option_map]. f_equal. f_equal. lia.
Qed.

Theorem query_escape_roundtrip_fact : forall bs, Forall is_byte bs -> query_unescape (query_escape bs) = Some bs.
Proof.
  intros bs Hb. induction Hb as [|c bs Hc Hb IH]; [reflexivity|].
  rewrite query_escape_cons, (query_unescape_escape_byte c _ Hc), IH. reflexivity.
Qed.

Theorem query_escape_injective_fact : forall a b, Forall is_byte a -> Forall is_byte b ->
  query_escape a = query_escape b -> a = b.
Proof.
  intros a b Ha Hb Heq.
  pose proof (query_escape_roundtrip_fact a Ha) as Ra.
  pose proof (query_escape_roundtrip_fact b Hb) as Rb.
  rewrite Heq in Ra. congruence.
Qed.

(* ---------------------------------------------------------------- 5. the request-URI *)
Lemma wf_arg_bytes (acct dom : bytes) : Forall is_byte acct -> Forall is_byte dom ->
  Forall is_byte (s_acct ++ acct ++ AT_B :: dom).
Proof.
  intros Ha Hd. apply Forall_app. split.
  - unfold s_acct. repeat (constructor; [reflexivity|]). constructor.
  - apply Forall_app. split; [assumption|]. constructor; [reflexivity|assumption].
Qed.

Theorem wf_uri_shape_fact : forall acct dom, Forall is_byte acct -> Forall is_byte dom ->
  wf_uri acct dom <> [] /\ no_crlf_sp (wf_uri acct dom) = true /\
  exists q, wf_uri acct dom = wf_prefix ++ q /\ query_unescape q = Some (s_acct ++ acct ++ AT_B :: dom).
Proof.
  intros acct dom Ha Hd. pose proof (wf_arg_bytes acct dom Ha Hd) as Hb. split; [|split].
  - unfold wf_uri, wf_prefix. cbn [app]. discriminate.
  - unfold wf_uri, no_crlf_sp. rewrite forallb_app. apply andb_true_iff. split.
    + vm_compute. reflexivity.
    + exact (query_escape_no_crlf_sp_fact _ Hb).
  - exists (query_escape (s_acct ++ acct ++ AT_B :: dom)). split; [reflexivity|].
    apply query_escape_roundtrip_fact. assumption.
Qed.

(* ---------------------------------------------------------------- 6. the bytes written *)
Theorem wf_request_shape_fact : forall acct dom, Forall is_byte acct -> Forall is_byte dom ->
  no_crlf dom = true ->
  parse_request (request_bytes (wf_uri acct dom) dom jrd_accept) = Some (wf_uri acct dom, dom, jrd_accept).
Proof.
  intros acct dom Ha Hd Hn. destruct (wf_uri_shape_fact acct dom Ha Hd) as (Hne & Hu & _).
  apply request_shape_fact; try assumption. vm_compute. reflexivity.
Qed.

(* ---------------------------------------------------------------- 7. the scan of the links *)
Lemma wf_scan_cons (e : jv) (r : list jv) :
  wf_scan (e :: r) = match wf_scan [e] with WFNotFound => wf_scan r | x => x end.
Proof.
  destruct e as [| | | | |o]; try reflexivity. cbn [wf_scan].
  destruct (get_string o s_rel) as [rel| |]; try reflexivity.
  destruct (negb (text_eqb rel s_self)); [reflexivity|].
  destruct (get_media_type o s_type) as [m| |]; try reflexivity.
  destruct (mt_matches m wf_types); [|reflexivity].
  destruct (get_string o s_href); reflexivity.
Qed.

Lemma wf_scan_single_link (e : jv) (h : text) : wf_scan [e] = WFLink h ->
  exists o, e = JObj o /\ get_string o s_rel = Present s_self /\
    (exists m, get_media_type o s_type = Present m /\ mt_matches m wf_types = true) /\
    get_string o s_href = Present h.
Proof.
  intros H. destruct e as [| | | | |o]; cbn [wf_scan] in H; try discriminate H.
  destruct (get_string o s_rel) as [rel| |] eqn:R; try discriminate H.
  destruct (text_eqb rel s_self) eqn:T; cbn [negb] in H; [|discriminate H].
  apply text_eqb_eq in T. subst rel.
  destruct (get_media_type o s_type) as [m| |] eqn:M; try discriminate H.
  destruct (mt_matches m wf_types) eqn:MM; [|discriminate H].
  destruct (get_string o s_href) as [h'| |] eqn:Hh; try discriminate H.
  injection H as H. subst h'. exists o. repeat split; eauto.
Qed.

Lemma wf_scan_single_notfound (e : jv) : wf_scan [e] = WFNotFound -> exists o, e = JObj o.
Proof.
  intros H. destruct e as [| | | | |o]; cbn [wf_scan] in H; try discriminate H. eauto.
Qed.

Theorem wf_scan_link_fact : forall l h, wf_scan l = WFLink h ->
  exists pre o post, l = pre ++ JObj o :: post /\ get_string o s_rel = Present s_self /\
    (exists m, get_media_type o s_type = Present m /\ mt_matches m wf_types = true) /\
    get_string o s_href = Present h /\
    Forall (fun e => exists o', e = JObj o' /\ wf_scan [e] = WFNotFound) pre.
Proof.
  induction l as [|e r IH]; intros h H; [discriminate H|].
  rewrite wf_scan_cons in H. destruct (wf_scan [e]) as [h0| | | |] eqn:E; try discriminate H.
  - injection H as H. subst h0. apply wf_scan_single_link in E.
    destruct E as (o & He & R & M & Hh). subst e.
    exists [], o, r. repeat split; auto.
  - destruct (IH h H) as (pre & o & post & Hl & R & M & Hh & Hpre). subst r.
    exists (e :: pre), o, post. repeat split; auto.
    constructor; [|assumption].
    destruct (wf_scan_single_notfound e E) as (o' & He). exists o'. split; assumption.
Qed.

Theorem wf_scan_notfound_fact : forall l,
  wf_scan l = WFNotFound <-> Forall (fun e => wf_scan [e] = WFNotFound) l.
Proof.
  induction l as [|e r IH].
  - split; [constructor|reflexivity].
  - rewrite wf_scan_cons. split.
    + intros H. destruct (wf_scan [e]) as [h0| | | |] eqn:E; try discriminate H.
      constructor; [exact E|]. apply IH. exact H.
    + intros H. inversion H as [|x xs H1 H2]. subst x xs. rewrite H1. apply IH. assumption.
Qed.

(* ---------------------------------------------------------------- 8. what a lookup sends *)
Theorem untag_tag_fact : forall u, untag (tag u) = u.
Proof. intros u. reflexivity. Qed.

Section GetLog.
Variables (W : url -> entry) (is_https : url -> bool) (resolve : url -> bytes -> option url)
          (tol : list text) (cap : nat).

(* every non-empty log of [get] starts with the URL asked for: a cache hit, a non-https URL and a
   failed dial log nothing, every other branch logs u first.  So no hypothesis on the cache is
   needed below: the premise "the log is r :: log'" already excludes the cases where nothing is sent. *)
Lemma get_log_head (b : nat) (c : cache) (u r : url) (log' : list url) :
  snd (get W is_https resolve tol cap b c u) = r :: log' -> r = u.
Proof.
  destruct b as [|b]; cbn [get]; destruct (c_get c u) as [[o|] c0]; cbn [snd];
    try (intros H; congruence);
    destruct (negb (is_https u)); cbn [snd]; try (intros H; congruence);
    destruct (negb (e_dial (W u))); cbn [snd]; try (intros H; congruence);
    destruct (classify_response tol (W u)) as [d|v|err]; cbn [snd]; try (intros H; congruence);
    destruct (resolve u v) as [loc|]; cbn [snd]; try (intros H; congruence).
  destruct (get W is_https resolve tol cap b c loc) as [[o1 c1] log1]. cbn [snd].
  intros H. congruence.
Qed.
End GetLog.

Section WebfingerFacts.
Variables (W : url -> entry) (is_https : url -> bool) (resolve : url -> bytes -> option url)
          (cap : nat) (mk_url : bytes -> bytes -> url).

Notation get_t := (get (W_t W) (is_https_t is_https) (resolve_t resolve) jrd_tolerated cap).

Theorem wf_no_at_fact : forall c name, ~ In AT_B name ->
  resolve_webfinger W is_https resolve cap mk_url c name = (WFNoAt, c, []).
Proof.
  intros c name Hn. unfold resolve_webfinger.
  rewrite (proj2 (split_at_none_fact name) Hn). reflexivity.
Qed.

(* JtpFacts states the bound for [get] with budget b as  length log <= b + 1  (get_requests_fact);
   here b = MAX_REDIRECTS and b + 1 is rewritten to S MAX_REDIRECTS.  The facts about [get] are
   used at the instance W_t / is_https_t / resolve_t and pushed through [map untag]. *)
Theorem wf_requests_fact : forall c name,
  let '(_, _, log) := resolve_webfinger W is_https resolve cap mk_url c name in
  Forall (fun r => is_https r = true /\ e_dial (W r) = true) log /\ (length log <= S MAX_REDIRECTS)%nat.
Proof.
  intros c name. unfold resolve_webfinger. destruct (split_at name) as [[acct dom]|].
  2:{ split; [constructor|]. cbn [length]. apply Nat.le_0_l. }
  pose proof (no_plaintext_fact (W_t W) (is_https_t is_https) (resolve_t resolve) jrd_tolerated cap
                MAX_REDIRECTS c (tag (mk_url dom (wf_uri acct dom)))) as H1.
  pose proof (request_needs_dial_fact (W_t W) (is_https_t is_https) (resolve_t resolve) jrd_tolerated cap
                MAX_REDIRECTS c (tag (mk_url dom (wf_uri acct dom)))) as H2.
  pose proof (get_requests_fact (W_t W) (is_https_t is_https) (resolve_t resolve) jrd_tolerated cap
                MAX_REDIRECTS c (tag (mk_url dom (wf_uri acct dom)))) as H3.
  destruct (get_t MAX_REDIRECTS c (tag (mk_url dom (wf_uri acct dom)))) as [[o c'] log].
  cbn [snd] in H1, H2, H3. rewrite Nat.add_1_r in H3.
  assert (HH : Forall (fun r => is_https r = true /\ e_dial (W r) = true) (map untag log) /\
               (length (map untag log) <= S MAX_REDIRECTS)%nat).
  { split; [|rewrite map_length; exact H3].
    rewrite Forall_forall in *. intros r Hr. apply in_map_iff in Hr. destruct Hr as (r0 & Hr0 & Hin).
    subst r. split; [exact (H1 r0 Hin)|exact (H2 r0 Hin)]. }
  destruct o; exact HH.
Qed.

Theorem wf_first_request_fact : forall c name acct dom r log',
  split_at name = Some (acct, dom) ->
  snd (resolve_webfinger W is_https resolve cap mk_url c name) = r :: log' ->
  r = mk_url dom (wf_uri acct dom).
Proof.
  intros c name acct dom r log' Hs. unfold resolve_webfinger. rewrite Hs.
  pose proof (get_log_head (W_t W) (is_https_t is_https) (resolve_t resolve) jrd_tolerated cap
                MAX_REDIRECTS c (tag (mk_url dom (wf_uri acct dom)))) as Hh.
  destruct (get_t MAX_REDIRECTS c (tag (mk_url dom (wf_uri acct dom)))) as [[o c'] log].
  cbn [snd] in Hh.
  assert (HH : map untag log = r :: log' -> r = mk_url dom (wf_uri acct dom)).
  { destruct log as [|r0 log0]; cbn [map]; intros Heq; [discriminate Heq|].
    injection Heq as Hr _. rewrite (Hh r0 log0 eq_refl) in Hr. rewrite untag_tag_fact in Hr.
    symmetry. exact Hr. }
  destruct o; cbn [snd]; exact HH.
Qed.

(* the cache after a [get] on a tagged URL: every pair was there before or has a tagged key *)
Lemma get_t_keys : forall b c u0 x, In x (snd (fst (get_t b c (tag u0)))) ->
  In x c \/ exists u, fst x = tag u.
Proof.
  induction b as [|b IH]; intros c u0 x Hx; rewrite get_unfold in Hx;
    destruct (c_get c (tag u0)) as [[o|] c1] eqn:G; cbn [fst snd] in Hx;
    try (left; exact (proj2 (c_get_hit c (tag u0) o c1 G) x Hx));
    destruct (hop1 (W_t W) (is_https_t is_https) (resolve_t resolve) jrd_tolerated (tag u0))
      as [o log ci|loc] eqn:Hh; cbn [fst snd] in Hx.
  - destruct ci; [|left; exact Hx]. apply c_add_In in Hx. destruct Hx as [Hx|Hx]; [|left; exact Hx].
    subst x. right. exists u0. reflexivity.
  - left. exact Hx.
  - destruct ci; [|left; exact Hx]. apply c_add_In in Hx. destruct Hx as [Hx|Hx]; [|left; exact Hx].
    subst x. right. exists u0. reflexivity.
  - apply hop1_go in Hh. destruct Hh as (_ & _ & v & _ & Hr).
    unfold resolve_t in Hr. destruct (resolve (untag (tag u0)) v) as [l0|]; [|discriminate Hr].
    cbn [option_map] in Hr. injection Hr as Hr. subst loc.
    specialize (IH c l0 x).
    destruct (get_t b c (tag l0)) as [[o c2] log2]. cbn [fst snd] in Hx, IH.
    apply c_add_In in Hx. destruct Hx as [Hx|Hx]; [|exact (IH Hx)].
    subst x. right. exists u0. reflexivity.
Qed.

Theorem wf_cache_keys_fact : forall c name k,
  let '(_, c', _) := resolve_webfinger W is_https resolve cap mk_url c name in
  In k (map fst c') -> In k (map fst c) \/ exists u, k = tag u.
Proof.
  intros c name k. unfold resolve_webfinger. destruct (split_at name) as [[acct dom]|].
  2:{ intros Hk. left. exact Hk. }
  pose proof (get_t_keys MAX_REDIRECTS c (mk_url dom (wf_uri acct dom))) as Hg.
  destruct (get_t MAX_REDIRECTS c (tag (mk_url dom (wf_uri acct dom)))) as [[o c'] log].
  cbn [fst snd] in Hg.
  assert (HH : In k (map fst c') -> In k (map fst c) \/ exists u, k = tag u).
  { intros Hk. apply in_map_iff in Hk. destruct Hk as (x & Hx & Hin). subst k.
    destruct (Hg x Hin) as [Hc|Ht]; [left; apply in_map; exact Hc|right; exact Ht]. }
  destruct o; exact HH.
Qed.

End WebfingerFacts.

(* ---------------------------------------------------------------- 9. non-vacuity *)
Definition ex_name : bytes := [97;108;32;105;99;101;64;104;46;101;120;97;109;112;108;101].   (* "al ice@h.example" *)
Definition ex_acct : bytes := [97;108;32;105;99;101].                                          (* "al ice" *)
Definition ex_dom : bytes := [104;46;101;120;97;109;112;108;101].                              (* "h.example" *)
(* "/.well-known/webfinger?resource=acct%3Aal+ice%40h.example" *)
Definition ex_uri : bytes :=
  [47;46;119;101;108;108;45;107;110;111;119;110;47;119;101;98;102;105;110;103;101;114;63;114;101;115;
   111;117;114;99;101;61;97;99;99;116;37;51;65;97;108;43;105;99;101;37;52;48;104;46;101;120;97;109;112;108;101].
Definition ex_href1 : text := [104;116;116;112;115;58;47;47;104;46;101;120;97;109;112;108;101;47;64;97;108;105;99;101].          (* "https://h.example/@alice" *)
Definition ex_href2 : text := [104;116;116;112;115;58;47;47;104;46;101;120;97;109;112;108;101;47;117;115;101;114;115;47;97;108;105;99;101].  (* "https://h.example/users/alice" *)
Definition ex_links : list jv :=
  [ JObj [ (s_rel, JStr [104;116;116;112;58;47;47;119;101;98;102;105;110;103;101;114;46;110;101;116;47;114;101;108;47;112;114;111;102;105;108;101;45;112;97;103;101]);   (* "http://webfinger.net/rel/profile-page" *)
           (s_type, JStr [116;101;120;116;47;104;116;109;108]);                              (* "text/html" *)
           (s_href, JStr ex_href1) ];
    JObj [ (s_rel, JStr s_self);
           (s_type, JStr [97;112;112;108;105;99;97;116;105;111;110;47;97;99;116;105;118;105;116;121;43;106;115;111;110]);   (* "application/activity+json" *)
           (s_href, JStr ex_href2) ] ].

Example wf_example :
  split_at ex_name = Some (ex_acct, ex_dom) /\
  wf_uri ex_acct ex_dom = ex_uri /\
  parse_request (request_bytes ex_uri ex_dom jrd_accept) = Some (ex_uri, ex_dom, jrd_accept) /\
  wf_scan ex_links = WFLink ex_href2.
Proof. vm_compute. repeat split; reflexivity. Qed.

(* ---------------------------------------------------------------- query_unescape with literal patterns *)
Fixpoint query_unescape_lit (l : bytes) : option bytes :=
  match l with
  | [] => Some []
  | 37 :: a :: b :: r =>
      match unhex a, unhex b, query_unescape_lit r with
      | Some x, Some y, Some t => Some (16 * x + y :: t)
      | _, _, _ => None
      end
  | 37 :: _ => None
  | 43 :: r => option_map (cons 32) (query_unescape_lit r)
  | c :: r => option_map (cons c) (query_unescape_lit r)
  end.

Lemma query_unescape_lit_step (c : N) (r : bytes) :
  query_unescape_lit (c :: r) =
  if c =? 37 then
    match r with
    | a :: b :: r' =>
        match unhex a, unhex b, query_unescape_lit r' with
        | Some x, Some y, Some t => Some (16 * x + y :: t)
        | _, _, _ => None
        end
    | _ => None
    end
  else if c =? 43 then option_map (cons 32) (query_unescape_lit r)
  else option_map (cons c) (query_unescape_lit r).
Proof.
  destruct c as [|p]; [reflexivity|].
  do 6 (try destruct p as [p|p|]); try reflexivity; destruct r as [|a [|b r']]; reflexivity.
Qed.

Lemma query_unescape_lit_eq (l : bytes) : query_unescape_lit l = query_unescape l.
Proof.
  assert (H : forall n l, (length l <= n)%nat -> query_unescape_lit l = query_unescape l).
  { induction n as [|n IH]; intros l0 Hl.
    - destruct l0; [reflexivity|]. cbn [length] in Hl. lia.
    - destruct l0 as [|c r]; [reflexivity|]. rewrite query_unescape_lit_step.
      cbn [query_unescape]. cbn [length] in Hl. destruct (c =? 37).
      + destruct r as [|a [|b r']]; try reflexivity.
        cbn [length] in Hl. rewrite (IH r') by lia. reflexivity.
      + rewrite (IH r) by lia. reflexivity. }
  apply (H (length l)). apply Nat.le_refl.
Qed.

Print Assumptions split_at_spec_fact.
Print Assumptions split_at_none_fact.
Print Assumptions query_escape_chars_fact.
Print Assumptions query_escape_no_crlf_sp_fact.
Print Assumptions query_escape_no_delims_fact.
Print Assumptions query_escape_roundtrip_fact.
Print Assumptions query_escape_injective_fact.
Print Assumptions wf_uri_shape_fact.
Print Assumptions wf_request_shape_fact.
Print Assumptions wf_scan_link_fact.
Print Assumptions wf_scan_notfound_fact.
Print Assumptions untag_tag_fact.
Print Assumptions wf_no_at_fact.
Print Assumptions wf_requests_fact.
Print Assumptions wf_first_request_fact.
Print Assumptions wf_cache_keys_fact.
Print Assumptions wf_example.
