(* Facts about the Wrap model (Ansi.wrap_cells): width bound, visible characters are kept,
   newlines between visible characters are kept, a fitting word is never broken.

   Width 0 is special: the test "len(word) == width" is true for the empty word, which throws
   the current line away.  Counterexample (checked with vm_compute), A = 65, B = 66, space = 32:
     wrap_cells 0 [A; ' '; B]            = [[]; []; []; []; [B]]                  (A is lost)
     wrap_cells 0 ([A; ' '; B] ++ NL :: [C]) = [[]; []; []; []; [B]; []; []; [C]]  (A is lost)
   so the "keeps" facts below are false for w = 0.  They hold for every w <> 0 (the *_nz
   versions); the versions with the requested names take the hypothesis 1 <= w. *)
From Servitor Require Import Base Unicode Ansi AnsiSpec.
From Coq Require Import ZifyBool Lia List.
Import ListNotations.
Local Open Scope Z_scope.

(* ------------------------------------------------------------------ clen *)
Lemma clen_app (a b : list cell) : clen (a ++ b) = clen a + clen b.
Proof. unfold clen. rewrite app_length. lia. Qed.
Lemma clen_nil : clen [] = 0.
Proof. reflexivity. Qed.
Lemma clen_one (c : cell) : clen [c] = 1.
Proof. reflexivity. Qed.
Lemma clen_nonneg (l : list cell) : 0 <= clen l.
Proof. unfold clen. lia. Qed.
Lemma clen_zero (l : list cell) : clen l = 0 -> l = [].
Proof.
  intros H. destruct l as [|x l]; [reflexivity|].
  unfold clen in H. cbn [length] in H. lia.
Qed.

Definition winit : wst := mkwst [] [] [] [].

Lemma concat_rev_cons (x : list cell) (r : list (list cell)) :
  concat (rev (x :: r)) = concat (rev r) ++ x.
Proof. cbn [rev]. rewrite concat_app. cbn [concat]. rewrite app_nil_r. reflexivity. Qed.

(* generic fold invariant, indexed by the processed prefix *)
Lemma fold_inv (P : list cell -> wst -> Prop) (w : Z) :
  (forall p s c, P p s -> P (p ++ [c]) (wrap_step w s c)) ->
  forall cs p s, P p s -> P (p ++ cs) (fold_left (wrap_step w) cs s).
Proof.
  intros Hstep cs. induction cs as [|c cs IH]; intros p s H; cbn [fold_left].
  - rewrite app_nil_r. exact H.
  - replace (p ++ c :: cs) with ((p ++ [c]) ++ cs) by (rewrite <- app_assoc; reflexivity).
    apply IH, Hstep, H.
Qed.

(* ------------------------------------------------------------------ 1. width *)
Definition SInv (w : Z) (s : wst) : Prop :=
  Forall (fun l => clen l <= w) (w_res s) /\
  clen (w_line s) <= w /\
  (0 < clen (w_word s) -> clen (w_line s) + clen (w_space s) + clen (w_word s) <= w).

Lemma SInv_init (w : Z) : 1 <= w -> SInv w winit.
Proof.
  intros Hw. unfold SInv, winit. cbn [w_res w_line w_space w_word]. rewrite clen_nil.
  repeat split; try lia. constructor.
Qed.

Lemma SInv_step (w : Z) (s : wst) (c : cell) : 1 <= w -> SInv w s -> SInv w (wrap_step w s c).
Proof.
  intros Hw (Hres & Hline & Hword).
  destruct s as [res line space word]. cbn [w_res w_line w_space w_word] in *.
  pose proof (clen_nonneg line) as Nl. pose proof (clen_nonneg space) as Nsp.
  pose proof (clen_nonneg word) as Nwd.
  unfold wrap_step, SInv. cbn [w_res w_line w_space w_word].
  destruct (negb (is_space (letter c))).
  - destruct (Z.eqb (clen word) w) eqn:E1; cbn [w_res w_line w_space w_word].
    + rewrite !clen_nil.
      destruct (Z.leb w (0 + 0 + 0)) eqn:E2; [lia|]. cbn [w_res w_line w_space w_word].
      rewrite ?clen_app, ?clen_nil, ?clen_one.
      repeat split; try lia. constructor; [lia|exact Hres].
    + destruct (Z.leb w (clen line + clen space + clen word)) eqn:E2;
        cbn [w_res w_line w_space w_word]; rewrite ?clen_app, ?clen_nil, ?clen_one.
      * repeat split; try lia. constructor; [lia|exact Hres].
      * repeat split; try lia. exact Hres.
  - destruct (Z.ltb 0 (clen word)) eqn:E1; cbn [w_res w_line w_space w_word].
    + destruct (N.eqb (letter c) NL); cbn [w_res w_line w_space w_word].
      * destruct (Z.leb (clen (line ++ space ++ word) + clen []) w) eqn:E2;
          rewrite ?clen_app, ?clen_nil, ?clen_one in *;
          (repeat split; try lia); constructor; rewrite ?clen_app, ?clen_nil; try lia; exact Hres.
      * rewrite ?clen_app, ?clen_nil, ?clen_one. repeat split; try lia. exact Hres.
    + destruct (N.eqb (letter c) NL); cbn [w_res w_line w_space w_word].
      * destruct (Z.leb (clen line + clen space) w) eqn:E2;
          rewrite ?clen_app, ?clen_nil, ?clen_one in *;
          (repeat split; try lia); constructor; rewrite ?clen_app, ?clen_nil; try lia; exact Hres.
      * rewrite ?clen_app, ?clen_nil, ?clen_one. repeat split; try lia. exact Hres.
Qed.

Lemma SInv_fold (w : Z) (cs : list cell) (s : wst) :
  1 <= w -> SInv w s -> SInv w (fold_left (wrap_step w) cs s).
Proof.
  intros Hw H.
  apply (fold_inv (fun _ s => SInv w s) w (fun p s c Hs => SInv_step w s c Hw Hs) cs [] s H).
Qed.

Theorem wrap_width_fact : forall (cs : list cell) (w : Z),
  1 <= w -> Forall (fun l => clen l <= w) (wrap_cells w cs).
Proof.
  intros cs w Hw. unfold wrap_cells.
  pose proof (SInv_fold w cs winit Hw (SInv_init w Hw)) as H. fold winit.
  destruct (fold_left (wrap_step w) cs winit) as [res line space word].
  destruct H as (Hres & Hline & Hword). cbn [w_res w_line w_space w_word] in *.
  unfold wrap_finish. cbn [w_res w_line w_space w_word].
  match goal with |- Forall _ (if ?b then _ else _) => destruct b end.
  - apply Forall_rev. constructor; [|exact Hres].
    destruct (Z.ltb 0 (clen word)) eqn:E; [|exact Hline].
    rewrite !clen_app. lia.
  - apply Forall_rev. exact Hres.
Qed.
Print Assumptions wrap_width_fact.

(* ------------------------------------------------------------------ 2. visible characters kept *)
Definition KInv (w : Z) (p : list cell) (s : wst) : Prop :=
  filter nonspace (w_space s) = [] /\
  filter nonspace (concat (rev (w_res s))) ++ filter nonspace (w_line s) ++ filter nonspace (w_word s)
    = filter nonspace p /\
  (clen (w_word s) = w -> filter nonspace (w_line s) = []).

Lemma KInv_init (w : Z) : KInv w [] winit.
Proof. unfold KInv, winit. cbn. repeat split. Qed.

Lemma KInv_step (w : Z) : w <> 0 ->
  forall p s c, KInv w p s -> KInv w (p ++ [c]) (wrap_step w s c).
Proof.
  intros Hw p s c (Hsp & Hsum & HK).
  destruct s as [res line space word]. cbn [w_res w_line w_space w_word] in *.
  pose proof (clen_nonneg line) as Nl. pose proof (clen_nonneg space) as Nsp.
  pose proof (clen_nonneg word) as Nwd.
  unfold wrap_step, KInv. cbn [w_res w_line w_space w_word].
  rewrite filter_app. cbn [filter].
  change (negb (is_space (letter c))) with (nonspace c).
  destruct (nonspace c) eqn:Ec.
  - destruct (Z.eqb (clen word) w) eqn:E1; cbn [w_res w_line w_space w_word].
    + assert (Hl : filter nonspace line = []) by (apply HK; lia).
      rewrite Hl in Hsum. cbn [app] in Hsum.
      rewrite !clen_nil.
      destruct (Z.leb w (0 + 0 + 0)) eqn:E2; cbn [w_res w_line w_space w_word];
        rewrite ?concat_rev_cons, ?filter_app, ?app_nil_r; cbn [filter app];
        rewrite ?app_nil_r, ?Ec; (split; [reflexivity|]); (split; [|intros _; reflexivity]);
        rewrite Hsum; reflexivity.
    + destruct (Z.leb w (clen line + clen space + clen word)) eqn:E2;
        cbn [w_res w_line w_space w_word].
      * rewrite ?concat_rev_cons, ?filter_app. cbn [filter app]. rewrite Ec.
        split; [reflexivity|]. split; [|intros _; reflexivity].
        rewrite <- Hsum, <- !app_assoc. reflexivity.
      * rewrite ?filter_app. cbn [filter app]. rewrite Ec.
        split; [exact Hsp|]. split.
        -- rewrite <- Hsum, <- !app_assoc. reflexivity.
        -- rewrite clen_app, clen_one. intros Hc.
           assert (Hz : clen line = 0) by lia. apply clen_zero in Hz. subst line. reflexivity.
  - destruct (Z.ltb 0 (clen word)) eqn:E1; cbn [w_res w_line w_space w_word].
    + destruct (N.eqb (letter c) NL); cbn [w_res w_line w_space w_word].
      * match goal with |- context [if ?b then _ else _] => destruct b end;
          rewrite ?concat_rev_cons, ?filter_app, ?Hsp; cbn [filter app];
          rewrite ?app_nil_r; (split; [reflexivity|]); (split; [|intros _; reflexivity]);
          rewrite <- Hsum, <- ?app_assoc; reflexivity.
      * rewrite ?filter_app, ?Hsp. cbn [filter app]. rewrite Ec, ?app_nil_r.
        split; [reflexivity|]. split; [|rewrite clen_nil; intros Hc; lia].
        rewrite <- Hsum, <- ?app_assoc. reflexivity.
    + assert (Hz : clen word = 0) by lia. apply clen_zero in Hz. subst word.
      cbn [filter] in Hsum. rewrite app_nil_r in Hsum.
      destruct (N.eqb (letter c) NL); cbn [w_res w_line w_space w_word].
      * match goal with |- context [if ?b then _ else _] => destruct b end;
          rewrite ?concat_rev_cons, ?filter_app, ?Hsp; cbn [filter app];
          rewrite ?app_nil_r; (split; [reflexivity|]); (split; [|intros _; reflexivity]);
          rewrite <- Hsum, <- ?app_assoc; reflexivity.
      * rewrite ?filter_app, ?Hsp. cbn [filter app]. rewrite Ec, ?app_nil_r.
        split; [reflexivity|]. split; [exact Hsum|].
        rewrite clen_nil. intros Hc. lia.
Qed.

Lemma KInv_fold (w : Z) (cs p : list cell) (s : wst) :
  w <> 0 -> KInv w p s -> KInv w (p ++ cs) (fold_left (wrap_step w) cs s).
Proof. intros Hw H. apply (fold_inv (KInv w) w (KInv_step w Hw) cs p s H). Qed.

Lemma KInv_finish (w : Z) (cs p : list cell) (s : wst) :
  KInv w p s -> filter nonspace (concat (wrap_finish cs s)) = filter nonspace p.
Proof.
  intros (Hsp & Hsum & _).
  destruct s as [res line space word]. cbn [w_res w_line w_space w_word] in *.
  pose proof (clen_nonneg line) as Nl. pose proof (clen_nonneg space) as Nsp.
  unfold wrap_finish. cbn [w_res w_line w_space w_word].
  destruct (Z.ltb 0 (clen word)) eqn:E1.
  - rewrite !clen_app.
    destruct (Z.ltb 0 (clen line + (clen space + clen word))) eqn:E2; [|lia].
    cbn [orb]. rewrite concat_rev_cons, !filter_app, Hsp. cbn [app]. exact Hsum.
  - assert (Hz : clen word = 0) by (pose proof (clen_nonneg word); lia).
    apply clen_zero in Hz. subst word. cbn [filter] in Hsum. rewrite app_nil_r in Hsum.
    destruct (Z.ltb 0 (clen line)) eqn:E2; cbn [orb].
    + rewrite concat_rev_cons, !filter_app. exact Hsum.
    + assert (Hz : clen line = 0) by lia. apply clen_zero in Hz. subst line.
      cbn [filter] in Hsum. rewrite app_nil_r in Hsum.
      match goal with |- context [if ?b then _ else _] => destruct b end.
      * rewrite concat_rev_cons, app_nil_r. exact Hsum.
      * exact Hsum.
Qed.

Theorem wrap_keeps_nonspace_nz_fact : forall (cs : list cell) (w : Z),
  w <> 0 -> filter nonspace (concat (wrap_cells w cs)) = filter nonspace cs.
Proof.
  intros cs w Hw. unfold wrap_cells. fold winit.
  apply (KInv_finish w cs cs). apply (KInv_fold w cs [] winit Hw (KInv_init w)).
Qed.
Print Assumptions wrap_keeps_nonspace_nz_fact.

(* false for w = 0, see the head of the file *)
Theorem wrap_keeps_nonspace_fact : forall (cs : list cell) (w : Z),
  1 <= w -> filter nonspace (concat (wrap_cells w cs)) = filter nonspace cs.
Proof. intros cs w Hw. apply wrap_keeps_nonspace_nz_fact. lia. Qed.
Print Assumptions wrap_keeps_nonspace_fact.

(* ------------------------------------------------------------------ 3. newlines kept *)
Definition shift (r0 : list (list cell)) (s : wst) : wst :=
  mkwst (w_res s ++ r0) (w_line s) (w_space s) (w_word s).

Lemma step_shift (w : Z) (r0 : list (list cell)) (s : wst) (c : cell) :
  wrap_step w (shift r0 s) c = shift r0 (wrap_step w s c).
Proof.
  destruct s as [res line space word]. unfold wrap_step, shift.
  cbn [w_res w_line w_space w_word].
  destruct (negb (is_space (letter c))).
  - destruct (Z.eqb (clen word) w); cbn [w_res w_line w_space w_word];
      match goal with |- context [if ?b then _ else _] => destruct b end; reflexivity.
  - destruct (Z.ltb 0 (clen word)); cbn [w_res w_line w_space w_word];
      destruct (N.eqb (letter c) NL); cbn [w_res w_line w_space w_word];
      try reflexivity;
      match goal with |- context [if ?b then _ else _] => destruct b end; reflexivity.
Qed.

Lemma fold_shift (w : Z) (r0 : list (list cell)) (cs : list cell) : forall s,
  fold_left (wrap_step w) cs (shift r0 s) = shift r0 (fold_left (wrap_step w) cs s).
Proof.
  induction cs as [|c cs IH]; intros s; cbn [fold_left]; [reflexivity|].
  rewrite step_shift. apply IH.
Qed.

Lemma finish_shift (cs : list cell) (r0 : list (list cell)) (s : wst) :
  wrap_finish cs (shift r0 s) = rev r0 ++ wrap_finish cs s.
Proof.
  destruct s as [res line space word]. unfold wrap_finish, shift.
  cbn [w_res w_line w_space w_word].
  match goal with |- context [if ?b then rev _ else _] => destruct b end.
  - cbn [rev]. rewrite rev_app_distr. symmetry. apply app_assoc.
  - apply rev_app_distr.
Qed.

Lemma finish_ext (cs cs' : list cell) (s : wst) :
  last (map Some cs) None = last (map Some cs') None -> wrap_finish cs s = wrap_finish cs' s.
Proof. intros H. unfold wrap_finish. rewrite H. reflexivity. Qed.

Lemma last_app_ne (A : Type) (a b : list A) (d : A) : b <> [] -> last (a ++ b) d = last b d.
Proof.
  intros Hb. induction a as [|x a IH]; [reflexivity|].
  cbn [app]. cbn [last]. rewrite IH.
  destruct (a ++ b) eqn:E; [|reflexivity].
  apply app_eq_nil in E. destruct E as [_ E]. contradiction.
Qed.

Lemma nl_is_space (nl : cell) : is_nl_cell nl = true -> is_space (letter nl) = true.
Proof. unfold is_nl_cell. intros H. apply N.eqb_eq in H. rewrite H. reflexivity. Qed.

Lemma nl_step_shape (w : Z) (s : wst) (nl : cell) :
  is_nl_cell nl = true -> exists x r, wrap_step w s nl = mkwst (x :: r) [] [] [].
Proof.
  intros Hnl. unfold wrap_step. rewrite (nl_is_space nl Hnl). cbn [negb].
  unfold is_nl_cell in Hnl. rewrite Hnl. eexists. eexists. reflexivity.
Qed.

Theorem wrap_keeps_breaks_nz_fact : forall (w : Z) (a : list cell) (nl : cell) (b : list cell),
  w <> 0 -> is_nl_cell nl = true -> b <> [] ->
  exists la, la <> [] /\ wrap_cells w (a ++ nl :: b) = la ++ wrap_cells w b /\
             filter nonspace (concat la) = filter nonspace a.
Proof.
  intros w a nl b Hw Hnl Hb.
  unfold wrap_cells. fold winit. rewrite fold_left_app. cbn [fold_left].
  pose proof (KInv_fold w a [] winit Hw (KInv_init w)) as HK. cbn [app] in HK.
  apply (KInv_step w Hw _ _ nl) in HK.
  destruct (nl_step_shape w (fold_left (wrap_step w) a winit) nl Hnl) as (x & r & Hshape).
  rewrite Hshape in *.
  exists (rev (x :: r)). split; [|split].
  - cbn [rev]. intros H. apply app_eq_nil in H. destruct H as [_ H]. discriminate H.
  - change (mkwst (x :: r) [] [] []) with (shift (x :: r) winit).
    rewrite fold_shift, finish_shift. f_equal. apply finish_ext.
    rewrite !map_app. cbn [map]. rewrite last_app_ne.
    + change (Some nl :: map Some b) with ([Some nl] ++ map Some b).
      apply last_app_ne. destruct b; [contradiction|discriminate].
    + discriminate.
  - destruct HK as (_ & Hsum & _). cbn [w_res w_line w_space w_word] in Hsum.
    cbn [filter] in Hsum. rewrite !app_nil_r in Hsum. rewrite Hsum.
    rewrite filter_app. cbn [filter]. unfold nonspace at 2.
    rewrite (nl_is_space nl Hnl). cbn [negb]. apply app_nil_r.
Qed.
Print Assumptions wrap_keeps_breaks_nz_fact.

(* The statement without a hypothesis on w is false for w = 0 (head of the file): the part
   [filter nonspace (concat la) = filter nonspace a] fails.  Hence the hypothesis 1 <= w. *)
Theorem wrap_keeps_breaks_fact : forall (w : Z) (a : list cell) (nl : cell) (b : list cell),
  1 <= w -> is_nl_cell nl = true -> b <> [] ->
  exists la, la <> [] /\ wrap_cells w (a ++ nl :: b) = la ++ wrap_cells w b /\
             filter nonspace (concat la) = filter nonspace a.
Proof. intros w a nl b Hw. apply wrap_keeps_breaks_nz_fact. lia. Qed.
Print Assumptions wrap_keeps_breaks_fact.

(* ------------------------------------------------------------------ 4. a fitting word is intact *)
(* "some finished or current line starts with L" *)
Definition Jp (L : list cell) (res : list (list cell)) (line : list cell) : Prop :=
  (exists l2, line = L ++ l2) \/ (exists r1 l2 r2, res = r1 ++ (L ++ l2) :: r2).

Lemma Jp_ext (L : list cell) (res : list (list cell)) (line x : list cell) :
  Jp L res line -> Jp L res (line ++ x).
Proof.
  intros [(l2 & H) | H]; [left | right; exact H].
  exists (l2 ++ x). rewrite H. symmetry. apply app_assoc.
Qed.

Lemma Jp_push (L : list cell) (res : list (list cell)) (line l' : list cell) :
  Jp L res line -> Jp L (line :: res) l'.
Proof.
  intros [(l2 & H) | (r1 & l2 & r2 & H)]; right.
  - exists [], l2, res. rewrite H. reflexivity.
  - exists (line :: r1), l2, r2. rewrite H. reflexivity.
Qed.

Lemma Jp_nil (L : list cell) (res : list (list cell)) (y l' : list cell) :
  L <> [] -> Jp L res [] -> Jp L (y :: res) l'.
Proof.
  intros HL [(l2 & H) | (r1 & l2 & r2 & H)].
  - symmetry in H. apply app_eq_nil in H. destruct H as [H _]. contradiction.
  - right. exists (y :: r1), l2, r2. rewrite H. reflexivity.
Qed.

Definition J (L : list cell) (s : wst) : Prop := Jp L (w_res s) (w_line s).

Lemma J_step (w : Z) (L : list cell) (s : wst) (c : cell) :
  1 <= w -> L <> [] -> SInv w s -> J L s -> J L (wrap_step w s c).
Proof.
  intros Hw HL (_ & _ & Hword) HJ. unfold J in *.
  destruct s as [res line space word]. cbn [w_res w_line w_space w_word] in *.
  pose proof (clen_nonneg line) as Nl. pose proof (clen_nonneg space) as Nsp.
  pose proof (clen_nonneg word) as Nwd.
  unfold wrap_step. cbn [w_res w_line w_space w_word].
  destruct (negb (is_space (letter c))).
  - destruct (Z.eqb (clen word) w) eqn:E1; cbn [w_res w_line w_space w_word].
    + assert (Hz : clen line = 0) by lia. apply clen_zero in Hz. subst line.
      rewrite !clen_nil.
      destruct (Z.leb w (0 + 0 + 0)) eqn:E2; [lia|]. cbn [w_res w_line w_space w_word].
      apply Jp_nil; assumption.
    + destruct (Z.leb w (clen line + clen space + clen word)) eqn:E2;
        cbn [w_res w_line w_space w_word].
      * apply Jp_push. exact HJ.
      * exact HJ.
  - destruct (Z.ltb 0 (clen word)) eqn:E1; cbn [w_res w_line w_space w_word].
    + destruct (N.eqb (letter c) NL); cbn [w_res w_line w_space w_word].
      * match goal with |- context [if ?b then _ else _] => destruct b end;
          apply Jp_push; repeat apply Jp_ext; exact HJ.
      * apply Jp_ext. exact HJ.
    + destruct (N.eqb (letter c) NL); cbn [w_res w_line w_space w_word].
      * match goal with |- context [if ?b then _ else _] => destruct b end;
          apply Jp_push; repeat apply Jp_ext; exact HJ.
      * exact HJ.
Qed.

Lemma J_fold (w : Z) (L : list cell) (cs : list cell) : 1 <= w -> L <> [] ->
  forall s, SInv w s -> J L s -> J L (fold_left (wrap_step w) cs s).
Proof.
  intros Hw HL. induction cs as [|c cs IH]; intros s HS HJ; cbn [fold_left]; [exact HJ|].
  apply IH; [apply SInv_step; assumption | apply J_step; assumption].
Qed.

Lemma J_finish (L : list cell) (cs : list cell) (s : wst) :
  L <> [] -> J L s -> exists before l2 after, wrap_finish cs s = before ++ (L ++ l2) :: after.
Proof.
  intros HL HJ. unfold J in HJ.
  destruct s as [res line space word]. cbn [w_res w_line w_space w_word] in *.
  unfold wrap_finish. cbn [w_res w_line w_space w_word].
  set (lf := if Z.ltb 0 (clen word) then line ++ space ++ word else line).
  assert (Hlf : Jp L res lf).
  { subst lf. destruct (Z.ltb 0 (clen word)); [apply Jp_ext|]; exact HJ. }
  clearbody lf.
  assert (Hrev : forall R, Jp L R [] ->
            exists before l2 after, rev R = before ++ (L ++ l2) :: after).
  { intros R [(l2 & H) | (r1 & l2 & r2 & H)].
    - symmetry in H. apply app_eq_nil in H. destruct H as [H _]. contradiction.
    - exists (rev r2), l2, (rev r1). rewrite H, rev_app_distr. cbn [rev].
      rewrite <- app_assoc. reflexivity. }
  destruct (Z.ltb 0 (clen lf)) eqn:E; cbn [orb].
  - apply Hrev. apply Jp_push. exact Hlf.
  - assert (Hz : clen lf = 0) by (pose proof (clen_nonneg lf); lia).
    apply clen_zero in Hz. subst lf.
    match goal with |- context [if ?b then _ else _] => destruct b end.
    + apply Hrev. apply Jp_push. exact Hlf.
    + apply Hrev. exact Hlf.
Qed.

(* after a space cell the pending word is empty *)
Lemma space_step_word (w : Z) (s : wst) (c : cell) :
  nonspace c = false -> w_word (wrap_step w s c) = [].
Proof.
  intros Hc. unfold nonspace in Hc. unfold wrap_step. rewrite Hc.
  destruct (N.eqb (letter c) NL); cbn [w_word]; [reflexivity|].
  destruct (Z.ltb 0 (clen (w_word s))) eqn:E; cbn [w_word]; [reflexivity|].
  apply clen_zero. pose proof (clen_nonneg (w_word s)). lia.
Qed.

(* a run of visible cells that fits accumulates in the pending word *)
Lemma word_fold (w : Z) (word : list cell) : forall (s : wst),
  forallb nonspace word = true -> clen (w_word s) + clen word <= w ->
  w_word (fold_left (wrap_step w) word s) = w_word s ++ word.
Proof.
  induction word as [|c word IH]; intros s Hns Hlen; cbn [fold_left].
  - rewrite app_nil_r. reflexivity.
  - cbn [forallb] in Hns. apply andb_true_iff in Hns. destruct Hns as [Hc Hns].
    change (c :: word) with ([c] ++ word) in Hlen. rewrite clen_app, clen_one in Hlen.
    pose proof (clen_nonneg word) as Nwd.
    assert (Hstep : w_word (wrap_step w s c) = w_word s ++ [c]).
    { unfold nonspace in Hc. unfold wrap_step. rewrite Hc.
      destruct (Z.eqb (clen (w_word s)) w) eqn:E1; [lia|].
      match goal with |- context [if ?b then _ else _] => destruct b end; reflexivity. }
    rewrite IH; [|exact Hns|rewrite Hstep, clen_app, clen_one; lia].
    rewrite Hstep, <- app_assoc. reflexivity.
Qed.

(* the space cell right after a word closes it: the line now starts with line ++ space ++ word *)
Lemma space_after_word (w : Z) (s : wst) (c : cell) :
  nonspace c = false -> 0 < clen (w_word s) ->
  J ((w_line s ++ w_space s) ++ w_word s) (wrap_step w s c).
Proof.
  intros Hc Hpos. unfold nonspace in Hc. unfold J, wrap_step. rewrite Hc.
  destruct s as [res line space word]. cbn [w_res w_line w_space w_word] in *.
  destruct (Z.ltb 0 (clen word)) eqn:E; [|lia]. cbn [w_res w_line w_space w_word].
  destruct (N.eqb (letter c) NL); cbn [w_res w_line w_space w_word].
  - right. exists [], [], res. cbn [app].
    match goal with |- context [if ?b then _ else _] => destruct b end;
      rewrite ?app_nil_r, app_assoc; reflexivity.
  - left. exists []. rewrite app_nil_r, app_assoc. reflexivity.
Qed.

Theorem wrap_word_intact_fact : forall (w : Z) (a word b : list cell),
  1 <= w -> word <> [] -> forallb nonspace word = true -> clen word <= w ->
  (a = [] \/ exists a' s, a = a' ++ [s] /\ nonspace s = false) ->
  (b = [] \/ exists s b', b = s :: b' /\ nonspace s = false) ->
  exists before l1 l2 after, wrap_cells w (a ++ word ++ b) = before ++ (l1 ++ word ++ l2) :: after.
Proof.
  intros w a word b Hw Hne Hns Hlen Ha Hb.
  unfold wrap_cells. fold winit. rewrite !fold_left_app.
  set (sa := fold_left (wrap_step w) a winit).
  assert (Hsa : w_word sa = []).
  { subst sa. destruct Ha as [Ha | (a' & s & Ha & Hs)]; rewrite Ha; [reflexivity|].
    rewrite fold_left_app. cbn [fold_left]. apply space_step_word. exact Hs. }
  assert (HSa : SInv w sa) by (apply SInv_fold; [exact Hw | apply SInv_init; exact Hw]).
  set (sw := fold_left (wrap_step w) word sa).
  assert (Hsw : w_word sw = word).
  { subst sw. rewrite word_fold; [rewrite Hsa; reflexivity | exact Hns |].
    rewrite Hsa, clen_nil. lia. }
  assert (HSw : SInv w sw) by (apply SInv_fold; assumption).
  assert (Hpos : 0 < clen word).
  { destruct word as [|x word']; [contradiction|]. unfold clen. cbn [length]. lia. }
  clearbody sw. clear sa Hsa HSa.
  destruct Hb as [Hb | (s & b' & Hb & Hs)]; rewrite Hb; cbn [fold_left].
  - destruct sw as [res line space wd]. cbn [w_word] in Hsw. subst wd.
    unfold wrap_finish. cbn [w_res w_line w_space w_word].
    destruct (Z.ltb 0 (clen word)) eqn:E; [|lia].
    rewrite !clen_app.
    pose proof (clen_nonneg line) as Nl. pose proof (clen_nonneg space) as Nsp.
    destruct (Z.ltb 0 (clen line + (clen space + clen word))) eqn:E2; [|lia].
    cbn [orb rev].
    exists (rev res), (line ++ space), [], []. rewrite app_nil_r, <- app_assoc. reflexivity.
  - pose proof (space_after_word w sw s Hs) as HJ. rewrite Hsw in HJ. specialize (HJ Hpos).
    set (L := (w_line sw ++ w_space sw) ++ word) in *.
    assert (HL : L <> []).
    { subst L. intros H. apply app_eq_nil in H. destruct H as [_ H]. contradiction. }
    pose proof (J_fold w L b' Hw HL _ (SInv_step w sw s Hw HSw) HJ) as HJ'.
    destruct (J_finish L (a ++ word ++ s :: b') _ HL HJ') as (before & l2 & after & Hfin).
    exists before, (w_line sw ++ w_space sw), l2, after.
    rewrite Hfin. subst L. rewrite <- app_assoc. reflexivity.
Qed.
Print Assumptions wrap_word_intact_fact.
