(* Composition of the item model (Pub.v) with the UI model (Ui.v): when the items shown by the UI are
   pub's posts, profiles, activities and error items, and their stored fields are good (they come
   from the sanitising accessors, from the markup renderers and from Name() of related items),
   every frame of every history is good - terminal-safe and attribute-neutral - and as tall as
   the terminal.  The UI model is generic in the item type; this file instantiates it. *)
From Servitor Require Import Base Unicode Ansi AnsiSpec Term Oracles Style HtmlTags Html Mime Pub History Feed Ui.
From Servitor.Facts Require Import AnsiFacts WrapFacts CenterFacts TermFacts OracleFacts StyleFacts HtmlFacts MarkupFacts PubFacts UiFacts FrameFacts.
From Coq Require Import List NArith ZArith Lia Bool.
Import ListNotations.
Local Open Scope Z_scope.

Inductive item := IPost (p : post) | IActor (a : actor) | IActivity (v : activity) | IFailure (msg : text).

Definition item_good (i : item) : Prop :=
  match i with
  | IPost p => post_good p
  | IActor a => actor_good a
  | IActivity v => activity_good v
  | IFailure _ => True
  end.

Section Compose.
Variable col : colors.

Definition res_text (r : res text) : text := match r with Ok t => t | Panic => [] end.

(* Tangible.String / Preview of the four kinds of item *)
Definition item_full (i : item) (w : Z) : text :=
  match i with
  | IPost p => post_string col p w
  | IActor a => actor_string col a w
  | IActivity v => res_text (activity_string col v w)
  | IFailure m => failure_string col m w
  end.
Definition item_preview (i : item) (w : Z) : text :=
  match i with
  | IPost p => res_text (post_preview col p w)
  | IActor a => res_text (actor_preview col a w)
  | IActivity v => res_text (activity_preview col v w)
  | IFailure m => failure_string col m w
  end.

Lemma item_full_good : forall i w, colors_ok col -> item_good i -> good (item_full i w).
Proof.
  intros [p|a|v|m] w Hc Hg; cbn [item_full item_good] in *.
  - apply post_string_good_fact; assumption.
  - apply actor_string_good_fact; assumption.
  - destruct (activity_string_good_fact col v w Hc Hg) as (r & E & G). rewrite E. exact G.
  - apply (failure_good_fact col m w Hc).
Qed.

Lemma item_preview_good : forall i w, colors_ok col -> item_good i -> good (item_preview i w).
Proof.
  intros [p|a|v|m] w Hc Hg; cbn [item_preview item_good] in *.
  - destruct (post_preview_good_fact col p w Hc Hg) as (r & E & G). rewrite E. exact G.
  - destruct (actor_preview_good_fact col a w Hc Hg) as (r & E & G). rewrite E. exact G.
  - destruct (activity_preview_good_fact col v w Hc Hg) as (r & E & G). rewrite E. exact G.
  - apply (failure_good_fact col m w Hc).
Qed.

(* the texts the model shows are the ones pub computes: no Panic is hidden by res_text *)
Lemma item_texts_total : forall i w, colors_ok col -> item_good i ->
  match i with
  | IPost p => exists t, post_preview col p w = Ok t
  | IActor a => exists t, actor_preview col a w = Ok t
  | IActivity v => (exists t, activity_string col v w = Ok t) /\ (exists t, activity_preview col v w = Ok t)
  | IFailure _ => True
  end.
Proof.
  intros [p|a|v|m] w Hc Hg; cbn [item_good] in Hg.
  - destruct (post_preview_good_fact col p w Hc Hg) as (r & E & _). exists r. exact E.
  - destruct (actor_preview_good_fact col a w Hc Hg) as (r & E & _). exists r. exact E.
  - destruct (activity_string_good_fact col v w Hc Hg) as (r & E & _).
    destruct (activity_preview_good_fact col v w Hc Hg) as (r' & E' & _). split; [exists r|exists r']; assumption.
  - exact I.
Qed.
End Compose.

(* the items of a world: pub items whose stored fields are good *)
Definition gitem := {i : item | item_good i}.
Definition gfull (col : colors) (g : gitem) (w : Z) : text := item_full col (proj1_sig g) w.
Definition gpreview (col : colors) (g : gitem) (w : Z) : text := item_preview col (proj1_sig g) w.

(* EVERY frame of EVERY history over pub's items: computed, as tall as the terminal, good, safe, neutral.
   The world (which items exist, their parents, replies, links, authors ...) is arbitrary; only the
   items' stored fields are constrained, by item_good. *)
Theorem pub_frames_good_fact :
  forall (C : Type) (preload : Z) (parents : gitem -> nat -> list gitem * option gitem)
    (children : gitem -> option C) (harvest : C -> nat -> nat -> list gitem * option C * nat)
    (select_link : gitem -> Z -> option text) (creators recipients : gitem -> option (list gitem))
    (actor_of : gitem -> option gitem) (media pfp banner : gitem -> option text)
    (open_link open_user : text -> opened gitem C) (feed_named : text -> option C)
    (hook_fails : text -> option text) (msg_unknown_feed msg_bad_command : text -> text)
    (col : colors) (s0 s : ui gitem C) (sh : shown gitem C),
  ui_inv gitem C s0 -> frames_inv gitem C s0 ->
  reachable_from gitem C preload parents children harvest select_link creators recipients actor_of
    media pfp banner open_link open_user feed_named hook_fails msg_unknown_feed msg_bad_command s0 s ->
  In sh (u_frames gitem C s) -> colors_ok col -> 0 <= u_width gitem C (ui_of_shown gitem C sh) ->
  exists t, view gitem C preload col (gfull col) (gpreview col) (ui_of_shown gitem C sh) = Ok t /\ good t /\
            safe_b t = true /\ neutral_b t = true /\
            (2 <= u_height gitem C (ui_of_shown gitem C sh) -> height t = u_height gitem C (ui_of_shown gitem C sh)).
Proof.
  intros C preload parents children harvest select_link creators recipients actor_of media pfp banner
         open_link open_user feed_named hook_fails msg_unknown_feed msg_bad_command col s0 s sh
         H0 F0 R Hin Hc Hw.
  destruct (every_frame_good_fact gitem C preload parents children harvest select_link creators recipients actor_of
              media pfp banner open_link open_user feed_named hook_fails msg_unknown_feed msg_bad_command
              col (gfull col) (gpreview col) s0 s sh H0 F0 R Hin Hc Hw
              (fun g w => item_full_good col (proj1_sig g) w Hc (proj2_sig g))
              (fun g w => item_preview_good col (proj1_sig g) w Hc (proj2_sig g))) as (t & E & G & Hh).
  exists t. split; [exact E|]. split; [exact G|]. split; [apply good_safe, G|]. split; [apply good_neutral, G|exact Hh].
Qed.

(* non-vacuity: there are good items of every kind *)
Example gitem_inhabited : exists g1 g2 : gitem, (exists p, proj1_sig g1 = IPost p) /\ (exists m, proj1_sig g2 = IFailure m).
Proof.
  destruct post_good_example as (p & Hp & _).
  exists (exist _ (IPost p) Hp), (exist _ (IFailure []) I). split; [exists p|exists []]; reflexivity.
Qed.
Print Assumptions pub_frames_good_fact.
