(* Machine-checked facts about the Ansi model: tiling, indent/pad/dumb-wrap shapes, snip. *)
From Servitor Require Import Base Unicode Ansi AnsiSpec.
From Coq Require Import ZifyBool.
Local Open Scope Z_scope.

(* ------------------------------------------------------------------ 1. expand tiles the text *)
Lemma split_m_app : forall l a b, split_m l = Some (a, b) -> l = a ++ b.
Proof.
  induction l as [|c l IH]; intros a b H; cbn [split_m] in H.
  - discriminate.
  - destruct (N.eqb c CH_m) eqn:E.
    + inversion H; subst. reflexivity.
    + destruct (split_m l) as [[a' b']|] eqn:E2; [|discriminate].
      inversion H; subst. cbn [app]. f_equal. apply IH. reflexivity.
Qed.

Lemma take_groups_app : forall fuel l p r, take_groups fuel l = (p, r) ->
  l = p ++ r /\ (l <> [] -> r <> []) /\ (length r <= length l)%nat.
Proof.
  induction fuel as [|f IH]; intros l p r H; cbn [take_groups] in H.
  - inversion H; subst. cbn [app]. auto.
  - assert (Triv : ([] : text, l) = (p, r) -> l = p ++ r /\ (l <> [] -> r <> []) /\ (length r <= length l)%nat).
    { intros H0. inversion H0; subst. cbn [app]. auto. }
    destruct l as [|a [|b l']]; try (apply Triv; exact H).
    destruct (N.eqb a ESC && N.eqb b LBR); [|apply Triv; exact H].
    destruct (split_m l') as [[body rest]|] eqn:Es; [|apply Triv; exact H].
    destruct rest as [|r0 rest]; [apply Triv; exact H|].
    destruct (take_groups f (r0 :: rest)) as [p' r'] eqn:Et.
    inversion H; subst. clear H Triv.
    apply IH in Et. destruct Et as (E1 & E2 & E3).
    apply split_m_app in Es. subst l'. rewrite E1.
    split; [|split].
    + cbn [app]. rewrite <- app_assoc. reflexivity.
    + intros _. apply E2. discriminate.
    + rewrite <- E1. cbn [length]. rewrite app_length. lia.
Qed.

(* any fuel >= length l gives the same groups: every recursive call is on a strictly shorter rest *)
Lemma split_m_length : forall l a b, split_m l = Some (a, b) -> (length b < length l)%nat.
Proof.
  induction l as [|c l IH]; intros a b H; cbn [split_m] in H.
  - discriminate.
  - destruct (N.eqb c CH_m) eqn:E.
    + inversion H; subst. cbn [length]. lia.
    + destruct (split_m l) as [[a' b']|] eqn:E2; [|discriminate].
      inversion H; subst. cbn [length]. specialize (IH _ _ eq_refl). lia.
Qed.

Lemma take_groups_fuel : forall f1 f2 l, (length l <= f1)%nat -> (length l <= f2)%nat ->
  take_groups f1 l = take_groups f2 l.
Proof.
  induction f1 as [|f1 IH]; intros f2 l H1 H2.
  - destruct l; [|cbn [length] in H1; lia]. destruct f2; reflexivity.
  - destruct f2 as [|f2]; [destruct l; [reflexivity|cbn [length] in H2; lia]|].
    cbn [take_groups].
    destruct l as [|a [|b l']]; try reflexivity.
    destruct (N.eqb a ESC && N.eqb b LBR); [|reflexivity].
    destruct (split_m l') as [[body rest]|] eqn:Es; [|reflexivity].
    destruct rest as [|r0 rest]; [reflexivity|].
    apply split_m_length in Es. cbn [length] in *.
    rewrite (IH f2 (r0 :: rest)) by (cbn [length]; lia). reflexivity.
Qed.

Lemma strip_reset_app : forall l b r, strip_reset l = (b, r) ->
  l = (if b then reset_seq else []) ++ r.
Proof.
  intros l b r H. unfold strip_reset in H.
  assert (Triv : (false, l) = (b, r) -> l = (if b then reset_seq else []) ++ r).
  { intros H0. inversion H0; subst. reflexivity. }
  destruct l as [|a [|b0 [|c [|d l']]]]; try (apply Triv; exact H).
  destruct (N.eqb a ESC && N.eqb b0 LBR && N.eqb c CH_0 && N.eqb d CH_m) eqn:E; [|apply Triv; exact H].
  inversion H; subst.
  apply andb_true_iff in E as [E E4]. apply andb_true_iff in E as [E E3].
  apply andb_true_iff in E as [E1 E2].
  apply N.eqb_eq in E1, E2, E3, E4. subst. reflexivity.
Qed.

Lemma collapse_app : forall a b, collapse (a ++ b) = collapse a ++ collapse b.
Proof. intros a b. unfold collapse. apply flat_map_app. Qed.

Lemma collapse_cons : forall c cs, collapse (c :: cs) = full c ++ collapse cs.
Proof. reflexivity. Qed.

Lemma expand_fuel_tiles : forall fuel l, (length l <= fuel)%nat -> collapse (expand_fuel fuel l) = l.
Proof.
  induction fuel as [|f IH]; intros l Hl.
  - destruct l; [reflexivity|cbn [length] in Hl; lia].
  - cbn [expand_fuel]. destruct l as [|a l0]; [reflexivity|].
    remember (a :: l0) as l eqn:El.
    destruct (take_groups (S f) l) as [p r] eqn:Et.
    apply take_groups_app in Et. destruct Et as (E1 & E2 & E3).
    destruct r as [|c r']; [exfalso; apply E2; [subst l; discriminate|reflexivity]|].
    destruct (strip_reset r') as [rs r''] eqn:Es.
    apply strip_reset_app in Es.
    rewrite collapse_cons. unfold full. cbn [pre letter rst].
    rewrite IH.
    + rewrite E1, Es. rewrite <- !app_assoc. reflexivity.
    + cbn [length] in E3. assert (length r'' <= length r')%nat by (rewrite Es, app_length; lia). lia.
Qed.

Lemma strip_reset_length : forall l b r, strip_reset l = (b, r) -> (length r <= length l)%nat.
Proof.
  intros l b r H. apply strip_reset_app in H. subst l. rewrite app_length. lia.
Qed.

Lemma expand_fuel_irrelevant : forall f1 f2 l, (length l <= f1)%nat -> (length l <= f2)%nat ->
  expand_fuel f1 l = expand_fuel f2 l.
Proof.
  induction f1 as [|f1 IH]; intros f2 l H1 H2.
  - destruct l; [|cbn [length] in H1; lia]. destruct f2; reflexivity.
  - destruct f2 as [|f2]; [destruct l; [reflexivity|cbn [length] in H2; lia]|].
    cbn [expand_fuel]. destruct l as [|a l0]; [reflexivity|].
    remember (a :: l0) as l eqn:El.
    rewrite (take_groups_fuel (S f1) (S f2) l H1 H2).
    destruct (take_groups (S f2) l) as [p r] eqn:Et.
    apply take_groups_app in Et. destruct Et as (_ & _ & E3).
    destruct r as [|c r']; [reflexivity|].
    destruct (strip_reset r') as [rs r''] eqn:Es.
    apply strip_reset_length in Es.
    assert (Hl : (1 <= length l)%nat) by (subst l; cbn [length]; lia).
    cbn [length] in E3.
    rewrite (IH f2 r'') by lia. reflexivity.
Qed.

Theorem expand_tiles_fact : forall t : text, collapse (expand t) = t.
Proof. intros t. unfold expand. apply expand_fuel_tiles. lia. Qed.
Print Assumptions expand_tiles_fact.

(* ------------------------------------------------------------------ cell_lines / join_with toolkit *)
Lemma cell_lines_aux_nonempty : forall cs cur, cell_lines_aux cur cs <> [].
Proof.
  induction cs as [|c cs IH]; intros cur; cbn [cell_lines_aux].
  - discriminate.
  - destruct (is_nl_cell c); [discriminate|apply IH].
Qed.

Lemma cell_lines_nonempty : forall cs, cell_lines cs <> [].
Proof. intros cs. apply cell_lines_aux_nonempty. Qed.

Lemma cell_lines_aux_shift : forall cs cur,
  cell_lines_aux cur cs =
  match cell_lines cs with
  | [] => []
  | l :: rest => (rev cur ++ l) :: rest
  end.
Proof.
  unfold cell_lines.
  induction cs as [|c cs IH]; intros cur; cbn [cell_lines_aux].
  - cbn [rev]. rewrite app_nil_r. reflexivity.
  - destruct (is_nl_cell c).
    + cbn [rev]. rewrite app_nil_r. reflexivity.
    + rewrite (IH (c :: cur)), (IH [c]).
      destruct (cell_lines_aux [] cs) as [|l rest]; [reflexivity|].
      cbn [rev app]. rewrite <- app_assoc. reflexivity.
Qed.

Lemma cell_lines_nil : cell_lines [] = [[]].
Proof. reflexivity. Qed.

Lemma cell_lines_cons : forall c cs,
  cell_lines (c :: cs) =
  if is_nl_cell c then [] :: cell_lines cs
  else match cell_lines cs with
       | [] => []
       | l :: rest => (c :: l) :: rest
       end.
Proof.
  intros c cs. unfold cell_lines at 1. cbn [cell_lines_aux].
  destruct (is_nl_cell c); [reflexivity|].
  rewrite cell_lines_aux_shift. reflexivity.
Qed.

Lemma join_with_cons : forall sep l rest,
  join_with sep (l :: rest) = l ++ flat_map (fun x => sep ++ x) rest.
Proof.
  intros sep l rest. revert l.
  induction rest as [|l2 rest IH]; intros l.
  - cbn [join_with flat_map]. rewrite app_nil_r. reflexivity.
  - cbn [flat_map]. change (join_with sep (l :: l2 :: rest)) with (l ++ sep ++ join_with sep (l2 :: rest)).
    rewrite (IH l2), <- app_assoc. reflexivity.
Qed.

Lemma flat_map_map : forall (A B C : Type) (f : A -> B) (g : B -> list C) (l : list A),
  flat_map g (map f l) = flat_map (fun x => g (f x)) l.
Proof.
  intros A B C f g l. induction l as [|x l IH]; [reflexivity|].
  cbn [map flat_map]. rewrite IH. reflexivity.
Qed.

(* ------------------------------------------------------------------ 2. Indent *)
Theorem indent_shape_fact : forall (prefix : text) (cs : list cell),
  indent_cells prefix cs = join_with (NL :: prefix) (map collapse (cell_lines cs)).
Proof.
  intros prefix. induction cs as [|c cs IH].
  - reflexivity.
  - unfold indent_cells in *. cbn [flat_map]. rewrite IH. rewrite cell_lines_cons.
    unfold is_nl_cell.
    pose proof (cell_lines_nonempty cs) as Hne.
    destruct (cell_lines cs) as [|l rest]; [congruence|].
    destruct (N.eqb (letter c) NL).
    + cbn [map]. rewrite !join_with_cons. cbn [flat_map app].
      rewrite <- app_assoc. reflexivity.
    + cbn [map]. rewrite !join_with_cons. rewrite collapse_cons, <- app_assoc. reflexivity.
Qed.
Print Assumptions indent_shape_fact.

(* ------------------------------------------------------------------ 3. Pad *)
Lemma spaces_0 : spaces 0 = [].
Proof. reflexivity. Qed.

Lemma clen_cons : forall (c : cell) l, clen (c :: l) = clen l + 1.
Proof. intros c l. unfold clen. cbn [length]. lia. Qed.

Lemma clen_nil : clen [] = 0.
Proof. reflexivity. Qed.

Lemma pad_cells_gen : forall (len : Z) (cs : list cell) (k : Z),
  pad_cells len cs k =
  match cell_lines cs with
  | [] => []
  | l :: rest =>
      (collapse l ++ spaces (Z.max 0 (len - k - clen l))) ++
      flat_map (fun x => [NL] ++ (collapse x ++ spaces (Z.max 0 (len - clen x)))) rest
  end.
Proof.
  intros len. induction cs as [|c cs IH]; intros k.
  - cbn [pad_cells]. rewrite cell_lines_nil. cbn [flat_map collapse app]. rewrite clen_nil, app_nil_r.
    destruct (Z.ltb 0 (len - k)) eqn:E.
    + f_equal. lia.
    + replace (Z.max 0 (len - k - 0)) with 0 by lia. reflexivity.
  - cbn [pad_cells]. rewrite cell_lines_cons. unfold is_nl_cell.
    pose proof (cell_lines_nonempty cs) as Hne.
    destruct (N.eqb (letter c) NL).
    + rewrite (IH 0). destruct (cell_lines cs) as [|l rest]; [congruence|].
      cbn [flat_map]. rewrite clen_nil. cbn [collapse flat_map app].
      replace (len - 0 - clen l) with (len - clen l) by lia.
      destruct (Z.leb (len - k) 0) eqn:E.
      * replace (Z.max 0 (len - k - 0)) with 0 by lia. reflexivity.
      * replace (Z.max 0 (len - k - 0)) with (len - k) by lia.
        rewrite <- !app_assoc. reflexivity.
    + rewrite (IH (k + 1)). destruct (cell_lines cs) as [|l rest]; [congruence|].
      rewrite collapse_cons, clen_cons.
      replace (len - (k + 1) - clen l) with (len - k - (clen l + 1)) by lia.
      rewrite <- !app_assoc. reflexivity.
Qed.

Theorem pad_shape_fact : forall (len : Z) (cs : list cell),
  pad_cells len cs 0 =
  join_with [NL] (map (fun l => collapse l ++ spaces (Z.max 0 (len - clen l))) (cell_lines cs)).
Proof.
  intros len cs. rewrite pad_cells_gen.
  destruct (cell_lines cs) as [|l rest]; [reflexivity|].
  cbn [map]. rewrite join_with_cons, flat_map_map.
  replace (len - 0 - clen l) with (len - clen l) by lia. reflexivity.
Qed.
Print Assumptions pad_shape_fact.

(* ------------------------------------------------------------------ 4. DumbWrap *)
Lemma chunk_nonempty : forall n fuel l, chunk n fuel l <> [].
Proof.
  intros n fuel l. destruct fuel as [|f]; cbn [chunk]; [discriminate|].
  destruct (Nat.leb (length l) n); discriminate.
Qed.

Lemma chunk_spec_gen : forall (n : nat), (1 <= n)%nat -> forall (fuel : nat) (l : list cell),
  (length l <= fuel)%nat ->
  concat (chunk n fuel l) = l /\
  Forall (fun x => (length x <= n)%nat) (chunk n fuel l) /\
  (forall pre0 lastc, chunk n fuel l = pre0 ++ [lastc] -> Forall (fun x => length x = n) pre0).
Proof.
  intros n Hn. induction fuel as [|f IH]; intros l Hl.
  - destruct l as [|c l]; [|cbn [length] in Hl; lia].
    cbn [chunk concat app]. split; [reflexivity|split].
    + constructor; [cbn [length]; lia|constructor].
    + intros pre0 lastc H. destruct pre0 as [|x pre0]; [constructor|].
      cbn [app] in H. inversion H as [[H1 H2]]. destruct pre0; discriminate.
  - cbn [chunk]. destruct (Nat.leb (length l) n) eqn:E.
    + apply Nat.leb_le in E. cbn [concat]. rewrite app_nil_r. split; [reflexivity|split].
      * constructor; [exact E|constructor].
      * intros pre0 lastc H. destruct pre0 as [|x pre0]; [constructor|].
        cbn [app] in H. inversion H as [[H1 H2]]. destruct pre0; discriminate.
    + apply Nat.leb_gt in E.
      assert (Hs : (length (skipn n l) <= f)%nat) by (rewrite skipn_length; lia).
      destruct (IH (skipn n l) Hs) as (I1 & I2 & I3).
      split; [|split].
      * cbn [concat]. rewrite I1. apply firstn_skipn.
      * constructor; [apply firstn_le_length|exact I2].
      * intros pre0 lastc H. destruct pre0 as [|x pre0].
        { cbn [app] in H. inversion H as [[H1 H2]]. exfalso. exact (chunk_nonempty _ _ _ H2). }
        cbn [app] in H. inversion H as [[H1 H2]]. constructor.
        { apply firstn_length_le. lia. }
        { exact (I3 pre0 lastc H2). }
Qed.

Lemma chunk_spec_fact : forall (n : nat) (l : list cell), (1 <= n)%nat ->
  concat (chunk n (length l) l) = l /\
  Forall (fun x => (length x <= n)%nat) (chunk n (length l) l) /\
  (forall pre0 lastc, chunk n (length l) l = pre0 ++ [lastc] -> Forall (fun x => length x = n) pre0).
Proof. intros n l Hn. apply chunk_spec_gen; [exact Hn|lia]. Qed.
Print Assumptions chunk_spec_fact.

Definition nl_free (l : list cell) : Prop := Forall (fun c => is_nl_cell c = false) l.

Lemma cell_lines_nl_free : forall cs, Forall nl_free (cell_lines cs).
Proof.
  induction cs as [|c cs IH].
  - rewrite cell_lines_nil. constructor; constructor.
  - rewrite cell_lines_cons. destruct (is_nl_cell c) eqn:E.
    + constructor; [constructor|exact IH].
    + destruct (cell_lines cs) as [|l rest]; [constructor|].
      inversion IH as [|l0 rest0 H1 H2]; subst. constructor; [|exact H2].
      constructor; assumption.
Qed.

(* decomposition of dumb_cells into lines *)
Lemma dumb_cells_lines : forall (w : Z) (cs : list cell) (k : Z),
  dumb_cells w cs k =
  match cell_lines cs with
  | [] => []
  | l :: rest => dumb_cells w l k ++ flat_map (fun x => [NL] ++ dumb_cells w x 0) rest
  end.
Proof.
  intros w. induction cs as [|c cs IH]; intros k.
  - reflexivity.
  - rewrite cell_lines_cons. cbn [dumb_cells]. unfold is_nl_cell.
    pose proof (cell_lines_nonempty cs) as Hne.
    destruct (N.eqb (letter c) NL) eqn:E.
    + rewrite (IH 0). destruct (cell_lines cs) as [|l rest]; [congruence|]. reflexivity.
    + rewrite (IH 1), (IH (k + 1)). destruct (cell_lines cs) as [|l rest]; [congruence|].
      cbn [dumb_cells]. rewrite E. destruct (Z.eqb k w).
      * cbn [app]. rewrite <- !app_assoc. reflexivity.
      * rewrite <- !app_assoc. reflexivity.
Qed.

(* a stretch that fits in the current line is copied *)
Lemma dumb_cells_fit : forall (w : Z) (l rest : list cell) (k : Z),
  nl_free l -> 0 <= k -> k + clen l <= w ->
  dumb_cells w (l ++ rest) k = collapse l ++ dumb_cells w rest (k + clen l).
Proof.
  intros w. induction l as [|c l IH]; intros rest k Hf Hk Hw.
  - cbn [app collapse flat_map]. rewrite clen_nil. f_equal. lia.
  - inversion Hf as [|c0 l0 Hc Hl]; subst. unfold is_nl_cell in Hc.
    rewrite clen_cons in Hw. pose proof (Zle_0_nat (length l)) as Hpos. fold (clen l) in Hpos.
    cbn [app dumb_cells]. rewrite Hc.
    destruct (Z.eqb k w) eqn:E; [lia|].
    rewrite IH by (try assumption; lia). rewrite collapse_cons, clen_cons, <- app_assoc.
    replace (k + 1 + clen l) with (k + (clen l + 1)) by lia. reflexivity.
Qed.

Lemma dumb_cells_full : forall (w : Z) (c : cell) (l : list cell),
  1 <= w -> is_nl_cell c = false ->
  dumb_cells w (c :: l) w = NL :: dumb_cells w (c :: l) 0.
Proof.
  intros w c l Hw Hc. unfold is_nl_cell in Hc. cbn [dumb_cells]. rewrite Hc, Z.eqb_refl.
  destruct (Z.eqb 0 w) eqn:E; [lia|]. reflexivity.
Qed.

Lemma nl_free_firstn : forall n l, nl_free l -> nl_free (firstn n l).
Proof.
  intros n l H. unfold nl_free in *. rewrite Forall_forall in *. intros x Hx.
  apply H. rewrite <- (firstn_skipn n l). apply in_or_app. left. exact Hx.
Qed.

Lemma nl_free_skipn : forall n l, nl_free l -> nl_free (skipn n l).
Proof.
  intros n l H. unfold nl_free in *. rewrite Forall_forall in *. intros x Hx.
  apply H. rewrite <- (firstn_skipn n l). apply in_or_app. right. exact Hx.
Qed.

Lemma dumb_cells_line : forall (w : Z), 1 <= w -> forall (fuel : nat) (l : list cell),
  nl_free l -> (length l <= fuel)%nat ->
  dumb_cells w l 0 = join_with [NL] (map collapse (chunk (Z.to_nat w) fuel l)).
Proof.
  intros w Hw. induction fuel as [|f IH]; intros l Hf Hl.
  - destruct l as [|c l]; [reflexivity|cbn [length] in Hl; lia].
  - cbn [chunk]. destruct (Nat.leb (length l) (Z.to_nat w)) eqn:E.
    + apply Nat.leb_le in E. cbn [map join_with].
      rewrite <- (app_nil_r l) at 1. rewrite dumb_cells_fit; [|exact Hf|lia|unfold clen; lia].
      cbn [dumb_cells]. apply app_nil_r.
    + apply Nat.leb_gt in E. cbn [map]. rewrite join_with_cons.
      rewrite <- (firstn_skipn (Z.to_nat w) l) at 1.
      assert (Hlen : length (firstn (Z.to_nat w) l) = Z.to_nat w) by (apply firstn_length_le; lia).
      rewrite dumb_cells_fit; [|apply nl_free_firstn; exact Hf|lia|unfold clen; lia].
      replace (0 + clen (firstn (Z.to_nat w) l)) with w by (unfold clen; lia).
      f_equal.
      pose proof (nl_free_skipn (Z.to_nat w) l Hf) as Hfs.
      assert (Hs : (length (skipn (Z.to_nat w) l) <= f)%nat) by (rewrite skipn_length; lia).
      assert (Hs2 : (1 <= length (skipn (Z.to_nat w) l))%nat) by (rewrite skipn_length; lia).
      pose proof (IH _ Hfs Hs) as IH1.
      pose proof (chunk_nonempty (Z.to_nat w) f (skipn (Z.to_nat w) l)) as Hne.
      destruct (skipn (Z.to_nat w) l) as [|c r]; [cbn [length] in Hs2; lia|].
      inversion Hfs as [|c0 r0 Hc Hr]; subst.
      rewrite dumb_cells_full by assumption. rewrite IH1.
      destruct (chunk (Z.to_nat w) f (c :: r)) as [|x xs]; [congruence|].
      cbn [map flat_map]. rewrite join_with_cons. reflexivity.
Qed.

Theorem dumb_shape_fact : forall (w : Z) (cs : list cell), 1 <= w ->
  dumb_cells w cs 0 =
  join_with [NL] (map collapse (flat_map (fun l => chunk (Z.to_nat w) (length l) l) (cell_lines cs))).
Proof.
  intros w cs Hw. rewrite dumb_cells_lines.
  pose proof (cell_lines_nl_free cs) as Hf.
  destruct (cell_lines cs) as [|l rest]; [reflexivity|].
  inversion Hf as [|l0 rest0 Hl Hrest]; subst.
  cbn [flat_map]. rewrite map_app.
  pose proof (chunk_nonempty (Z.to_nat w) (length l) l) as Hne.
  rewrite (dumb_cells_line w Hw (length l) l Hl (le_n _)).
  destruct (chunk (Z.to_nat w) (length l) l) as [|x xs]; [congruence|].
  cbn [map app]. rewrite !join_with_cons, flat_map_app, <- app_assoc. do 2 f_equal.
  rewrite flat_map_map.
  clear Hf Hl Hne. induction Hrest as [|y ys Hy Hys IH]; [reflexivity|].
  cbn [flat_map]. rewrite flat_map_app, <- IH. f_equal.
  rewrite (dumb_cells_line w Hw (length y) y Hy (le_n _)).
  pose proof (chunk_nonempty (Z.to_nat w) (length y) y) as Hne.
  destruct (chunk (Z.to_nat w) (length y) y) as [|z zs]; [congruence|].
  cbn [map flat_map]. rewrite join_with_cons, flat_map_map. reflexivity.
Qed.
Print Assumptions dumb_shape_fact.

(* ------------------------------------------------------------------ 5. Snip *)
Definition is_nil {A : Type} (l : list A) : bool := match l with [] => true | _ => false end.

Lemma snip_back_acc : forall (width : Z) (rl : list text) (acc : list text) (ell : bool),
  acc <> [] -> snip_back width rl acc ell = (rev rl ++ acc, ell).
Proof.
  intros width. induction rl as [|l rl IH]; intros acc ell Hacc.
  - reflexivity.
  - cbn [snip_back]. destruct acc as [|a acc]; [congruence|].
    rewrite IH by discriminate. rewrite expand_tiles_fact.
    cbn [rev]. rewrite <- app_assoc. reflexivity.
Qed.

Lemma snip_back_rev_shape : forall (width : Z) (rl : list text) (ell0 : bool),
  exists rtrail rbody,
    rl = rtrail ++ rbody /\
    forallb (fun l => only_space (expand l)) rtrail = true /\
    (rbody = [] \/ exists x rb, rbody = x :: rb /\ only_space (expand x) = false) /\
    let ell := ell0 || negb (is_nil rtrail) in
    snip_back width rl [] ell0 =
      (match rbody with
       | [] => []
       | x :: rb => rev rb ++ [collapse (if Z.eqb (clen (expand x)) width && ell
                                         then removelast (expand x) else expand x)]
       end, ell).
Proof.
  intros width. induction rl as [|l rl IH]; intros ell0.
  - exists [], []. cbn [app forallb is_nil negb snip_back]. rewrite orb_false_r. auto.
  - destruct (only_space (expand l)) eqn:E.
    + destruct (IH true) as (rtrail & rbody & H1 & H2 & H3 & H4).
      exists (l :: rtrail), rbody. split; [|split; [|split]].
      * cbn [app]. rewrite H1. reflexivity.
      * cbn [forallb]. rewrite E, H2. reflexivity.
      * exact H3.
      * cbn [is_nil negb]. rewrite orb_true_r. cbn [orb] in H4.
        cbn [snip_back]. rewrite E. exact H4.
    + exists [], (l :: rl). split; [|split; [|split]].
      * reflexivity.
      * reflexivity.
      * right. exists l, rl. auto.
      * cbn [is_nil negb]. rewrite orb_false_r. cbn [snip_back]. rewrite E.
        rewrite snip_back_acc by discriminate. reflexivity.
Qed.

Lemma forallb_rev : forall (A : Type) (f : A -> bool) (l : list A),
  forallb f (rev l) = forallb f l.
Proof.
  intros A f l. induction l as [|x l IH]; [reflexivity|].
  cbn [rev forallb]. rewrite forallb_app, IH. cbn [forallb]. rewrite andb_true_r. apply andb_comm.
Qed.

Theorem snip_back_shape_fact : forall (width : Z) (lines : list text) (ell0 : bool),
  exists body trailing,
    lines = body ++ trailing /\
    forallb (fun l => only_space (expand l)) trailing = true /\
    (body = [] \/ exists b x, body = b ++ [x] /\ only_space (expand x) = false) /\
    let ell := ell0 || negb (match trailing with [] => true | _ => false end) in
    snip_back width (rev lines) [] ell0 =
      (match rev body with
       | [] => []
       | x :: rb => rev rb ++ [collapse (if Z.eqb (clen (expand x)) width && ell
                                         then removelast (expand x) else expand x)]
       end, ell).
Proof.
  intros width lines ell0.
  destruct (snip_back_rev_shape width (rev lines) ell0) as (rtrail & rbody & H1 & H2 & H3 & H4).
  exists (rev rbody), (rev rtrail). split; [|split; [|split]].
  - rewrite <- rev_app_distr, <- H1, rev_involutive. reflexivity.
  - rewrite forallb_rev. exact H2.
  - destruct H3 as [H3|(x & rb & H3 & H5)].
    + left. subst rbody. reflexivity.
    + right. exists (rev rb), x. subst rbody. auto.
  - rewrite rev_involutive.
    replace (match rev rtrail with [] => true | _ :: _ => false end) with (is_nil rtrail).
    + exact H4.
    + destruct rtrail as [|y ys]; [reflexivity|]. cbn [rev is_nil].
      destruct (rev ys); reflexivity.
Qed.
Print Assumptions snip_back_shape_fact.

Definition nonl (t : text) : Prop := Forall (fun c => N.eqb c NL = false) t.

Lemma count_nl_app : forall a b, count_nl (a ++ b) = (count_nl a + count_nl b)%nat.
Proof. intros a b. unfold count_nl. rewrite filter_app, app_length. reflexivity. Qed.

Lemma count_nl_cons : forall c t, count_nl (c :: t) = ((if N.eqb c NL then 1 else 0) + count_nl t)%nat.
Proof. intros c t. unfold count_nl. cbn [filter]. destruct (N.eqb c NL); reflexivity. Qed.

Lemma nonl_count : forall t, nonl t -> count_nl t = 0%nat.
Proof.
  intros t H. induction H as [|c t Hc Ht IH]; [reflexivity|].
  rewrite count_nl_cons, Hc, IH. reflexivity.
Qed.

Lemma has_nl_count : forall t, has_nl t = false -> count_nl t = 0%nat.
Proof.
  induction t as [|c t IH]; intros H; [reflexivity|].
  unfold has_nl in H. cbn [existsb] in H. apply orb_false_iff in H as [H1 H2].
  rewrite count_nl_cons, H1. apply IH. exact H2.
Qed.

Lemma split_nl_aux_length : forall t cur, length (split_nl_aux cur t) = S (count_nl t).
Proof.
  induction t as [|c t IH]; intros cur; cbn [split_nl_aux].
  - reflexivity.
  - rewrite count_nl_cons. destruct (N.eqb c NL).
    + cbn [length]. rewrite IH. reflexivity.
    + rewrite IH. reflexivity.
Qed.

Lemma split_nl_length : forall t, length (split_nl t) = S (count_nl t).
Proof. intros t. apply split_nl_aux_length. Qed.

Lemma split_nl_aux_nonl : forall t cur, nonl cur -> Forall nonl (split_nl_aux cur t).
Proof.
  induction t as [|c t IH]; intros cur Hcur; cbn [split_nl_aux].
  - constructor; [apply Forall_rev; exact Hcur|constructor].
  - destruct (N.eqb c NL) eqn:E.
    + constructor; [apply Forall_rev; exact Hcur|]. apply IH. constructor.
    + apply IH. constructor; assumption.
Qed.

Lemma split_nl_nonl : forall t, Forall nonl (split_nl t).
Proof. intros t. apply split_nl_aux_nonl. constructor. Qed.

Lemma count_nl_join : forall ls, Forall nonl ls -> count_nl (join_nl ls) = pred (length ls).
Proof.
  intros ls H. induction H as [|l ls Hl Hls IH]; [reflexivity|].
  destruct ls as [|l2 ls].
  - cbn [join_nl length pred]. apply nonl_count. exact Hl.
  - change (join_nl (l :: l2 :: ls)) with (l ++ NL :: join_nl (l2 :: ls)).
    rewrite count_nl_app, count_nl_cons, IH, (nonl_count l Hl). reflexivity.
Qed.

Lemma nonl_removelast_expand : forall (x : text) (b : bool),
  nonl x -> nonl (collapse (if b then removelast (expand x) else expand x)).
Proof.
  intros x b Hx. destruct b; [|rewrite expand_tiles_fact; exact Hx].
  pose proof (expand_tiles_fact x) as Ht.
  destruct (expand x) as [|c cs] eqn:E; [constructor|].
  rewrite (app_removelast_last c (l := c :: cs)) in Ht by discriminate.
  rewrite collapse_app in Ht. rewrite <- Ht in Hx.
  unfold nonl in Hx. apply Forall_app in Hx. exact (proj1 Hx).
Qed.

Lemma Forall_firstn : forall (A : Type) (P : A -> Prop) n (l : list A), Forall P l -> Forall P (firstn n l).
Proof.
  intros A P n l H. rewrite Forall_forall in *. intros x Hx.
  apply H. rewrite <- (firstn_skipn n l). apply in_or_app. left. exact Hx.
Qed.

Theorem snip_lines_fact : forall (t : text) (width h : Z) (e r : text),
  1 <= h -> has_nl e = false -> snip t width h e = Ok r ->
  (length (split_nl r) <= Z.to_nat h)%nat.
Proof.
  intros t width h e r Hh He Hs. unfold snip in Hs.
  destruct (Z.ltb h 0) eqn:Eh; [discriminate|].
  set (lines := split_nl t) in *.
  set (n := Z.of_nat (length lines)) in *.
  set (h' := if Z.leb n h then n else h) in *.
  set (ell0 := negb (Z.leb n h)) in *.
  destruct (snip_back_shape_fact width (firstn (Z.to_nat h') lines) ell0)
    as (body & trailing & H1 & _ & _ & H4).
  cbv zeta in H4.
  match type of H4 with _ = (_, ?b) => set (ell := b) in H4 end.
  rewrite H4 in Hs. clear H4. inversion Hs as [Hr]. clear Hs Hr.
  generalize ell. clear ell. intros ell.
  assert (Hnl : Forall nonl (body ++ trailing)).
  { rewrite <- H1. apply Forall_firstn. apply split_nl_nonl. }
  apply Forall_app in Hnl. destruct Hnl as [Hnb _].
  assert (Hlen : (length body <= Z.to_nat h)%nat).
  { assert (Hl1 : (length (body ++ trailing) <= Z.to_nat h')%nat)
      by (rewrite <- H1; apply firstn_le_length).
    rewrite app_length in Hl1.
    assert (Z.to_nat h' <= Z.to_nat h)%nat by (subst h'; destruct (Z.leb n h) eqn:En; lia).
    lia. }
  rewrite split_nl_length, count_nl_app.
  match goal with |- context [(_ + count_nl ?z)%nat] => assert (He' : count_nl z = 0%nat) end.
  { destruct ell; [apply has_nl_count; exact He|reflexivity]. }
  rewrite He'.
  destruct (rev body) as [|x rb] eqn:Erb.
  - cbn [join_nl count_nl filter length]. lia.
  - assert (Eb : body = rev rb ++ [x]) by (rewrite <- (rev_involutive body), Erb; reflexivity).
    rewrite Eb in Hnb, Hlen. apply Forall_app in Hnb. destruct Hnb as [Hn1 Hn2].
    inversion Hn2 as [|x0 l0 Hx _]; subst x0 l0.
    rewrite count_nl_join.
    + rewrite !app_length in *. cbn [length] in *. lia.
    + apply Forall_app. split; [exact Hn1|].
      constructor; [|constructor]. apply nonl_removelast_expand. exact Hx.
Qed.
Print Assumptions snip_lines_fact.

(* ------------------------------------------------------------------ 6. expand after collapse *)
Lemma is_param_not_m : forall c, is_param c = true -> N.eqb c CH_m = false.
Proof.
  intros c H. destruct (N.eqb c CH_m) eqn:E; [|reflexivity].
  apply N.eqb_eq in E. subst c. discriminate H.
Qed.

Lemma split_m_params : forall params rest, forallb is_param params = true ->
  split_m (params ++ CH_m :: rest) = Some (params ++ [CH_m], rest).
Proof.
  induction params as [|c params IH]; intros rest H.
  - cbn [app split_m]. rewrite N.eqb_refl. reflexivity.
  - cbn [forallb] in H. apply andb_true_iff in H as [H1 H2].
    cbn [app split_m]. rewrite (is_param_not_m c H1), (IH rest H2). reflexivity.
Qed.

Lemma take_groups_plain : forall fuel c tail, c <> ESC ->
  take_groups fuel (c :: tail) = ([], c :: tail).
Proof.
  intros fuel c tail Hc. destruct fuel as [|f]; [reflexivity|].
  cbn [take_groups]. destruct tail as [|b l']; [reflexivity|].
  apply N.eqb_neq in Hc. rewrite Hc. reflexivity.
Qed.

Lemma take_groups_wf : forall p, sgr_groups p -> forall fuel c tail,
  (length p <= fuel)%nat -> c <> ESC ->
  take_groups fuel (p ++ c :: tail) = (p, c :: tail).
Proof.
  intros p Hp. induction Hp as [|params rest Hpar Hne Hn0 Hrest IH]; intros fuel c tail Hf Hc.
  - cbn [app]. apply take_groups_plain. exact Hc.
  - destruct fuel as [|f]; [cbn [length] in Hf; lia|].
    assert (Hf' : (length rest <= f)%nat).
    { cbn [length] in Hf. rewrite app_length in Hf. cbn [length] in Hf. lia. }
    cbn [app take_groups]. rewrite !N.eqb_refl. cbn [andb].
    rewrite <- app_assoc. cbn [app]. rewrite (split_m_params params _ Hpar).
    pose proof (IH f c tail Hf' Hc) as IH'.
    remember (rest ++ c :: tail) as X eqn:EX.
    destruct X as [|r0 rs]; [destruct rest; discriminate EX|].
    rewrite IH'. rewrite <- app_assoc. reflexivity.
Qed.

Lemma strip_reset_no : forall a b c d l',
  N.eqb a ESC && N.eqb b LBR && N.eqb c CH_0 && N.eqb d CH_m = false ->
  strip_reset (a :: b :: c :: d :: l') = (false, a :: b :: c :: d :: l').
Proof. intros a b c d l' H. unfold strip_reset. rewrite H. reflexivity. Qed.

Lemma strip_reset_plain : forall a tail, a <> ESC -> strip_reset (a :: tail) = (false, a :: tail).
Proof.
  intros a tail Ha. destruct tail as [|b [|c [|d l']]]; try reflexivity.
  apply strip_reset_no. apply N.eqb_neq in Ha. rewrite Ha. reflexivity.
Qed.

Lemma strip_reset_wf : forall cs, wf_cells cs -> strip_reset (collapse cs) = (false, collapse cs).
Proof.
  intros cs H. destruct H as [|c cs Hc Hcs]; [reflexivity|].
  rewrite collapse_cons. unfold full.
  destruct Hc as (Hp & Hl & _ & _).
  destruct Hp as [|params rest Hpar Hne Hn0 Hrest].
  - cbn [app]. apply strip_reset_plain. exact Hl.
  - destruct params as [|p1 [|p2 ps]]; [congruence| |].
    + cbn [app]. apply strip_reset_no.
      assert (Hp1 : N.eqb p1 CH_0 = false) by (apply N.eqb_neq; congruence).
      rewrite Hp1. rewrite andb_false_r. reflexivity.
    + cbn [app]. apply strip_reset_no.
      cbn [forallb] in Hpar. apply andb_true_iff in Hpar as [_ Hpar].
      apply andb_true_iff in Hpar as [Hp2 _].
      rewrite (is_param_not_m p2 Hp2). apply andb_false_r.
Qed.

Lemma strip_reset_yes : forall tail, strip_reset (reset_seq ++ tail) = (true, tail).
Proof. reflexivity. Qed.

Lemma expand_fuel_step : forall f l p c r' rs r'',
  l <> [] -> take_groups (S f) l = (p, c :: r') -> strip_reset r' = (rs, r'') ->
  expand_fuel (S f) l = mkcell p c rs :: expand_fuel f r''.
Proof.
  intros f l p c r' rs r'' Hl Ht Hs. cbn [expand_fuel].
  destruct l as [|a l0]; [congruence|]. rewrite Ht, Hs. reflexivity.
Qed.

Lemma full_length : forall c, (1 <= length (full c))%nat.
Proof. intros c. unfold full. rewrite !app_length. cbn [length]. lia. Qed.

Lemma expand_fuel_collapse_wf : forall fuel cs, wf_cells cs ->
  (length (collapse cs) <= fuel)%nat -> expand_fuel fuel (collapse cs) = cs.
Proof.
  induction fuel as [|f IH]; intros cs Hwf Hlen.
  - destruct cs as [|c cs]; [reflexivity|].
    rewrite collapse_cons, app_length in Hlen. pose proof (full_length c). lia.
  - destruct Hwf as [|c cs Hc Hcs]; [reflexivity|].
    pose proof Hc as (Hp & Hl & _ & _).
    rewrite collapse_cons, app_length in Hlen. pose proof (full_length c) as Hfl.
    assert (Hlen' : (length (collapse cs) <= f)%nat) by lia.
    rewrite collapse_cons. unfold full. rewrite <- !app_assoc. cbn [app].
    rewrite (expand_fuel_step f _ (pre c) (letter c)
               ((if rst c then reset_seq else []) ++ collapse cs) (rst c) (collapse cs)).
    + rewrite (IH cs Hcs Hlen'). destruct c; reflexivity.
    + destruct (pre c); discriminate.
    + apply take_groups_wf; [exact Hp| |exact Hl].
      assert (length (pre c) <= length (full c))%nat by (unfold full; rewrite app_length; lia). lia.
    + destruct (rst c).
      * apply strip_reset_yes.
      * cbn [app]. apply strip_reset_wf. exact Hcs.
Qed.

Theorem expand_collapse_wf_fact : forall cs : list cell, wf_cells cs -> expand (collapse cs) = cs.
Proof. intros cs H. unfold expand. apply expand_fuel_collapse_wf; [exact H|lia]. Qed.
Print Assumptions expand_collapse_wf_fact.
