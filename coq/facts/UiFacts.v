(* Facts about the terminal UI model (Ui.v): a state invariant kept by every key press, every
   completing background task (in any order) and every resize; what the keys do; and the view:
   it never panics on a state satisfying the invariant and every frame is exactly as tall as the
   terminal. *)
From Servitor Require Import Base Unicode Ansi Style History Feed Ui.
From Servitor.Facts Require Import FeedFacts CenterFacts AnsiFacts StyleFacts.
From Coq Require Import ZifyBool.
Local Open Scope Z_scope.

Local Arguments u_pages {I C}. Local Arguments u_hist {I C}. Local Arguments u_mode {I C}.
Local Arguments u_buffer {I C}. Local Arguments u_width {I C}. Local Arguments u_height {I C}.
Local Arguments u_tasks {I C}. Local Arguments u_frames {I C}. Local Arguments mkui {I C}.
Local Arguments pg_feed {I C}. Local Arguments pg_frontier {I C}. Local Arguments pg_loading_up {I C}.
Local Arguments pg_children {I C}. Local Arguments pg_basepoint {I C}. Local Arguments pg_loading_down {I C}.
Local Arguments mkpage {I C}.
Local Arguments TLoadUp {I C}. Local Arguments TLoadDown {I C}. Local Arguments TOpen {I C}.
Local Arguments TFeed {I C}. Local Arguments THook {I C}.
Local Arguments OItem {I C}. Local Arguments OColl {I C}.
Local Arguments page_find {I C}. Local Arguments page_set {I C}.
Local Arguments cur_pid {I C}. Local Arguments cur_page {I C}. Local Arguments cur_item {I C}.
Local Arguments set_mode {I C}. Local Arguments frame {I C}. Local Arguments spawn {I C}.
Local Arguments with_pages {I C}. Local Arguments with_hist {I C}.
Local Arguments update_cur_page {I C}. Local Arguments add_page {I C}.
Local Arguments open_externally {I C}. Local Arguments resize {I C}. Local Arguments ui_init {I C}.
Local Arguments frel {A}.

(* lia/zify would otherwise drag unrelated section variables into the statements *)
Local Set Default Proof Using "Type".

Local Ltac split4 := split; [|split; [|split]].

Section UiFacts.
Variables (I C : Type).
Variable preload : Z.
Variable parents : I -> nat -> list I * option I.
Variable children : I -> option C.
Variable harvest : C -> nat -> nat -> list I * option C * nat.
Variable select_link : I -> Z -> option text.
Variable creators : I -> option (list I).
Variable recipients : I -> option (list I).
Variable actor_of : I -> option I.
Variable media : I -> option text.
Variable pfp : I -> option text.
Variable banner : I -> option text.
Variable open_link : text -> opened I C.
Variable open_user : text -> opened I C.
Variable feed_named : text -> option C.
Variable hook_fails : text -> option text.
Variable msg_unknown_feed : text -> text.
Variable msg_bad_command : text -> text.
Variable col : colors.
Variable full_text : I -> Z -> text.
Variable preview_text : I -> Z -> text.
Hypothesis preload_nonneg : 0 <= preload.

(* lia, after forgetting the section variables the goal does not mention *)
Ltac ulia :=
  try clear preload_nonneg; try clear select_link; try clear preview_text; try clear full_text;
  try clear harvest; try clear parents; try clear children; try clear creators; try clear recipients;
  try clear actor_of; try clear media; try clear pfp; try clear banner; try clear open_link;
  try clear open_user; try clear feed_named; try clear hook_fails; try clear msg_unknown_feed;
  try clear msg_bad_command; try clear col; try clear preload; lia.

Local Notation upd := (Ui.update I C preload parents children select_link creators recipients actor_of
                          media pfp banner open_link open_user feed_named msg_unknown_feed msg_bad_command).
Local Notation runt := (Ui.run_task I C preload parents children harvest hook_fails).
Local Notation vw := (Ui.view I C preload col full_text preview_text).
Local Notation lsur := (Ui.load_surroundings I C preload).
Local Notation sw_item := (Ui.switch_item I C preload parents children).
Local Notation sw_items := (Ui.switch_items I C preload parents children).
Local Notation sw_coll := (Ui.switch_coll I C preload harvest).
Local Notation sw_opened := (Ui.switch_opened I C preload parents children harvest).
Local Notation nkey := (Ui.normal_key I C preload parents children creators recipients actor_of media pfp banner).
Local Notation rcmd := (Ui.run_command I C open_user feed_named msg_unknown_feed msg_bad_command).
Local Notation ipage := (Ui.item_page I C parents children).
Local Notation open_int := (Ui.open_internally I C open_link).
Local Notation settl := (Ui.settle I C preload parents children harvest hook_fails).

(* ================================================================== the invariant *)
(* the feed is a genuine two-sided list *)
Definition feed_ok (f : feed I) : Prop := exists t, frel f t.

(* a page that says "loading" still has something to load from (otherwise the loader that was
   spawned for it would end without clearing the flag) *)
Definition page_ok (p : page I C) : Prop :=
  feed_ok (pg_feed p) /\
  (pg_loading_up p = true -> pg_frontier p <> None) /\
  (pg_loading_down p = true -> pg_children p <> None).

Definition is_up (k : nat) (t : task I C) : bool :=
  match t with TLoadUp k' => Nat.eqb k k' | _ => false end.
Definition is_down (k : nat) (t : task I C) : bool :=
  match t with TLoadDown k' => Nat.eqb k k' | _ => false end.
Definition count_up (k : nat) (ts : list (task I C)) : nat := length (filter (is_up k) ts).
Definition count_down (k : nat) (ts : list (task I C)) : nat := length (filter (is_down k) ts).

Definition b2n (b : bool) : nat := if b then 1%nat else 0%nat.

Definition ui_inv (s : ui I C) : Prop :=
  (forall k p, page_find (u_pages s) k = Some p -> page_ok p) /\
  (forall k, In k (h_elems (u_hist s)) -> exists p, page_find (u_pages s) k = Some p) /\
  (forall k p, page_find (u_pages s) k = Some p -> (k < length (u_pages s))%nat) /\
  (h_elems (u_hist s) = [] /\ h_index (u_hist s) = 0%nat \/
   (h_index (u_hist s) < length (h_elems (u_hist s)))%nat) /\
  (u_mode s <> MLoading -> h_elems (u_hist s) <> []) /\
  (forall k p, page_find (u_pages s) k = Some p ->
     count_up k (u_tasks s) = b2n (pg_loading_up p) /\
     count_down k (u_tasks s) = b2n (pg_loading_down p)) /\
  (forall k, page_find (u_pages s) k = None ->
     count_up k (u_tasks s) = 0%nat /\ count_down k (u_tasks s) = 0%nat).

(* ---- the invariant by components ---- *)
Definition pages_ok (ps : list (nat * page I C)) : Prop :=
  (forall k p, page_find ps k = Some p -> page_ok p) /\
  (forall k p, page_find ps k = Some p -> (k < length ps)%nat).
Definition hist_ok (ps : list (nat * page I C)) (h : hist nat) : Prop :=
  (forall k, In k (h_elems h) -> exists p, page_find ps k = Some p) /\
  (h_elems h = [] /\ h_index h = 0%nat \/ (h_index h < length (h_elems h))%nat).
Definition fl_up (ps : list (nat * page I C)) (k : nat) : nat :=
  match page_find ps k with Some p => b2n (pg_loading_up p) | None => 0%nat end.
Definition fl_down (ps : list (nat * page I C)) (k : nat) : nat :=
  match page_find ps k with Some p => b2n (pg_loading_down p) | None => 0%nat end.
Definition tasks_ok (ps : list (nat * page I C)) (ts : list (task I C)) : Prop :=
  forall k, count_up k ts = fl_up ps k /\ count_down k ts = fl_down ps k.

Lemma ui_inv_parts (s : ui I C) :
  ui_inv s <->
  pages_ok (u_pages s) /\ hist_ok (u_pages s) (u_hist s) /\
  (u_mode s <> MLoading -> h_elems (u_hist s) <> []) /\ tasks_ok (u_pages s) (u_tasks s).
Proof.
  unfold ui_inv, pages_ok, hist_ok, tasks_ok, fl_up, fl_down. split.
  - intros (H1 & H2 & H3 & H4 & H5 & H6 & H7).
    split; [split; assumption|]. split; [split; assumption|]. split; [assumption|].
    intros k. destruct (page_find (u_pages s) k) as [p|] eqn:E; [apply (H6 k p E)|apply (H7 k E)].
  - intros ((H1 & H3) & (H2 & H4) & H5 & H6).
    split; [assumption|]. split; [assumption|]. split; [assumption|]. split; [assumption|].
    split; [assumption|]. split.
    + intros k p Hf. specialize (H6 k). rewrite Hf in H6. exact H6.
    + intros k Hf. specialize (H6 k). rewrite Hf in H6. exact H6.
Qed.

(* ---- page store ---- *)
Lemma page_find_set (ps : list (nat * page I C)) (k : nat) (p : page I C) (k' : nat) :
  page_find (page_set ps k p) k' =
  if Nat.eqb k' k then match page_find ps k with Some _ => Some p | None => None end
  else page_find ps k'.
Proof.
  induction ps as [|[k0 q] r IH]; cbn [page_set page_find].
  - destruct (Nat.eqb k' k); reflexivity.
  - destruct (Nat.eqb_spec k k0) as [E|E].
    + subst k0. cbn [page_find]. destruct (Nat.eqb_spec k' k) as [E2|E2]; reflexivity.
    + cbn [page_find]. rewrite IH.
      destruct (Nat.eqb_spec k' k0) as [E2|E2].
      * subst k0. destruct (Nat.eqb_spec k' k) as [E3|E3]; [congruence|reflexivity].
      * reflexivity.
Qed.

Lemma page_set_length (ps : list (nat * page I C)) (k : nat) (p : page I C) :
  length (page_set ps k p) = length ps.
Proof.
  induction ps as [|[k0 q] r IH]; cbn [page_set]; [reflexivity|].
  destruct (Nat.eqb k k0); cbn [length]; [reflexivity|]. rewrite IH. reflexivity.
Qed.

Lemma page_find_set_same (ps : list (nat * page I C)) (k : nat) (q p : page I C) :
  page_find ps k = Some q -> page_find (page_set ps k p) k = Some p.
Proof. intros H. rewrite page_find_set, Nat.eqb_refl, H. reflexivity. Qed.

Lemma page_find_set_other (ps : list (nat * page I C)) (k k' : nat) (p : page I C) :
  k' <> k -> page_find (page_set ps k p) k' = page_find ps k'.
Proof. intros H. rewrite page_find_set. destruct (Nat.eqb_spec k' k); [congruence|reflexivity]. Qed.

Lemma pages_ok_set ps k p : pages_ok ps -> page_ok p -> pages_ok (page_set ps k p).
Proof.
  intros [H1 H2] Hp. split; intros k' p' Hf; rewrite page_find_set in Hf.
  - destruct (Nat.eqb_spec k' k) as [E|E].
    + destruct (page_find ps k); [|discriminate]. injection Hf as <-. exact Hp.
    + apply (H1 k' p' Hf).
  - rewrite page_set_length. destruct (Nat.eqb_spec k' k) as [E|E].
    + subst k'. destruct (page_find ps k) as [q|] eqn:Eq; [|discriminate]. apply (H2 k q Eq).
    + apply (H2 k' p' Hf).
Qed.

Lemma hist_ok_set ps h k p : hist_ok ps h -> hist_ok (page_set ps k p) h.
Proof.
  intros [H1 H2]. split; [|exact H2]. intros k' Hin. destruct (H1 k' Hin) as [q Hq].
  rewrite page_find_set. destruct (Nat.eqb_spec k' k) as [E|E].
  - subst k'. rewrite Hq. eauto.
  - eauto.
Qed.

Lemma fl_up_set ps k p k' :
  fl_up (page_set ps k p) k' =
  if Nat.eqb k' k then match page_find ps k with Some _ => b2n (pg_loading_up p) | None => 0%nat end
  else fl_up ps k'.
Proof.
  unfold fl_up. rewrite page_find_set. destruct (Nat.eqb k' k); [|reflexivity].
  destruct (page_find ps k); reflexivity.
Qed.

Lemma fl_down_set ps k p k' :
  fl_down (page_set ps k p) k' =
  if Nat.eqb k' k then match page_find ps k with Some _ => b2n (pg_loading_down p) | None => 0%nat end
  else fl_down ps k'.
Proof.
  unfold fl_down. rewrite page_find_set. destruct (Nat.eqb k' k); [|reflexivity].
  destruct (page_find ps k); reflexivity.
Qed.

(* replacing a page by one with the same flags *)
Lemma tasks_ok_set_same ps ts k q p :
  page_find ps k = Some q -> pg_loading_up p = pg_loading_up q -> pg_loading_down p = pg_loading_down q ->
  tasks_ok ps ts -> tasks_ok (page_set ps k p) ts.
Proof.
  intros Hq Eu Ed H k'. rewrite fl_up_set, fl_down_set, Hq, Eu, Ed.
  destruct (H k') as [A B]. destruct (Nat.eqb_spec k' k) as [E|E]; [|split; assumption].
  subst k'. unfold fl_up, fl_down in A, B. rewrite Hq in A, B. split; assumption.
Qed.

(* ---- counting ---- *)
Lemma count_up_app k a b : count_up k (a ++ b) = (count_up k a + count_up k b)%nat.
Proof. unfold count_up. rewrite filter_app, app_length. reflexivity. Qed.
Lemma count_down_app k a b : count_down k (a ++ b) = (count_down k a + count_down k b)%nat.
Proof. unfold count_down. rewrite filter_app, app_length. reflexivity. Qed.
Lemma count_up_one k t : count_up k [t] = b2n (is_up k t).
Proof. unfold count_up. cbn [filter]. destruct (is_up k t); reflexivity. Qed.
Lemma count_down_one k t : count_down k [t] = b2n (is_down k t).
Proof. unfold count_down. cbn [filter]. destruct (is_down k t); reflexivity. Qed.
Lemma count_up_mid k a t b : count_up k (a ++ t :: b) = (count_up k (a ++ b) + b2n (is_up k t))%nat.
Proof.
  change (t :: b) with ([t] ++ b). rewrite !count_up_app, count_up_one. ulia.
Qed.
Lemma count_down_mid k a t b : count_down k (a ++ t :: b) = (count_down k (a ++ b) + b2n (is_down k t))%nat.
Proof.
  change (t :: b) with ([t] ++ b). rewrite !count_down_app, count_down_one. ulia.
Qed.

Definition is_loader (t : task I C) : bool :=
  match t with TLoadUp _ => true | TLoadDown _ => true | _ => false end.

Lemma not_loader_up k t : is_loader t = false -> is_up k t = false.
Proof. destruct t; cbn; congruence. Qed.
Lemma not_loader_down k t : is_loader t = false -> is_down k t = false.
Proof. destruct t; cbn; congruence. Qed.

Lemma tasks_ok_spawn ps ts t : is_loader t = false -> tasks_ok ps ts -> tasks_ok ps (ts ++ [t]).
Proof.
  intros Ht H k. rewrite count_up_app, count_down_app, count_up_one, count_down_one.
  rewrite (not_loader_up k t Ht), (not_loader_down k t Ht). cbn [b2n]. rewrite !Nat.add_0_r. apply H.
Qed.

Lemma tasks_ok_remove ps pre t post :
  is_loader t = false -> tasks_ok ps (pre ++ t :: post) -> tasks_ok ps (pre ++ post).
Proof.
  intros Ht H k. specialize (H k). rewrite count_up_mid, count_down_mid in H.
  rewrite (not_loader_up k t Ht), (not_loader_down k t Ht) in H. cbn [b2n] in H.
  rewrite !Nat.add_0_r in H. exact H.
Qed.

(* ---- feeds ---- *)
Lemma feed_ok_create (i : I) : feed_ok (f_create i).
Proof. exists (t_start (FCreate i)). apply (frel_start I (FCreate i)). Qed.
Lemma feed_ok_create_list (l : list I) : feed_ok (f_create_list l).
Proof. exists (t_start (FCreateList l)). apply (frel_start I (FCreateList l)). Qed.
Lemma feed_ok_step (f : feed I) (o : fop I) : feed_ok f -> feed_ok (f_step f o).
Proof. intros [t R]. exists (t_step t o). apply frel_step, R. Qed.

Lemma feed_ok_get (f : feed I) (i : Z) :
  feed_ok f -> f_contains f i = true -> exists it, f_get f i = Ok (Some it).
Proof.
  intros [t R] Hc. unfold f_get. rewrite Hc.
  pose proof (t_has_bounds I f t (f_index f + i) R) as HB.
  unfold f_contains in Hc. rewrite Hc in HB. unfold t_has in HB.
  destruct (t_at t (f_index f + i)) as [it|] eqn:E; [|discriminate].
  exists it. rewrite (fr_map I f t R) by ulia. rewrite E. reflexivity.
Qed.

(* ---- history ---- *)
Lemma hist_ok_back ps h : hist_ok ps h -> hist_ok ps (h_back h).
Proof.
  intros [H1 H2]. unfold h_back. destruct (Nat.ltb 0 (h_index h)) eqn:E; [|split; assumption].
  split; cbn [h_elems h_index]; [exact H1|]. apply Nat.ltb_lt in E. right. ulia.
Qed.
Lemma hist_ok_forward ps h : hist_ok ps h -> hist_ok ps (h_forward h).
Proof.
  intros [H1 H2]. unfold h_forward.
  destruct (Nat.ltb (h_index h + 1) (length (h_elems h))) eqn:E; [|split; assumption].
  split; cbn [h_elems h_index]; [exact H1|]. apply Nat.ltb_lt in E. right. ulia.
Qed.
Lemma h_back_elems (h : hist nat) : h_elems (h_back h) = h_elems h.
Proof. unfold h_back. destruct (Nat.ltb 0 (h_index h)); reflexivity. Qed.
Lemma h_forward_elems (h : hist nat) : h_elems (h_forward h) = h_elems h.
Proof. unfold h_forward. destruct (Nat.ltb (h_index h + 1) (length (h_elems h))); reflexivity. Qed.
Lemma h_add_nonempty (h : hist nat) x : h_elems (h_add h x) <> [].
Proof.
  unfold h_add. destruct (h_elems h) as [|a l]; cbn [h_elems]; [discriminate|].
  intros E. apply (f_equal (@length nat)) in E. rewrite app_length in E. cbn [length] in E. ulia.
Qed.

Lemma in_firstn_ {A} (n : nat) (l : list A) (x : A) : In x (firstn n l) -> In x l.
Proof.
  revert l. induction n as [|n IH]; intros l H; [destruct H|].
  destruct l as [|a l]; [destruct H|]. cbn [firstn] in H. destruct H as [H|H]; [left; exact H|right; apply IH, H].
Qed.

(* a new page gets a fresh id; the old ones keep theirs *)
Lemma pages_ok_fresh ps : pages_ok ps -> page_find ps (length ps) = None.
Proof.
  intros [_ H2]. destruct (page_find ps (length ps)) as [p|] eqn:E; [|reflexivity].
  specialize (H2 _ _ E). ulia.
Qed.

Lemma pages_ok_add ps p : pages_ok ps -> page_ok p -> pages_ok ((length ps, p) :: ps).
Proof.
  intros [H1 H2] Hp. split; intros k q Hf; cbn [page_find length] in *.
  - destruct (Nat.eqb k (length ps)); [injection Hf as <-; exact Hp|apply (H1 k q Hf)].
  - destruct (Nat.eqb_spec k (length ps)) as [E|E]; [ulia|]. specialize (H2 k q Hf). ulia.
Qed.

Lemma hist_ok_add ps p h : pages_ok ps -> hist_ok ps h -> hist_ok ((length ps, p) :: ps) (h_add h (length ps)).
Proof.
  intros HP [H1 H2]. split.
  - intros k Hin. cbn [page_find]. destruct (Nat.eqb_spec k (length ps)) as [E|E]; [eauto|].
    apply H1. unfold h_add in Hin. destruct (h_elems h) as [|a l] eqn:El; cbn [h_elems] in Hin.
    + destruct Hin as [Hin|[]]. congruence.
    + apply in_app_or in Hin as [Hin|Hin].
      * eapply in_firstn_, Hin.
      * destruct Hin as [Hin|[]]. congruence.
  - unfold h_add. destruct (h_elems h) as [|a l] eqn:El; cbn [h_elems h_index].
    + right. cbn [length]. ulia.
    + right. destruct H2 as [[H2 _]|H2]; [discriminate|].
      rewrite app_length, firstn_length. cbn [length] in *. ulia.
Qed.

Lemma tasks_ok_add ps p ts :
  pages_ok ps -> pg_loading_up p = false -> pg_loading_down p = false ->
  tasks_ok ps ts -> tasks_ok ((length ps, p) :: ps) ts.
Proof.
  intros HP Eu Ed H k. specialize (H k). unfold fl_up, fl_down in *. cbn [page_find].
  destruct (Nat.eqb_spec k (length ps)) as [E|E]; [|exact H].
  subst k. rewrite (pages_ok_fresh ps HP) in H. rewrite Eu, Ed. exact H.
Qed.

(* ================================================================== U1 *)
Theorem init_inv_fact : forall w h, ui_inv (ui_init w h).
Proof.
  intros w h. unfold ui_inv, ui_init. cbn [u_pages u_hist u_mode u_tasks page_find h_init h_elems h_index].
  repeat split; try discriminate; try contradiction; try congruence.
  left. split; reflexivity.
Qed.

(* ================================================================== U2 *)
Lemma inv_frame (s : ui I C) : ui_inv s -> ui_inv (frame s).
Proof. intros H. exact H. Qed.

Lemma inv_nonloading (s : ui I C) : ui_inv s -> u_mode s <> MLoading -> h_elems (u_hist s) <> [].
Proof. intros H. apply ui_inv_parts in H. apply H. Qed.

Lemma inv_set_mode (s : ui I C) m b :
  ui_inv s -> (m <> MLoading -> h_elems (u_hist s) <> []) -> ui_inv (set_mode s m b).
Proof.
  intros H Hm. apply ui_inv_parts in H. apply ui_inv_parts. cbn [set_mode u_pages u_hist u_mode u_tasks].
  destruct H as (A & B & _ & D). split4; assumption.
Qed.

Lemma inv_spawn (s : ui I C) t : ui_inv s -> is_loader t = false -> ui_inv (spawn s t).
Proof.
  intros H Ht. apply ui_inv_parts in H. apply ui_inv_parts. cbn [spawn u_pages u_hist u_mode u_tasks].
  destruct H as (A & B & M & D). split4; try assumption. apply tasks_ok_spawn; assumption.
Qed.

Lemma inv_back (s : ui I C) : ui_inv s -> ui_inv (with_hist s (h_back (u_hist s))).
Proof.
  intros H. apply ui_inv_parts in H. apply ui_inv_parts. cbn [with_hist u_pages u_hist u_mode u_tasks].
  destruct H as (A & B & M & D). split4; try assumption.
  - apply hist_ok_back, B.
  - rewrite h_back_elems. exact M.
Qed.

Lemma inv_forward (s : ui I C) : ui_inv s -> ui_inv (with_hist s (h_forward (u_hist s))).
Proof.
  intros H. apply ui_inv_parts in H. apply ui_inv_parts. cbn [with_hist u_pages u_hist u_mode u_tasks].
  destruct H as (A & B & M & D). split4; try assumption.
  - apply hist_ok_forward, B.
  - rewrite h_forward_elems. exact M.
Qed.

Lemma inv_set_page (s : ui I C) k q p :
  ui_inv s -> page_find (u_pages s) k = Some q -> page_ok p ->
  pg_loading_up p = pg_loading_up q -> pg_loading_down p = pg_loading_down q ->
  ui_inv (with_pages s (page_set (u_pages s) k p)).
Proof.
  intros H Hq Hp Eu Ed. apply ui_inv_parts in H. apply ui_inv_parts.
  cbn [with_pages u_pages u_hist u_mode u_tasks]. destruct H as (A & B & M & D). split4.
  - apply pages_ok_set; assumption.
  - apply hist_ok_set, B.
  - exact M.
  - apply (tasks_ok_set_same _ _ _ q); assumption.
Qed.

Lemma inv_page_ok (s : ui I C) k p : ui_inv s -> page_find (u_pages s) k = Some p -> page_ok p.
Proof. intros H. apply H. Qed.

Lemma cur_page_find (s : ui I C) p : cur_page s = Some p -> exists k, cur_pid s = Some k /\ page_find (u_pages s) k = Some p.
Proof. unfold cur_page. destruct (cur_pid s) as [k|]; [eauto|discriminate]. Qed.

Lemma inv_update_cur_page (s : ui I C) (g : page I C -> page I C) :
  ui_inv s ->
  (forall p, page_ok p -> page_ok (g p) /\ pg_loading_up (g p) = pg_loading_up p /\
                          pg_loading_down (g p) = pg_loading_down p) ->
  ui_inv (update_cur_page s g).
Proof.
  intros H Hg. unfold update_cur_page. destruct (cur_pid s) as [k|] eqn:Ek; [|exact H].
  destruct (cur_page s) as [p|] eqn:Ep; [|exact H].
  unfold cur_page in Ep. rewrite Ek in Ep.
  destruct (Hg p (inv_page_ok s k p H Ep)) as (G1 & G2 & G3).
  apply (inv_set_page s k p); assumption.
Qed.

(* starting a loader *)
Definition start_up (s : ui I C) (k : nat) (p : page I C) : ui I C :=
  spawn (with_pages s (page_set (u_pages s) k
     (mkpage (pg_feed p) (pg_frontier p) true (pg_children p) (pg_basepoint p) (pg_loading_down p)))) (TLoadUp k).
Definition start_down (s : ui I C) (k : nat) (p : page I C) : ui I C :=
  spawn (with_pages s (page_set (u_pages s) k
     (mkpage (pg_feed p) (pg_frontier p) (pg_loading_up p) (pg_children p) (pg_basepoint p) true))) (TLoadDown k).

Lemma inv_start_up (s : ui I C) k p :
  ui_inv s -> page_find (u_pages s) k = Some p -> pg_loading_up p = false -> pg_frontier p <> None ->
  ui_inv (start_up s k p).
Proof.
  intros H Hp Eu Hf. pose proof (inv_page_ok s k p H Hp) as (P1 & P2 & P3).
  apply ui_inv_parts in H. apply ui_inv_parts.
  cbn [start_up spawn with_pages u_pages u_hist u_mode u_tasks]. destruct H as (A & B & M & D).
  assert (PO : pages_ok (page_set (u_pages s) k
     (mkpage (pg_feed p) (pg_frontier p) true (pg_children p) (pg_basepoint p) (pg_loading_down p)))).
  { apply pages_ok_set; [exact A|]. repeat split; cbn [pg_feed pg_loading_up pg_frontier pg_loading_down pg_children]; auto. }
  split; [exact PO|]. split; [apply hist_ok_set, B|]. split; [exact M|].
  intros k'. rewrite count_up_app, count_down_app, count_up_one, count_down_one, fl_up_set, fl_down_set, Hp.
  cbn [is_up is_down pg_loading_up pg_loading_down b2n]. destruct (D k') as [D1 D2].
  destruct (Nat.eqb_spec k' k) as [E|E].
  - subst k'. unfold fl_up, fl_down in D1, D2. rewrite Hp in D1, D2. rewrite Eu in D1. cbn [b2n] in *. ulia.
  - cbn [b2n]. ulia.
Qed.

Lemma inv_start_down (s : ui I C) k p :
  ui_inv s -> page_find (u_pages s) k = Some p -> pg_loading_down p = false -> pg_children p <> None ->
  ui_inv (start_down s k p).
Proof.
  intros H Hp Eu Hf. pose proof (inv_page_ok s k p H Hp) as (P1 & P2 & P3).
  apply ui_inv_parts in H. apply ui_inv_parts.
  cbn [start_down spawn with_pages u_pages u_hist u_mode u_tasks]. destruct H as (A & B & M & D).
  assert (PO : pages_ok (page_set (u_pages s) k
     (mkpage (pg_feed p) (pg_frontier p) (pg_loading_up p) (pg_children p) (pg_basepoint p) true))).
  { apply pages_ok_set; [exact A|]. repeat split; cbn [pg_feed pg_loading_up pg_frontier pg_loading_down pg_children]; auto. }
  split; [exact PO|]. split; [apply hist_ok_set, B|]. split; [exact M|].
  intros k'. rewrite count_up_app, count_down_app, count_up_one, count_down_one, fl_up_set, fl_down_set, Hp.
  cbn [is_up is_down pg_loading_up pg_loading_down b2n]. destruct (D k') as [D1 D2].
  destruct (Nat.eqb_spec k' k) as [E|E].
  - subst k'. unfold fl_up, fl_down in D1, D2. rewrite Hp in D1, D2. rewrite Eu in D2. cbn [b2n] in *. ulia.
  - cbn [b2n]. ulia.
Qed.


(* loadSurroundings, as "maybe start the upward loader, then maybe start the downward loader" *)
Definition want_up (p : page I C) : bool :=
  negb (pg_loading_up p) && negb (f_contains (pg_feed p) (- preload)) &&
  match pg_frontier p with Some _ => true | None => false end.
Definition want_down (p : page I C) : bool :=
  negb (pg_loading_down p) && negb (f_contains (pg_feed p) preload) &&
  match pg_children p with Some _ => true | None => false end.
Definition mark_up (p : page I C) : page I C :=
  mkpage (pg_feed p) (pg_frontier p) true (pg_children p) (pg_basepoint p) (pg_loading_down p).

Lemma lsur_eq (s : ui I C) k p : cur_pid s = Some k -> page_find (u_pages s) k = Some p ->
  lsur s =
  let s1 := if want_up p then start_up s k p else s in
  let p1 := if want_up p then mark_up p else p in
  if want_down p1 then start_down s1 k p1 else s1.
Proof.
  intros Hk Hp. unfold load_surroundings, cur_page. rewrite Hk, Hp. cbv zeta.
  fold (want_up p). destruct (want_up p).
  - match goal with |- (if ?d then _ else _) = _ => change d with (want_down (mark_up p)) end.
    destruct (want_down (mark_up p)); reflexivity.
  - match goal with |- (if ?d then _ else _) = _ => change d with (want_down p) end.
    destruct (want_down p); reflexivity.
Qed.

Lemma lsur_none (s : ui I C) : cur_page s = None -> lsur s = s.
Proof.
  intros H. unfold load_surroundings. rewrite H. destruct (cur_pid s); reflexivity.
Qed.

Lemma want_up_true p : want_up p = true -> pg_loading_up p = false /\ pg_frontier p <> None.
Proof.
  unfold want_up. intros H. apply andb_true_iff in H as [H H3]. apply andb_true_iff in H as [H1 H2].
  split; [destruct (pg_loading_up p); [discriminate|reflexivity]|].
  destruct (pg_frontier p); [discriminate|discriminate].
Qed.
Lemma want_down_true p : want_down p = true -> pg_loading_down p = false /\ pg_children p <> None.
Proof.
  unfold want_down. intros H. apply andb_true_iff in H as [H H3]. apply andb_true_iff in H as [H1 H2].
  split; [destruct (pg_loading_down p); [discriminate|reflexivity]|].
  destruct (pg_children p); [discriminate|discriminate].
Qed.

Lemma inv_lsur (s : ui I C) : ui_inv s -> ui_inv (lsur s).
Proof.
  intros H. destruct (cur_page s) as [p|] eqn:Ep; [|rewrite lsur_none by exact Ep; exact H].
  destruct (cur_page_find s p Ep) as (k & Hk & Hp). rewrite (lsur_eq s k p Hk Hp). cbv zeta.
  assert (H1 : ui_inv (if want_up p then start_up s k p else s) /\
               page_find (u_pages (if want_up p then start_up s k p else s)) k =
                 Some (if want_up p then mark_up p else p)).
  { destruct (want_up p) eqn:Eu.
    - destruct (want_up_true p Eu) as [U1 U2]. split; [apply inv_start_up; assumption|].
      cbn [start_up spawn with_pages u_pages]. apply (page_find_set_same _ _ p), Hp.
    - split; assumption. }
  destruct H1 as [H1 H2].
  destruct (want_down (if want_up p then mark_up p else p)) eqn:Ed; [|exact H1].
  destruct (want_down_true _ Ed) as [D1 D2]. apply inv_start_down; assumption.
Qed.

(* what loadSurroundings leaves alone *)
Lemma lsur_keeps (s : ui I C) :
  u_hist (lsur s) = u_hist s /\ u_mode (lsur s) = u_mode s /\ u_buffer (lsur s) = u_buffer s /\
  u_width (lsur s) = u_width s /\ u_height (lsur s) = u_height s /\
  length (u_pages (lsur s)) = length (u_pages s) /\
  (forall k0, cur_pid s <> Some k0 -> page_find (u_pages (lsur s)) k0 = page_find (u_pages s) k0) /\
  (forall k0 p0, page_find (u_pages s) k0 = Some p0 ->
     exists p0', page_find (u_pages (lsur s)) k0 = Some p0' /\ pg_feed p0' = pg_feed p0).
Proof.
  destruct (cur_page s) as [p|] eqn:Ep.
  2:{ rewrite lsur_none by exact Ep. repeat (split; [reflexivity|]). intros k0 p0 H0. eauto. }
  destruct (cur_page_find s p Ep) as (k & Hk & Hp). rewrite (lsur_eq s k p Hk Hp). cbv zeta.
  set (s1 := if want_up p then start_up s k p else s).
  set (p1 := if want_up p then mark_up p else p).
  assert (A : u_hist s1 = u_hist s /\ u_mode s1 = u_mode s /\ u_buffer s1 = u_buffer s /\
              u_width s1 = u_width s /\ u_height s1 = u_height s /\ length (u_pages s1) = length (u_pages s) /\
              (forall k0, k0 <> k -> page_find (u_pages s1) k0 = page_find (u_pages s) k0) /\
              page_find (u_pages s1) k = Some p1 /\ pg_feed p1 = pg_feed p).
  { subst s1 p1. destruct (want_up p).
    - cbn [start_up spawn with_pages u_pages u_hist u_mode u_buffer u_width u_height mark_up pg_feed].
      do 5 (split; [reflexivity|]). split; [apply page_set_length|].
      split; [intros k0 Hne; apply page_find_set_other, Hne|]. split; [|reflexivity].
      apply (page_find_set_same _ _ p), Hp.
    - do 5 (split; [reflexivity|]). split; [reflexivity|]. split; [reflexivity|]. split; [exact Hp|reflexivity]. }
  destruct A as (A1 & A2 & A3 & A4 & A5 & A6 & A7 & A8 & A9).
  assert (B : let s2 := if want_down p1 then start_down s1 k p1 else s1 in
              u_hist s2 = u_hist s1 /\ u_mode s2 = u_mode s1 /\ u_buffer s2 = u_buffer s1 /\
              u_width s2 = u_width s1 /\ u_height s2 = u_height s1 /\ length (u_pages s2) = length (u_pages s1) /\
              (forall k0, k0 <> k -> page_find (u_pages s2) k0 = page_find (u_pages s1) k0) /\
              exists p2, page_find (u_pages s2) k = Some p2 /\ pg_feed p2 = pg_feed p1).
  { cbv zeta. destruct (want_down p1).
    - cbn [start_down spawn with_pages u_pages u_hist u_mode u_buffer u_width u_height].
      do 5 (split; [reflexivity|]). split; [apply page_set_length|].
      split; [intros k0 Hne; apply page_find_set_other, Hne|].
      eexists. split; [apply (page_find_set_same _ _ p1), A8|reflexivity].
    - do 5 (split; [reflexivity|]). split; [reflexivity|]. split; [reflexivity|]. eauto. }
  cbv zeta in B. destruct B as (B1 & B2 & B3 & B4 & B5 & B6 & B7 & p2 & B8 & B9).
  split; [congruence|]. split; [congruence|]. split; [congruence|]. split; [congruence|].
  split; [congruence|]. split; [congruence|]. split.
  - intros k0 Hne. assert (k0 <> k) by congruence. rewrite B7, A7 by assumption. reflexivity.
  - intros k0 p0 H0. destruct (Nat.eq_dec k0 k) as [E|E].
    + subst k0. exists p2. split; [exact B8|]. congruence.
    + exists p0. split; [|reflexivity]. rewrite B7, A7 by assumption. exact H0.
Qed.

Lemma lsur_hist (s : ui I C) : u_hist (lsur s) = u_hist s.
Proof. apply lsur_keeps. Qed.
Lemma lsur_mode (s : ui I C) : u_mode (lsur s) = u_mode s.
Proof. apply lsur_keeps. Qed.

(* h.Add(page) *)
Lemma inv_add_page (s : ui I C) p :
  ui_inv s -> page_ok p -> pg_loading_up p = false -> pg_loading_down p = false -> ui_inv (add_page s p).
Proof.
  intros H Hp Eu Ed. apply ui_inv_parts in H. apply ui_inv_parts.
  cbn [add_page with_hist with_pages u_pages u_hist u_mode u_tasks]. destruct H as (A & B & M & D). split4.
  - apply pages_ok_add; assumption.
  - apply hist_ok_add; assumption.
  - intros _. apply h_add_nonempty.
  - apply tasks_ok_add; assumption.
Qed.

Lemma add_page_hist (s : ui I C) p : h_elems (u_hist (add_page s p)) <> [].
Proof. cbn [add_page with_hist u_hist]. apply h_add_nonempty. Qed.

Lemma page_ok_item (i : I) : page_ok (ipage i).
Proof.
  unfold item_page, page_ok. cbn [pg_feed pg_loading_up pg_loading_down].
  split; [apply feed_ok_create|]. split; discriminate.
Qed.
Lemma page_ok_list (l : list I) (next : option C) (base : nat) :
  page_ok (mkpage (f_create_list l) None false next base false).
Proof.
  unfold page_ok. cbn [pg_feed pg_loading_up pg_loading_down].
  split; [apply feed_ok_create_list|]. split; discriminate.
Qed.

Lemma inv_sw_item (s : ui I C) i : ui_inv s -> ui_inv (sw_item s i).
Proof.
  intros H. unfold switch_item. apply inv_lsur, inv_add_page; [exact H|apply page_ok_item|reflexivity|reflexivity].
Qed.
Lemma sw_item_hist (s : ui I C) i : h_elems (u_hist (sw_item s i)) <> [].
Proof. unfold switch_item. rewrite lsur_hist. apply add_page_hist. Qed.
Lemma sw_item_mode (s : ui I C) i : u_mode (sw_item s i) = u_mode s.
Proof. unfold switch_item. rewrite lsur_mode. reflexivity. Qed.

Lemma inv_sw_items (s : ui I C) l : ui_inv s -> ui_inv (sw_items s l).
Proof.
  intros H. unfold switch_items. destruct l as [|i [|j l]]; [exact H| |].
  - apply inv_lsur, inv_add_page; [exact H|apply page_ok_item|reflexivity|reflexivity].
  - apply inv_lsur, inv_add_page; [exact H|apply page_ok_list|reflexivity|reflexivity].
Qed.
Lemma sw_items_mode (s : ui I C) l : u_mode (sw_items s l) = u_mode s.
Proof. unfold switch_items. destruct l as [|i [|j l]]; [reflexivity| |]; rewrite lsur_mode; reflexivity. Qed.

Lemma inv_sw_coll (s : ui I C) c : ui_inv s -> ui_inv (sw_coll s c) /\ h_elems (u_hist (sw_coll s c)) <> [].
Proof.
  intros H. unfold switch_coll.
  set (s1 := match u_mode s with MLoading => s | _ => frame (set_mode s MLoading []) end).
  assert (H1 : ui_inv s1).
  { subst s1. destruct (u_mode s); try exact H; apply inv_frame, inv_set_mode; try exact H; congruence. }
  clearbody s1. destruct (harvest c (Z.to_nat (preload + 1)) 0) as [[items next] base].
  split.
  - apply inv_lsur, inv_set_mode.
    + apply inv_add_page; [exact H1|apply page_ok_list|reflexivity|reflexivity].
    + intros _. apply add_page_hist.
  - rewrite lsur_hist. cbn [set_mode u_hist]. apply add_page_hist.
Qed.

Lemma inv_sw_opened (s : ui I C) r : ui_inv s -> ui_inv (sw_opened s r) /\ h_elems (u_hist (sw_opened s r)) <> [].
Proof.
  intros H. destruct r as [i|c]; cbn [switch_opened].
  - split; [apply inv_sw_item, H|apply sw_item_hist].
  - apply inv_sw_coll, H.
Qed.

Lemma inv_open_ext (s : ui I C) link : ui_inv s -> u_mode s <> MLoading -> ui_inv (open_externally s link).
Proof.
  intros H Hm. unfold open_externally. apply inv_spawn; [|reflexivity].
  apply inv_frame, inv_set_mode; [exact H|]. intros _. apply (inv_nonloading s H Hm).
Qed.
Lemma inv_open_int (s : ui I C) link : ui_inv s -> ui_inv (open_int s link).
Proof.
  intros H. unfold open_internally. apply inv_spawn; [|reflexivity].
  apply inv_frame, inv_set_mode; [exact H|]. congruence.
Qed.

Lemma inv_problem (s : ui I C) msg : ui_inv s -> u_mode s <> MLoading ->
  ui_inv (set_mode (frame (set_mode s MProblem msg)) MNormal []).
Proof.
  intros H Hm. pose proof (inv_nonloading s H Hm) as Hne.
  apply inv_set_mode; [apply inv_frame, inv_set_mode; [exact H|intros _; exact Hne]|intros _; exact Hne].
Qed.

Lemma inv_rcmd (s : ui I C) name arg : ui_inv s -> u_mode s <> MLoading -> ui_inv (rcmd s name arg).
Proof.
  intros H Hm. unfold run_command.
  destruct (text_eqb name s_open).
  - apply inv_spawn; [|reflexivity]. apply inv_frame, inv_set_mode; [exact H|congruence].
  - destruct (text_eqb name s_feed).
    + destruct (feed_named arg) as [c|].
      * apply inv_spawn; [|reflexivity]. apply inv_frame, inv_set_mode; [exact H|congruence].
      * apply inv_problem; assumption.
    + apply inv_problem; assumption.
Qed.

Lemma move_page_ok (o : fop I) (p : page I C) : page_ok p ->
  page_ok (mkpage (f_step (pg_feed p) o) (pg_frontier p) (pg_loading_up p) (pg_children p) (pg_basepoint p) (pg_loading_down p)) /\
  pg_loading_up (mkpage (f_step (pg_feed p) o) (pg_frontier p) (pg_loading_up p) (pg_children p) (pg_basepoint p) (pg_loading_down p)) = pg_loading_up p /\
  pg_loading_down (mkpage (f_step (pg_feed p) o) (pg_frontier p) (pg_loading_up p) (pg_children p) (pg_basepoint p) (pg_loading_down p)) = pg_loading_down p.
Proof.
  intros (P1 & P2 & P3). split; [|split; reflexivity].
  split; [apply feed_ok_step, P1|]. split; assumption.
Qed.

Lemma inv_nkey (s : ui I C) key : ui_inv s -> u_mode s <> MLoading -> ui_inv (nkey s key).
Proof.
  intros H Hm. unfold normal_key. destruct (cur_item s) as [i|].
  2:{ destruct (N.eqb key 104); [apply inv_frame, inv_back, H|].
      destruct (N.eqb key 108); [apply inv_frame, inv_forward, H|]. apply inv_frame, H. }
  apply inv_frame.
  destruct (N.eqb key 107); [apply inv_lsur, inv_update_cur_page; [exact H|apply (move_page_ok FUp)]|].
  destruct (N.eqb key 106); [apply inv_lsur, inv_update_cur_page; [exact H|apply (move_page_ok FDown)]|].
  destruct (N.eqb key 103); [apply inv_update_cur_page; [exact H|apply (move_page_ok FCenter)]|].
  destruct (N.eqb key 104); [apply inv_back, H|].
  destruct (N.eqb key 108); [apply inv_forward, H|].
  destruct (N.eqb key 32); [apply inv_sw_item, H|].
  destruct (N.eqb key 99); [destruct (creators i); [apply inv_sw_items, H|exact H]|].
  destruct (N.eqb key 114); [destruct (recipients i); [apply inv_sw_items, H|exact H]|].
  destruct (N.eqb key 97); [destruct (actor_of i); [apply inv_sw_item, H|exact H]|].
  destruct (N.eqb key 111); [destruct (media i); [apply inv_open_ext; assumption|exact H]|].
  destruct (N.eqb key 112); [destruct (pfp i); [apply inv_open_ext; assumption|exact H]|].
  destruct (N.eqb key 98); [destruct (banner i); [apply inv_open_ext; assumption|exact H]|].
  exact H.
Qed.

(* ---- Update, cut into its stages ---- *)
Definition upd_select (s : ui I C) (key : N) : ui I C :=
  if N.eqb key 46 || N.eqb key K_ENTER then
    let target := match atoi (u_buffer s), cur_item s with
                  | Some n, Some i => select_link i n
                  | _, _ => None
                  end in
    match target with
    | None => frame (set_mode s MNormal [])
    | Some link => if N.eqb key 46 then open_int s link else open_externally s link
    end
  else nkey (set_mode s MNormal []) key.

Definition upd_other (s : ui I C) (key : N) (m : mode) : ui I C :=
  if N.eqb key 58 then frame (set_mode s MCommand [])
  else if N.leb 48 key && N.leb key 57 then
    frame (set_mode s MSelection ((match m with MSelection => u_buffer s | _ => [] end) ++ [key]))
  else match m with MSelection => upd_select s key | _ => nkey s key end.

Definition upd_command (s : ui I C) (key : N) : ui I C :=
  if N.eqb key K_ENTER then
    match split_space (u_buffer s) with
    | Some (name, arg) => rcmd s name arg
    | None => frame (set_mode s MNormal [])
    end
  else frame (set_mode s MCommand (u_buffer s ++ [key])).

Definition upd_body (s : ui I C) (key : N) (m : mode) : ui I C :=
  if N.eqb key K_ESC then frame (set_mode s MNormal [])
  else if N.eqb key K_BS then
    match u_buffer s with
    | [] => frame (set_mode s MNormal [])
    | b => let b' := removelast b in
           frame (set_mode s (match b', m with [], MSelection => MNormal | _, _ => m end) b')
    end
  else match m with MCommand => upd_command s key | _ => upd_other s key m end.

Lemma upd_unfold (s : ui I C) key : u_mode s <> MLoading -> upd s key = upd_body s key (u_mode s).
Proof.
  intros Hm. unfold update, upd_body, upd_command, upd_other, upd_select.
  destruct (u_mode s); [congruence|reflexivity..].
Qed.

Lemma inv_upd_select (s : ui I C) key : ui_inv s -> u_mode s <> MLoading -> ui_inv (upd_select s key).
Proof.
  intros H Hm. pose proof (inv_nonloading s H Hm) as Hne. unfold upd_select.
  destruct (N.eqb key 46 || N.eqb key K_ENTER).
  - cbv zeta. destruct (match atoi (u_buffer s) with Some n => match cur_item s with Some i => select_link i n | None => None end | None => None end) as [link|].
    + destruct (N.eqb key 46); [apply inv_open_int, H|apply inv_open_ext; assumption].
    + apply inv_frame, inv_set_mode; [exact H|intros _; exact Hne].
  - apply inv_nkey; [apply inv_set_mode; [exact H|intros _; exact Hne]|]. cbn [set_mode u_mode]. congruence.
Qed.

Lemma inv_upd_other (s : ui I C) key m : ui_inv s -> u_mode s <> MLoading -> ui_inv (upd_other s key m).
Proof.
  intros H Hm. pose proof (inv_nonloading s H Hm) as Hne. unfold upd_other.
  destruct (N.eqb key 58); [apply inv_frame, inv_set_mode; [exact H|intros _; exact Hne]|].
  destruct (N.leb 48 key && N.leb key 57); [apply inv_frame, inv_set_mode; [exact H|intros _; exact Hne]|].
  destruct m; try (apply inv_nkey; assumption). apply inv_upd_select; assumption.
Qed.

Lemma inv_upd_command (s : ui I C) key : ui_inv s -> u_mode s <> MLoading -> ui_inv (upd_command s key).
Proof.
  intros H Hm. pose proof (inv_nonloading s H Hm) as Hne. unfold upd_command.
  destruct (N.eqb key K_ENTER).
  - destruct (split_space (u_buffer s)) as [[name arg]|].
    + apply inv_rcmd; assumption.
    + apply inv_frame, inv_set_mode; [exact H|intros _; exact Hne].
  - apply inv_frame, inv_set_mode; [exact H|intros _; exact Hne].
Qed.

Theorem update_inv_fact : forall (s : ui I C) (key : N), ui_inv s -> ui_inv (upd s key).
Proof.
  intros s key H. destruct (u_mode s) eqn:Em; try (unfold update; rewrite Em; exact H).
  all: assert (Hm : u_mode s <> MLoading) by congruence;
       pose proof (inv_nonloading s H Hm) as Hne;
       rewrite (upd_unfold s key Hm); unfold upd_body;
       (destruct (N.eqb key K_ESC); [apply inv_frame, inv_set_mode; [exact H|intros _; exact Hne]|]);
       (destruct (N.eqb key K_BS);
        [destruct (u_buffer s); cbv zeta; apply inv_frame, inv_set_mode; try exact H; intros _; exact Hne|]);
       rewrite Em; first [apply inv_upd_command; assumption|apply inv_upd_other; assumption].
Qed.

(* ---- a background task completes: any pending one, not only the oldest ---- *)
Definition remove_task (s : ui I C) (pre post : list (task I C)) : ui I C :=
  mkui (u_pages s) (u_hist s) (u_mode s) (u_buffer s) (u_width s) (u_height s) (pre ++ post) (u_frames s).

Lemma inv_remove_other (s : ui I C) pre t post :
  ui_inv s -> u_tasks s = pre ++ t :: post -> is_loader t = false -> ui_inv (remove_task s pre post).
Proof.
  intros H Ht Hl. apply ui_inv_parts in H. apply ui_inv_parts.
  cbn [remove_task u_pages u_hist u_mode u_tasks]. destruct H as (A & B & M & D). split4; try assumption.
  rewrite Ht in D. apply (tasks_ok_remove _ _ t); assumption.
Qed.

Lemma inv_runt_other (s : ui I C) t : ui_inv s -> is_loader t = false -> ui_inv (runt s t).
Proof.
  intros H Hl. destruct t as [k|k|r|c|link]; try discriminate; cbn [run_task].
  - destruct (inv_sw_opened s r H) as [A B]. apply inv_frame, inv_set_mode; [exact A|intros _; exact B].
  - destruct (inv_sw_coll s c H) as [A B]. apply inv_frame, inv_set_mode; [exact A|intros _; exact B].
  - destruct (u_mode s) eqn:Em; try exact H.
    assert (Hm : u_mode s <> MLoading) by congruence. pose proof (inv_nonloading s H Hm) as Hne.
    destruct (hook_fails link) as [out|].
    + apply inv_problem; assumption.
    + apply inv_frame, inv_set_mode; [exact H|intros _; exact Hne].
Qed.

Theorem run_task_inv_fact : forall (s : ui I C) (t : task I C) (pre post : list (task I C)),
  ui_inv s -> u_tasks s = pre ++ t :: post -> ui_inv (runt (remove_task s pre post) t).
Proof.
  intros s t pre post H Ht.
  destruct (is_loader t) eqn:El.
  2:{ apply inv_runt_other; [|exact El]. apply (inv_remove_other s pre t post); assumption. }
  apply ui_inv_parts in H. destruct H as (A & B & M & D). rewrite Ht in D.
  destruct t as [k|k|r|c|link]; try discriminate; cbn [run_task remove_task u_pages].
  - (* the upward loader of page k *)
    pose proof (D k) as [Dk _]. rewrite count_up_mid in Dk. cbn [is_up] in Dk. rewrite Nat.eqb_refl in Dk.
    cbn [b2n] in Dk. unfold fl_up in Dk.
    destruct (page_find (u_pages s) k) as [p|] eqn:Ep; [|ulia].
    destruct (pg_loading_up p) eqn:Eu; [|cbn [b2n] in Dk; ulia].
    pose proof (proj1 A k p Ep) as (P1 & P2 & P3).
    destruct (pg_frontier p) as [fr|] eqn:Ef; [|exfalso; apply (P2 Eu); reflexivity].
    destruct (parents fr (Z.to_nat preload)) as [ps nf].
    apply ui_inv_parts. cbn [frame with_pages u_pages u_hist u_mode u_tasks]. split4.
    + apply pages_ok_set; [exact A|]. split; [apply (feed_ok_step _ (FPrepend ps)), P1|].
      cbn [pg_loading_up pg_loading_down pg_children]. split; [discriminate|exact P3].
    + apply hist_ok_set, B.
    + exact M.
    + intros k'. cbn [remove_task u_tasks]. rewrite fl_up_set, fl_down_set, Ep. cbn [pg_loading_up pg_loading_down].
      destruct (D k') as [D1 D2]. rewrite count_up_mid in D1. rewrite count_down_mid in D2.
      cbn [is_up is_down b2n] in D1, D2. unfold fl_up, fl_down in D1, D2.
      destruct (Nat.eqb_spec k' k) as [E|E].
      * subst k'. rewrite Ep, ?Eu in D1, D2. cbn [b2n] in *. ulia.
      * cbn [b2n] in *. unfold fl_up, fl_down. ulia.
  - (* the downward loader of page k *)
    pose proof (D k) as [_ Dk]. rewrite count_down_mid in Dk. cbn [is_down] in Dk. rewrite Nat.eqb_refl in Dk.
    cbn [b2n] in Dk. unfold fl_down in Dk.
    destruct (page_find (u_pages s) k) as [p|] eqn:Ep; [|ulia].
    destruct (pg_loading_down p) eqn:Eu; [|cbn [b2n] in Dk; ulia].
    pose proof (proj1 A k p Ep) as (P1 & P2 & P3).
    destruct (pg_children p) as [c|] eqn:Ef; [|exfalso; apply (P3 Eu); reflexivity].
    destruct (harvest c (Z.to_nat preload) (pg_basepoint p)) as [[items next] base].
    apply ui_inv_parts. cbn [frame with_pages u_pages u_hist u_mode u_tasks]. split4.
    + apply pages_ok_set; [exact A|]. split; [apply (feed_ok_step _ (FAppend items)), P1|].
      cbn [pg_loading_up pg_loading_down pg_frontier]. split; [exact P2|discriminate].
    + apply hist_ok_set, B.
    + exact M.
    + intros k'. cbn [remove_task u_tasks]. rewrite fl_up_set, fl_down_set, Ep. cbn [pg_loading_up pg_loading_down].
      destruct (D k') as [D1 D2]. rewrite count_up_mid in D1. rewrite count_down_mid in D2.
      cbn [is_up is_down b2n] in D1, D2. unfold fl_up, fl_down in D1, D2.
      destruct (Nat.eqb_spec k' k) as [E|E].
      * subst k'. rewrite Ep, ?Eu in D1, D2. cbn [b2n] in *. ulia.
      * cbn [b2n] in *. unfold fl_up, fl_down. ulia.
Qed.

Theorem resize_inv_fact : forall (s : ui I C) (w h : Z), ui_inv s -> ui_inv (resize s w h).
Proof.
  intros s w h H. unfold resize. destruct (Z.eqb (u_width s) w && Z.eqb (u_height s) h); exact H.
Qed.


(* ================================================================== U4: the view *)
(* Apply never introduces a newline *)
Lemma apply_cells_no_nl (style : text) : has_nl style = false ->
  forall cs, has_nl (collapse cs) = false -> has_nl (apply_cells style cs) = false.
Proof.
  intros Hs. induction cs as [|c cs IH]; intros H; [reflexivity|].
  rewrite collapse_cons, has_nl_app in H. apply orb_false_iff in H as [Hc Hr].
  unfold full in Hc. rewrite !has_nl_app in Hc.
  apply orb_false_iff in Hc as [Hp Hc]. apply orb_false_iff in Hc as [Hl _].
  unfold has_nl in Hl. cbn [existsb] in Hl. rewrite orb_false_r in Hl.
  unfold apply_cells. cbn [flat_map]. fold (apply_cells style cs). rewrite Hl.
  rewrite !has_nl_app, (IH Hr), Hs, Hp.
  unfold has_nl at 3. cbn [existsb]. rewrite Hl. reflexivity.
Qed.

Lemma apply_no_nl (t style : text) : has_nl t = false -> has_nl style = false -> has_nl (apply t style) = false.
Proof.
  intros Ht Hs. unfold apply. apply apply_cells_no_nl; [exact Hs|]. rewrite expand_tiles_fact. exact Ht.
Qed.

Lemma highlight_no_nl (line : text) :
  has_nl (c_highlight col) = false -> has_nl line = false -> has_nl (highlight col line) = false.
Proof.
  intros Hc Hl. unfold highlight, background. apply apply_no_nl; [exact Hl|].
  rewrite has_nl_app, Hc. reflexivity.
Qed.

(* the status line *)
Definition view_tail (out footer : text) (w : Z) : res text :=
  match footer with
  | [] => Ok out
  | _ => match set_length footer w ELLIPSIS with
         | Panic => Panic
         | Ok line => replace_last_line out (highlight col line)
         end
  end.

Lemma view_tail_height (out footer : text) (w h : Z) (t : text) :
  height out = h -> 2 <= h -> view_tail out footer w = Ok t -> height t = h.
Proof.
  intros Ho Hh H. unfold view_tail in H. destruct footer as [|c footer]; [injection H as <-; exact Ho|].
  destruct (set_length (c :: footer) w ELLIPSIS) as [line|]; [|discriminate].
  apply replace_last_line_fact in H as [H _]; ulia.
Qed.

Lemma view_tail_ok (out footer : text) (w : Z) :
  0 <= w -> has_nl (c_highlight col) = false -> exists t, view_tail out footer w = Ok t.
Proof.
  intros Hw Hc. unfold view_tail. destruct footer as [|c footer]; [eauto|].
  destruct (set_length_ok_fact (c :: footer) ELLIPSIS w Hw) as [line E]. rewrite E.
  apply replace_last_line_ok_fact, highlight_no_nl; [exact Hc|].
  apply (set_length_one_line_fact (c :: footer) ELLIPSIS line w); [reflexivity|exact E].
Qed.

(* Every frame is exactly as tall as the terminal: in all six modes, with or without a status line. *)
Theorem view_height_fact : forall (s : ui I C) (t : text),
  2 <= u_height s -> vw s = Ok t -> height t = u_height s.
Proof.
  intros s t Hh H. unfold view in H. destruct (u_mode s).
  1:{ injection H as <-. apply center_height_fact. ulia. }
  all: destruct (cur_page s) as [p|]; [|discriminate];
       destruct (view_entries I C full_text preview_text p (u_width s) ([], [], []) (window preload)) as [[[top center] bottom]|];
       [|discriminate]; cbv zeta in H.
  all: try (injection H as <-; apply center_height_fact; ulia).
  all: match type of H with
       | match ?f with [] => Ok ?o | _ => _ end = _ =>
           change (view_tail o f (u_width s) = Ok t) in H;
           apply (view_tail_height o f (u_width s) (u_height s) t); [apply center_height_fact; ulia|exact Hh|exact H]
       end.
Qed.

Lemma view_entry_ok (p : page I C) (w : Z) (acc : text * text * text) (i : Z) :
  feed_ok (pg_feed p) -> exists acc', view_entry I C full_text preview_text p w acc i = Ok acc'.
Proof.
  intros Hf. unfold view_entry. destruct acc as [[top center] bottom]. cbv zeta.
  destruct (f_contains (pg_feed p) i) eqn:Ec; cbn [negb]; [|eauto].
  destruct (feed_ok_get _ i Hf Ec) as [it E]. rewrite E.
  destruct (Z.eqb i 0); [eauto|]. destruct (Z.ltb i 0); eauto.
Qed.

Lemma view_entries_ok (p : page I C) (w : Z) (offsets : list Z) : feed_ok (pg_feed p) ->
  forall acc, exists acc', view_entries I C full_text preview_text p w acc offsets = Ok acc'.
Proof.
  intros Hf. induction offsets as [|i r IH]; intros acc; cbn [view_entries]; [eauto|].
  destruct (view_entry_ok p w acc i Hf) as [acc' E]. rewrite E. apply IH.
Qed.

(* outside the loading screen there is a current page *)
Lemma inv_cur_page (s : ui I C) : ui_inv s -> u_mode s <> MLoading ->
  exists k p, cur_pid s = Some k /\ page_find (u_pages s) k = Some p /\ cur_page s = Some p.
Proof.
  intros H Hm. pose proof (inv_nonloading s H Hm) as Hne. apply ui_inv_parts in H.
  destruct H as (A & (B1 & B2) & _ & _). destruct B2 as [[B2 _]|B2]; [contradiction|].
  unfold cur_page, cur_pid, h_current.
  destruct (nth_error (h_elems (u_hist s)) (h_index (u_hist s))) as [k|] eqn:E.
  - destruct (B1 k (nth_error_In _ _ E)) as [p Hp]. exists k, p. rewrite Hp. auto.
  - apply nth_error_None in E. ulia.
Qed.

(* The view never panics on a state satisfying the invariant (the highlight colour, a "r;g;b"
   triple, contains no newline). *)
Theorem view_no_panic_fact : forall (s : ui I C),
  ui_inv s -> 0 <= u_width s -> has_nl (c_highlight col) = false -> exists t, vw s = Ok t.
Proof.
  intros s H Hw Hc. unfold view. destruct (u_mode s) eqn:Em; [eauto|..].
  all: assert (Hm : u_mode s <> MLoading) by congruence;
       destruct (inv_cur_page s H Hm) as (k & p & Hk & Hp & Ecp); rewrite Ecp;
       destruct (view_entries_ok p (u_width s) (window preload) (proj1 (inv_page_ok s k p H Hp)) ([], [], []))
         as [[[top center] bottom] E]; rewrite E; cbv zeta;
       first [ solve [eauto] | apply (view_tail_ok _ _ _ Hw Hc) ].
Qed.


(* ================================================================== U3: what the keys do *)
Theorem loading_ignores_keys_fact : forall (s : ui I C) (key : N), u_mode s = MLoading -> upd s key = s.
Proof. intros s key H. unfold update. rewrite H. reflexivity. Qed.

Theorem esc_cancels_fact : forall (s : ui I C), u_mode s <> MLoading ->
  let s' := upd s 27%N in
  u_mode s' = MNormal /\ u_buffer s' = [] /\ u_pages s' = u_pages s /\ u_hist s' = u_hist s /\
  u_tasks s' = u_tasks s.
Proof.
  intros s Hm s'. subst s'. rewrite (upd_unfold s 27%N Hm). unfold upd_body.
  change (N.eqb 27 K_ESC) with true. cbv iota. cbn [frame set_mode u_mode u_buffer u_pages u_hist u_tasks].
  repeat split; reflexivity.
Qed.

(* a key that no mode-independent rule takes, in a mode other than command mode *)
Lemma upd_to_other (s : ui I C) (key : N) : u_mode s <> MLoading -> u_mode s <> MCommand ->
  N.eqb key K_ESC = false -> N.eqb key K_BS = false -> upd s key = upd_other s key (u_mode s).
Proof.
  intros Hm Hc E1 E2. rewrite (upd_unfold s key Hm). unfold upd_body. rewrite E1, E2.
  destruct (u_mode s); try reflexivity; congruence.
Qed.

Theorem colon_enters_command_fact : forall (s : ui I C),
  (u_mode s = MNormal \/ u_mode s = MSelection \/ u_mode s = MOpening \/ u_mode s = MProblem) ->
  let s' := upd s 58%N in
  u_mode s' = MCommand /\ u_buffer s' = [] /\ u_pages s' = u_pages s /\ u_hist s' = u_hist s.
Proof.
  intros s H s'. subst s'.
  rewrite upd_to_other; [|destruct H as [E|[E|[E|E]]]; congruence|destruct H as [E|[E|[E|E]]]; congruence|reflexivity|reflexivity].
  unfold upd_other. change (N.eqb 58 58) with true. cbv iota.
  cbn [frame set_mode u_mode u_buffer u_pages u_hist]. repeat split; reflexivity.
Qed.

Lemma digit_facts (d : N) : (48 <= d <= 57)%N ->
  N.eqb d K_ESC = false /\ N.eqb d K_BS = false /\ N.eqb d 58 = false /\ N.leb 48 d && N.leb d 57 = true.
Proof. unfold K_ESC, K_BS. intros H. repeat split; ulia. Qed.

Theorem digit_selects_fact : forall (s : ui I C) (d : N), u_mode s = MNormal -> (48 <= d <= 57)%N ->
  let s' := upd s d in
  u_mode s' = MSelection /\ u_buffer s' = [d] /\ u_pages s' = u_pages s /\ u_hist s' = u_hist s.
Proof.
  intros s d Em Hd s'. subst s'. destruct (digit_facts d Hd) as (E1 & E2 & E3 & E4).
  rewrite upd_to_other by (try assumption; congruence). unfold upd_other. rewrite E3, E4, Em.
  cbn [frame set_mode u_mode u_buffer u_pages u_hist app]. repeat split; reflexivity.
Qed.

Theorem digit_appends_fact : forall (s : ui I C) (d : N), u_mode s = MSelection -> (48 <= d <= 57)%N ->
  let s' := upd s d in
  u_mode s' = MSelection /\ u_buffer s' = u_buffer s ++ [d] /\ u_pages s' = u_pages s /\ u_hist s' = u_hist s.
Proof.
  intros s d Em Hd s'. subst s'. destruct (digit_facts d Hd) as (E1 & E2 & E3 & E4).
  rewrite upd_to_other by (try assumption; congruence). unfold upd_other. rewrite E3, E4, Em.
  cbn [frame set_mode u_mode u_buffer u_pages u_hist]. repeat split; reflexivity.
Qed.

Theorem command_types_fact : forall (s : ui I C) (key : N),
  u_mode s = MCommand -> key <> 27%N -> key <> 127%N -> key <> 13%N ->
  let s' := upd s key in
  u_mode s' = MCommand /\ u_buffer s' = u_buffer s ++ [key] /\ u_pages s' = u_pages s /\
  u_hist s' = u_hist s /\ u_tasks s' = u_tasks s.
Proof.
  intros s key Em H1 H2 H3 s'. subst s'.
  rewrite upd_unfold by congruence. unfold upd_body, upd_command, K_ESC, K_BS, K_ENTER. rewrite Em.
  apply N.eqb_neq in H1, H2, H3. rewrite H1, H2, H3.
  cbn [frame set_mode u_mode u_buffer u_pages u_hist u_tasks]. repeat split; reflexivity.
Qed.

(* in normal mode, a key that is not ESC, backspace, ':' or a digit goes to the final switch *)
Lemma upd_normal (s : ui I C) (key : N) : u_mode s = MNormal ->
  N.eqb key K_ESC = false -> N.eqb key K_BS = false -> N.eqb key 58 = false ->
  N.leb 48 key && N.leb key 57 = false -> upd s key = nkey s key.
Proof.
  intros Em E1 E2 E3 E4. rewrite upd_to_other by (try assumption; congruence).
  unfold upd_other. rewrite E3, E4, Em. reflexivity.
Qed.

Lemma nkey_h (s : ui I C) : nkey s 104 = frame (with_hist s (h_back (u_hist s))).
Proof. unfold normal_key. destruct (cur_item s); reflexivity. Qed.
Lemma nkey_l (s : ui I C) : nkey s 108 = frame (with_hist s (h_forward (u_hist s))).
Proof. unfold normal_key. destruct (cur_item s); reflexivity. Qed.

(* h / l walk the history (saturating at both ends, see History.v) and touch nothing else *)
Theorem history_keys_fact : forall (s : ui I C), u_mode s = MNormal ->
  u_hist (upd s 104%N) = h_back (u_hist s) /\ u_hist (upd s 108%N) = h_forward (u_hist s) /\
  u_pages (upd s 104%N) = u_pages s /\ u_pages (upd s 108%N) = u_pages s /\
  u_mode (upd s 104%N) = MNormal /\ u_mode (upd s 108%N) = MNormal.
Proof.
  intros s Em. rewrite !upd_normal by (try exact Em; reflexivity). rewrite nkey_h, nkey_l.
  cbn [frame with_hist u_hist u_pages u_mode]. repeat split; try reflexivity; exact Em.
Qed.

Lemma cur_item_some (s : ui I C) k p it :
  cur_pid s = Some k -> page_find (u_pages s) k = Some p -> f_current (pg_feed p) = Some it ->
  cur_item s = Some it.
Proof. intros Hk Hp Hi. unfold cur_item, cur_page. rewrite Hk, Hp. exact Hi. Qed.

Lemma update_cur_page_eq (s : ui I C) k p g :
  cur_pid s = Some k -> page_find (u_pages s) k = Some p ->
  update_cur_page s g = with_pages s (page_set (u_pages s) k (g p)).
Proof. intros Hk Hp. unfold update_cur_page, cur_page. rewrite Hk, Hp. reflexivity. Qed.

(* moving within the current page: the page after the key press *)
Lemma moved_page (s : ui I C) k p (g : page I C -> page I C) :
  cur_pid s = Some k -> page_find (u_pages s) k = Some p ->
  u_hist (lsur (update_cur_page s g)) = u_hist s /\
  exists p', page_find (u_pages (lsur (update_cur_page s g))) k = Some p' /\ pg_feed p' = pg_feed (g p).
Proof.
  intros Hk Hp. rewrite (update_cur_page_eq s k p g Hk Hp).
  destruct (lsur_keeps (with_pages s (page_set (u_pages s) k (g p)))) as (A1 & _ & _ & _ & _ & _ & _ & A8).
  split; [exact A1|]. apply A8. cbn [with_pages u_pages]. apply (page_find_set_same _ _ p), Hp.
Qed.

(* j: one item down, and only if there is one; nothing else in the feed changes *)
Theorem move_down_key_fact : forall (s : ui I C) (k : nat) (p : page I C) (it : I),
  u_mode s = MNormal -> cur_pid s = Some k -> page_find (u_pages s) k = Some p ->
  f_current (pg_feed p) = Some it ->
  u_hist (upd s 106%N) = u_hist s /\
  exists p', page_find (u_pages (upd s 106%N)) k = Some p' /\
    pg_feed p' = f_move_down (pg_feed p) /\
    f_index (pg_feed p') = (if f_contains (pg_feed p) 1 then f_index (pg_feed p) + 1 else f_index (pg_feed p)) /\
    f_map (pg_feed p') = f_map (pg_feed p).
Proof.
  intros s k p it Em Hk Hp Hi. rewrite upd_normal by (try exact Em; reflexivity).
  unfold normal_key. rewrite (cur_item_some s k p it Hk Hp Hi).
  change (N.eqb 106 107) with false. change (N.eqb 106 106) with true. cbv iota. cbn [frame u_hist u_pages].
  match goal with |- context [update_cur_page s ?g] =>
    destruct (moved_page s k p g Hk Hp) as (A & p' & B1 & B2) end. split; [exact A|].
  exists p'. split; [exact B1|]. cbn [pg_feed] in B2. rewrite B2. split; [reflexivity|].
  unfold f_move_down. destruct (f_contains (pg_feed p) 1); split; reflexivity.
Qed.

(* k: one item up *)
Theorem move_up_key_fact : forall (s : ui I C) (k : nat) (p : page I C) (it : I),
  u_mode s = MNormal -> cur_pid s = Some k -> page_find (u_pages s) k = Some p ->
  f_current (pg_feed p) = Some it ->
  u_hist (upd s 107%N) = u_hist s /\
  exists p', page_find (u_pages (upd s 107%N)) k = Some p' /\
    pg_feed p' = f_move_up (pg_feed p) /\
    f_index (pg_feed p') = (if f_contains (pg_feed p) (-1) then f_index (pg_feed p) - 1 else f_index (pg_feed p)) /\
    f_map (pg_feed p') = f_map (pg_feed p).
Proof.
  intros s k p it Em Hk Hp Hi. rewrite upd_normal by (try exact Em; reflexivity).
  unfold normal_key. rewrite (cur_item_some s k p it Hk Hp Hi).
  change (N.eqb 107 107) with true. cbv iota. cbn [frame u_hist u_pages].
  match goal with |- context [update_cur_page s ?g] =>
    destruct (moved_page s k p g Hk Hp) as (A & p' & B1 & B2) end. split; [exact A|].
  exists p'. split; [exact B1|]. cbn [pg_feed] in B2. rewrite B2. split; [reflexivity|].
  unfold f_move_up. destruct (f_contains (pg_feed p) (-1)); split; reflexivity.
Qed.

(* g: back to the opened item (position 0), when the feed has one there *)
Theorem move_center_key_fact : forall (s : ui I C) (k : nat) (p : page I C) (it : I),
  u_mode s = MNormal -> cur_pid s = Some k -> page_find (u_pages s) k = Some p ->
  f_current (pg_feed p) = Some it ->
  u_hist (upd s 103%N) = u_hist s /\ u_tasks (upd s 103%N) = u_tasks s /\
  exists p', page_find (u_pages (upd s 103%N)) k = Some p' /\
    pg_feed p' = f_move_to_center (pg_feed p) /\
    f_index (pg_feed p') = (if f_contains (pg_feed p) (- f_index (pg_feed p)) then 0 else f_index (pg_feed p)) /\
    f_map (pg_feed p') = f_map (pg_feed p).
Proof.
  intros s k p it Em Hk Hp Hi. rewrite upd_normal by (try exact Em; reflexivity).
  unfold normal_key. rewrite (cur_item_some s k p it Hk Hp Hi).
  change (N.eqb 103 107) with false. change (N.eqb 103 106) with false. change (N.eqb 103 103) with true.
  cbv iota. rewrite (update_cur_page_eq s k p _ Hk Hp). cbn [frame with_pages u_hist u_pages u_tasks].
  split; [reflexivity|]. split; [reflexivity|].
  eexists. split; [apply (page_find_set_same _ _ p), Hp|]. cbn [pg_feed]. split; [reflexivity|].
  unfold f_move_to_center. destruct (f_contains (pg_feed p) (- f_index (pg_feed p))); split; reflexivity.
Qed.

Lemma h_current_add (h : hist nat) (x y : nat) : h_current h = Some x -> h_current (h_add h y) = Some y.
Proof.
  unfold h_current, h_add. intros H.
  assert (Hlt : (h_index h < length (h_elems h))%nat) by (apply nth_error_Some; congruence).
  destruct (h_elems h) as [|a l] eqn:El; [cbn [length] in Hlt; ulia|]. cbn [h_elems h_index].
  rewrite nth_error_app2; rewrite firstn_length; [|ulia].
  replace (h_index h + 1 - Nat.min (h_index h + 1) (length (a :: l)))%nat with 0%nat by ulia. reflexivity.
Qed.

(* space opens the highlighted item as a new page (with the next fresh id), which becomes the
   current one; the forward history is dropped (h_add); every other page id keeps its page *)
Theorem space_opens_fact : forall (s : ui I C) (k : nat) (p : page I C) (it : I),
  u_mode s = MNormal -> cur_pid s = Some k -> page_find (u_pages s) k = Some p ->
  f_current (pg_feed p) = Some it ->
  let s' := upd s 32%N in
  u_hist s' = h_add (u_hist s) (length (u_pages s)) /\
  cur_pid s' = Some (length (u_pages s)) /\
  (exists p', page_find (u_pages s') (length (u_pages s)) = Some p' /\
              pg_feed p' = f_create it /\ f_current (pg_feed p') = Some it) /\
  (forall k0, k0 <> length (u_pages s) -> page_find (u_pages s') k0 = page_find (u_pages s) k0).
Proof.
  intros s k p it Em Hk Hp Hi s'. subst s'. rewrite upd_normal by (try exact Em; reflexivity).
  unfold normal_key. rewrite (cur_item_some s k p it Hk Hp Hi).
  change (N.eqb 32 107) with false. change (N.eqb 32 106) with false. change (N.eqb 32 103) with false.
  change (N.eqb 32 104) with false. change (N.eqb 32 108) with false. change (N.eqb 32 32) with true.
  cbv iota. unfold switch_item. unfold cur_pid at 1. cbn [frame u_hist u_pages].
  set (s2 := add_page s (ipage it)).
  assert (Hc2 : cur_pid s2 = Some (length (u_pages s))).
  { unfold cur_pid, s2. cbn [add_page with_hist u_hist]. apply (h_current_add _ k). exact Hk. }
  assert (Hf2 : page_find (u_pages s2) (length (u_pages s)) = Some (ipage it)).
  { unfold s2. cbn [add_page with_hist with_pages u_pages page_find]. rewrite Nat.eqb_refl. reflexivity. }
  destruct (lsur_keeps s2) as (A1 & _ & _ & _ & _ & _ & A7 & A8).
  split; [rewrite A1; reflexivity|]. split; [rewrite A1; exact Hc2|]. split.
  - destruct (A8 _ _ Hf2) as (p' & B1 & B2). exists p'. split; [exact B1|].
    unfold item_page in B2. cbn [pg_feed] in B2. rewrite B2. split; reflexivity.
  - intros k0 Hne. rewrite A7 by (rewrite Hc2; congruence).
    unfold s2. cbn [add_page with_hist with_pages u_pages page_find].
    destruct (Nat.eqb_spec k0 (length (u_pages s))); [contradiction|reflexivity].
Qed.

(* ... so, on a state satisfying the invariant, no existing page is lost or changed *)
Theorem space_keeps_pages_fact : forall (s : ui I C) (k : nat) (p : page I C) (it : I),
  ui_inv s -> u_mode s = MNormal -> cur_pid s = Some k -> page_find (u_pages s) k = Some p ->
  f_current (pg_feed p) = Some it ->
  forall k0 p0, page_find (u_pages s) k0 = Some p0 -> page_find (u_pages (upd s 32%N)) k0 = Some p0.
Proof.
  intros s k p it H Em Hk Hp Hi k0 p0 H0.
  destruct (space_opens_fact s k p it Em Hk Hp Hi) as (_ & _ & _ & A). rewrite A; [exact H0|].
  apply ui_inv_parts in H. destruct H as ((_ & A2) & _). specialize (A2 k0 p0 H0). ulia.
Qed.

(* ---- consequences ---- *)
(* letting the pending tasks run in spawning order ("once background loads have settled") *)
Theorem settle_inv_fact : forall (fuel : nat) (s : ui I C), ui_inv s -> ui_inv (settl fuel s).
Proof.
  induction fuel as [|f IH]; intros s H; cbn [settle]; [exact H|].
  unfold pop_task. destruct (u_tasks s) as [|t r] eqn:Et; [exact H|].
  apply IH. apply (run_task_inv_fact s t [] r H). exact Et.
Qed.

(* every state the program can be in: start, then key presses, completing tasks (in any order)
   and resizes *)
Inductive ui_step (s : ui I C) : ui I C -> Prop :=
| st_key (key : N) : ui_step s (upd s key)
| st_task (pre : list (task I C)) (t : task I C) (post : list (task I C)) :
    u_tasks s = pre ++ t :: post -> ui_step s (runt (remove_task s pre post) t)
| st_resize (w h : Z) : ui_step s (resize s w h).

Inductive reachable (w h : Z) : ui I C -> Prop :=
| r_init : reachable w h (ui_init w h)
| r_step (s s' : ui I C) : reachable w h s -> ui_step s s' -> reachable w h s'.

Theorem reachable_inv_fact : forall (w h : Z) (s : ui I C), reachable w h s -> ui_inv s.
Proof.
  intros w h s R. induction R as [|s s' R IH St]; [apply init_inv_fact|].
  destruct St as [key|pre t post Ht|w' h'].
  - apply update_inv_fact, IH.
  - apply run_task_inv_fact; assumption.
  - apply resize_inv_fact, IH.
Qed.

Lemma params_no_nl (t : text) : forallb AnsiSpec.is_param t = true -> has_nl t = false.
Proof.
  unfold has_nl. induction t as [|c t IH]; intros H; [reflexivity|]. cbn [forallb existsb] in *.
  apply andb_true_iff in H as [Hc Ht]. rewrite (IH Ht), orb_false_r.
  unfold AnsiSpec.is_param in Hc. unfold NL. ulia.
Qed.

(* the same with the configured colours being "r;g;b" triples (StyleFacts.colors_ok) *)
Theorem view_no_panic_colors_fact : forall (s : ui I C),
  ui_inv s -> 0 <= u_width s -> colors_ok col -> exists t, vw s = Ok t.
Proof.
  intros s H Hw (_ & _ & (Hh & _) & _). apply view_no_panic_fact; [exact H|exact Hw|].
  apply params_no_nl, Hh.
Qed.

(* ---- why the invariant is stronger than "flags = number of loaders on existing pages" ----
   The invariant as first stated (page_ok = feed_ok only, and no clause for page ids that do not
   exist) is not preserved: a page flagged "loading up" with no frontier keeps its flag when its
   loader ends.  Such a state is unreachable, which is what the two extra clauses express. *)
Definition ui_inv_weak (s : ui I C) : Prop :=
  (forall k p, page_find (u_pages s) k = Some p -> feed_ok (pg_feed p)) /\
  (forall k, In k (h_elems (u_hist s)) -> exists p, page_find (u_pages s) k = Some p) /\
  (forall k p, page_find (u_pages s) k = Some p -> (k < length (u_pages s))%nat) /\
  (h_elems (u_hist s) = [] /\ h_index (u_hist s) = 0%nat \/
   (h_index (u_hist s) < length (h_elems (u_hist s)))%nat) /\
  (u_mode s <> MLoading -> h_elems (u_hist s) <> []) /\
  (forall k p, page_find (u_pages s) k = Some p ->
     count_up k (u_tasks s) = b2n (pg_loading_up p) /\
     count_down k (u_tasks s) = b2n (pg_loading_down p)).

Theorem weak_inv_not_inductive_fact :
  exists (s : ui I C) (t : task I C) (pre post : list (task I C)),
    ui_inv_weak s /\ u_tasks s = pre ++ t :: post /\ ~ ui_inv_weak (runt (remove_task s pre post) t).
Proof.
  set (p := mkpage (f_create_list ([] : list I)) None true (None : option C) 0 false).
  exists (mkui [(0%nat, p)] {| h_elems := [0%nat]; h_index := 0 |} MNormal [] 80 24 [TLoadUp 0] []),
         (TLoadUp 0), [], [].
  split; [|split; [reflexivity|]].
  - unfold ui_inv_weak. cbn [u_pages u_hist u_mode u_tasks h_elems h_index page_find length].
    split; [intros k q H; destruct k; cbn in H; [injection H as <-; apply feed_ok_create_list|discriminate]|].
    split; [intros k [H|[]]; subst k; exists p; reflexivity|].
    split; [intros k q H; destruct k; cbn in H; [apply Nat.lt_0_1|discriminate]|].
    split; [right; apply Nat.lt_0_1|]. split; [discriminate|].
    intros k q H. destruct k; cbn in H; [injection H as <-; split; reflexivity|discriminate].
  - intros (_ & _ & _ & _ & _ & H). cbn in H. destruct (H 0%nat p eq_refl) as [H1 _]. discriminate H1.
Qed.

End UiFacts.

Print Assumptions init_inv_fact.
Print Assumptions update_inv_fact.
Print Assumptions run_task_inv_fact.
Print Assumptions resize_inv_fact.
Print Assumptions view_height_fact.
Print Assumptions view_no_panic_fact.
Print Assumptions loading_ignores_keys_fact.
Print Assumptions esc_cancels_fact.
Print Assumptions colon_enters_command_fact.
Print Assumptions digit_selects_fact.
Print Assumptions digit_appends_fact.
Print Assumptions command_types_fact.
Print Assumptions history_keys_fact.
Print Assumptions move_down_key_fact.
Print Assumptions move_up_key_fact.
Print Assumptions move_center_key_fact.
Print Assumptions space_opens_fact.
Print Assumptions space_keeps_pages_fact.
Print Assumptions settle_inv_fact.
Print Assumptions reachable_inv_fact.
Print Assumptions view_no_panic_colors_fact.
Print Assumptions weak_inv_not_inductive_fact.
