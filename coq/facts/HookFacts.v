(* Facts about the media-hook argv construction (Hook.v). *)
From Servitor Require Import Base Mime Hook.

(* B1 *)
Theorem subst_spec_fact : forall link mt f,
  subst link (Some mt) f =
  Some (if text_eqb f s_url then link
        else if text_eqb f s_mimetype then essence mt
        else if text_eqb f s_subtype then subtype mt
        else if text_eqb f s_supertype then supertype mt
        else f).
Proof.
  intros link mt f. unfold subst.
  destruct (text_eqb f s_url); [reflexivity|].
  destruct (text_eqb f s_mimetype); [reflexivity|].
  destruct (text_eqb f s_subtype); [reflexivity|].
  destruct (text_eqb f s_supertype); reflexivity.
Qed.
Print Assumptions subst_spec_fact.

Lemma subst_some link mt f : exists x, subst link (Some mt) f = Some x.
Proof. rewrite subst_spec_fact. eexists; reflexivity. Qed.

Lemma subst_all_total link mt l : exists l', subst_all link (Some mt) l = Some l'.
Proof.
  induction l as [|f l IH]; simpl.
  - eexists; reflexivity.
  - destruct (subst_some link mt f) as [x Hx]. destruct IH as [l' Hl'].
    rewrite Hx, Hl'. eexists; reflexivity.
Qed.

Lemma subst_all_spec link mt l l' :
  subst_all link (Some mt) l = Some l' ->
  length l' = length l /\
  (forall i f, nth_error l i = Some f -> nth_error l' i = subst link (Some mt) f).
Proof.
  revert l'. induction l as [|f l IH]; simpl; intros l' H.
  - inversion H; subst. split; [reflexivity|]. intros i f Hn. destruct i; discriminate.
  - destruct (subst link (Some mt) f) as [x|] eqn:Hx; [|discriminate].
    destruct (subst_all link (Some mt) l) as [xs|] eqn:Hxs; [|discriminate].
    inversion H; subst. destruct (IH xs eq_refl) as [IH1 IH2]. split.
    + simpl. rewrite IH1. reflexivity.
    + intros i g Hn. destruct i as [|i]; simpl in *.
      * inversion Hn; subst. symmetry. exact Hx.
      * apply IH2. exact Hn.
Qed.

Lemma existsb_url_In (l : list text) : existsb (fun f => text_eqb f s_url) l = true <-> In s_url l.
Proof.
  rewrite existsb_exists. split.
  - intros [x [Hin Hx]]. apply text_eqb_eq in Hx. subst. exact Hin.
  - intros Hin. exists s_url. split; [exact Hin|]. apply text_eqb_eq. reflexivity.
Qed.

(* B2 *)
Theorem argv_spec_fact : forall hook link mt argv stdin,
  hook_command hook link (Some mt) = Ok (argv, stdin) ->
  length argv = length hook /\
  hd_error argv = hd_error hook /\
  (forall i f, nth_error (tl hook) i = Some f -> nth_error (tl argv) i = subst link (Some mt) f) /\
  (stdin = None <-> In s_url (tl hook)) /\ (stdin = Some link \/ stdin = None).
Proof.
  intros hook link mt argv stdin H. unfold hook_command in H.
  destruct hook as [|prog args]; [discriminate|].
  destruct (subst_all link (Some mt) args) as [args'|] eqn:Hs; [|discriminate].
  inversion H; subst. clear H.
  destruct (subst_all_spec link mt args args' Hs) as [Hlen Hnth].
  split; [simpl; rewrite Hlen; reflexivity|].
  split; [reflexivity|].
  split; [exact Hnth|]. simpl.
  destruct (existsb (fun f => text_eqb f s_url) args) eqn:He.
  - split; [|right; reflexivity]. split; intros _; [|reflexivity].
    apply existsb_url_In. exact He.
  - split; [|left; reflexivity]. split; [discriminate|].
    intros Hin. apply existsb_url_In in Hin. congruence.
Qed.
Print Assumptions argv_spec_fact.

(* B3 *)
Theorem hook_total_fact : forall hook link mt, hook <> [] -> exists r, hook_command hook link (Some mt) = Ok r.
Proof.
  intros hook link mt Hne. destruct hook as [|prog args]; [congruence|].
  unfold hook_command. destruct (subst_all_total link mt args) as [l' Hl']. rewrite Hl'.
  eexists; reflexivity.
Qed.
Print Assumptions hook_total_fact.

(* B4 *)
Theorem embedded_placeholder_untouched_fact : forall link mt f,
  f <> s_url -> f <> s_mimetype -> f <> s_subtype -> f <> s_supertype -> subst link (Some mt) f = Some f.
Proof.
  intros link mt f H1 H2 H3 H4. rewrite subst_spec_fact.
  destruct (text_eqb f s_url) eqn:E1; [apply text_eqb_eq in E1; congruence|].
  destruct (text_eqb f s_mimetype) eqn:E2; [apply text_eqb_eq in E2; congruence|].
  destruct (text_eqb f s_subtype) eqn:E3; [apply text_eqb_eq in E3; congruence|].
  destruct (text_eqb f s_supertype) eqn:E4; [apply text_eqb_eq in E4; congruence|].
  reflexivity.
Qed.
Print Assumptions embedded_placeholder_untouched_fact.

(* B5 *)
Theorem link_verbatim_fact : forall hook link mt argv stdin i,
  hook_command hook link (Some mt) = Ok (argv, stdin) ->
  nth_error (tl hook) i = Some s_url -> nth_error (tl argv) i = Some link.
Proof.
  intros hook link mt argv stdin i H Hn.
  destruct (argv_spec_fact hook link mt argv stdin H) as [_ [_ [Hnth _]]].
  rewrite (Hnth i s_url Hn). reflexivity.
Qed.
Print Assumptions link_verbatim_fact.
