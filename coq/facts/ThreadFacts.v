(* The thread browser refines an abstract thread.

   World: every item has a chain of ancestors ([anc], nearest first) and possibly a collection of
   replies ([kids]); the oracles of Ui.v ([parents], [children], [harvest]) serve exactly these,
   in chunks, the way the harness does (hypotheses Hpar0 .. Hharv below; they are premises of the
   theorems, and section 5 exhibits a world satisfying them).

   Abstract thread of a page opened on item r: integer positions; 0 is r, -(k+1) is the k-th
   ancestor, k+1 is the k-th reply.  A page is "a window of r's thread" ([thread_page]) when its
   feed holds exactly the positions -m .. n of the thread, its frontier / children / basepoint say
   where the window continues, and the cursor is inside.  [covered]: the window reaches [preload]
   positions beyond the cursor on both sides, or the end of the thread.

   1. thread_page_init / _move / _load_up / _load_down: opening, the moves and the two loaders
      keep a page a window of the thread.
   2. key_up_refines_fact, key_down_refines_fact: on an idle state (nothing pending, normal mode,
      ui_inv) whose current page is a covered window, k / j followed by settle (fuel >= 2: one
      loader per direction at most) moves the cursor to the neighbour iff the thread has one, and
      the page is a covered window again.
      For g the statement is FALSE as asked (key_center_refines_refuted): g does not call
      loadSurroundings, so coverage around position 0 is not re-established by the key; it holds
      after g iff it held around position 0 before (key_center_refines_partial_fact).  On a page
      that was opened and browsed with k / j / g it always does (key_center_opened_partial_fact),
      because opening loads the window around position 0 and windows only grow.
   3. open_refines_fact: after opening r and settling, the new page is a covered window, cursor 0.
   4. thread_walk_refines_fact: over any sequence of k / j / g, the highlighted item is the one the
      abstract walk predicts.
   5. thread_walk_example: a concrete world and the keys k k k k k k j g j j j j j.

   Layers: lists; the abstract thread; feed windows (through the put lemmas of FeedFacts, and
   fwin_frel: a window IS FeedFacts' two-sided list of the first m ancestors, r, the first n
   replies); pages; the ui. *)
From Servitor Require Import Base Unicode Ansi Style History Feed Ui.
From Servitor.Facts Require Import FeedFacts UiFacts FrameFacts.
From Coq Require Import ZifyBool.
Local Open Scope Z_scope.

Local Arguments u_pages {I C}. Local Arguments u_hist {I C}. Local Arguments u_mode {I C}.
Local Arguments u_buffer {I C}. Local Arguments u_width {I C}. Local Arguments u_height {I C}.
Local Arguments u_tasks {I C}. Local Arguments u_frames {I C}. Local Arguments mkui {I C}.
Local Arguments pg_feed {I C}. Local Arguments pg_frontier {I C}. Local Arguments pg_loading_up {I C}.
Local Arguments pg_children {I C}. Local Arguments pg_basepoint {I C}. Local Arguments pg_loading_down {I C}.
Local Arguments mkpage {I C}.
Local Arguments TLoadUp {I C}. Local Arguments TLoadDown {I C}. Local Arguments TOpen {I C}.
Local Arguments TFeed {I C}. Local Arguments THook {I C}.
Local Arguments OItem {I C}. Local Arguments OColl {I C}.
Local Arguments page_find {I C}. Local Arguments page_set {I C}.
Local Arguments cur_pid {I C}. Local Arguments cur_page {I C}. Local Arguments cur_item {I C}.
Local Arguments set_mode {I C}. Local Arguments frame {I C}. Local Arguments spawn {I C}.
Local Arguments with_pages {I C}. Local Arguments with_hist {I C}.
Local Arguments update_cur_page {I C}. Local Arguments add_page {I C}.
Local Arguments ui_init {I C}. Local Arguments pop_task {I C}.
Local Arguments frel {A}.
Local Arguments ui_inv {I C}. Local Arguments page_ok {I C}. Local Arguments remove_task {I C}.
Local Arguments is_loader {I C}. Local Arguments start_up {I C}. Local Arguments start_down {I C}.
Local Arguments mark_up {I C}.

(* ================================================================== lists *)
Lemma nth_error_nil_ {A} (k : nat) : nth_error (@nil A) k = None.
Proof. destruct k; reflexivity. Qed.

Lemma nth_error_firstn_lt {A} (l : list A) : forall n k, (k < n)%nat -> nth_error (firstn n l) k = nth_error l k.
Proof.
  induction l as [|a l IH]; intros n k H.
  - rewrite firstn_nil. reflexivity.
  - destruct n as [|n]; [lia|]. destruct k as [|k]; cbn [firstn nth_error]; [reflexivity|]. apply IH. lia.
Qed.

Lemma nth_error_skipn_ {A} (l : list A) : forall n k, nth_error (skipn n l) k = nth_error l (n + k).
Proof.
  induction l as [|a l IH]; intros n k.
  - rewrite skipn_nil, !nth_error_nil_. reflexivity.
  - destruct n as [|n]; [reflexivity|]. cbn [skipn Nat.add nth_error]. apply IH.
Qed.

Section Thread.
(* ---- the world: items ---- *)
Variable I : Type.
Variable anc : I -> list I.               (* the ancestors of an item, nearest first *)
Variable kids : I -> option (list I).     (* the replies of an item, in order; None = no reply collection *)

(* ================================================================== the abstract thread *)
Definition replies (r : I) : list I := match kids r with Some l => l | None => [] end.

Definition thread_at (r : I) (x : Z) : option I :=
  if Z.eqb x 0 then Some r
  else if Z.ltb x 0 then nth_error (anc r) (Z.to_nat (- x - 1))
  else nth_error (replies r) (Z.to_nat (x - 1)).

Definition thread_has (r : I) (x : Z) : Prop := thread_at r x <> None.
Definition thread_hasb (r : I) (x : Z) : bool := match thread_at r x with Some _ => true | None => false end.

Lemma thread_has_range r x :
  thread_has r x <-> - Z.of_nat (length (anc r)) <= x <= Z.of_nat (length (replies r)).
Proof.
  unfold thread_has, thread_at. destruct (Z.eqb x 0) eqn:E0.
  - split; [intros _; lia|intros _; discriminate].
  - destruct (Z.ltb x 0) eqn:E1; rewrite nth_error_Some; lia.
Qed.

Lemma thread_hasb_true r x : thread_hasb r x = true <-> thread_has r x.
Proof. unfold thread_hasb, thread_has. destruct (thread_at r x); split; congruence. Qed.

Lemma thread_hasb_false r x : thread_hasb r x = false <-> ~ thread_has r x.
Proof. unfold thread_hasb, thread_has. destruct (thread_at r x); split; try congruence. intros H. exfalso. apply H. discriminate. Qed.

(* ================================================================== feed windows *)
(* the feed holds exactly the positions -m .. n of r's thread (observably: Get / Contains) *)
Definition fwin (r : I) (f : feed I) (m n : nat) : Prop :=
  forall off : Z,
    (- Z.of_nat m <= f_index f + off <= Z.of_nat n -> f_get f off = Ok (thread_at r (f_index f + off))) /\
    (~ (- Z.of_nat m <= f_index f + off <= Z.of_nat n) -> f_contains f off = false).

(* the same in terms of the representation *)
Definition fwin_int (r : I) (f : feed I) (m n : nat) : Prop :=
  f_lower f = - Z.of_nat m - 1 /\ f_upper f = Z.of_nat n + 1 /\
  forall x, - Z.of_nat m <= x <= Z.of_nat n -> m_get (f_map f) x = thread_at r x.

Lemma fwin_int_fwin r f m n : fwin_int r f m n -> fwin r f m n.
Proof.
  intros (Hl & Hu & Hm) off. unfold f_get, f_contains. rewrite Hl, Hu. split; intros H.
  - destruct (Z.ltb (f_index f + off) (Z.of_nat n + 1) && Z.ltb (- Z.of_nat m - 1) (f_index f + off))%bool eqn:E; [|lia].
    rewrite Hm by lia. reflexivity.
  - lia.
Qed.

Lemma fwin_fwin_int r f m n : fwin r f m n -> fwin_int r f m n.
Proof.
  intros H.
  assert (A : forall x, - Z.of_nat m <= x <= Z.of_nat n ->
                f_lower f < x < f_upper f /\ m_get (f_map f) x = thread_at r x).
  { intros x Hx. destruct (H (x - f_index f)) as [H1 _].
    assert (E : f_index f + (x - f_index f) = x) by lia.
    unfold f_get, f_contains in H1. rewrite E in H1. specialize (H1 Hx).
    destruct (Z.ltb x (f_upper f) && Z.ltb (f_lower f) x)%bool eqn:Ec; [|discriminate].
    split; [lia|]. congruence. }
  assert (B : forall x, ~ (- Z.of_nat m <= x <= Z.of_nat n) -> ~ (f_lower f < x < f_upper f)).
  { intros x Hx. destruct (H (x - f_index f)) as [_ H2].
    assert (E : f_index f + (x - f_index f) = x) by lia.
    unfold f_contains in H2. rewrite E in H2. specialize (H2 Hx). lia. }
  pose proof (A (- Z.of_nat m) ltac:(lia)) as [A1 _]. pose proof (A (Z.of_nat n) ltac:(lia)) as [A2 _].
  pose proof (B (- Z.of_nat m - 1) ltac:(lia)) as B1. pose proof (B (Z.of_nat n + 1) ltac:(lia)) as B2.
  split; [lia|]. split; [lia|]. intros x Hx. apply A, Hx.
Qed.

Lemma fwin_contains r f m n off : fwin r f m n ->
  (f_contains f off = true <-> - Z.of_nat m <= f_index f + off <= Z.of_nat n).
Proof.
  intros H. destruct (H off) as [H1 H2]. split.
  - intros Hc. destruct (Z.leb (- Z.of_nat m) (f_index f + off) && Z.leb (f_index f + off) (Z.of_nat n))%bool eqn:E; [lia|].
    rewrite H2 in Hc by lia. discriminate.
  - intros Hr. specialize (H1 Hr). unfold f_get in H1. destruct (f_contains f off); [reflexivity|discriminate].
Qed.

Lemma fwin_current r f m n : fwin r f m n -> - Z.of_nat m <= f_index f <= Z.of_nat n ->
  f_current f = thread_at r (f_index f).
Proof.
  intros H Hr. apply fwin_fwin_int in H. destruct H as (_ & _ & Hm). unfold f_current. apply Hm, Hr.
Qed.

Lemma fwin_int_create r : fwin_int r (f_create r) 0 0.
Proof.
  split; [reflexivity|]. split; [reflexivity|]. intros x Hx. assert (x = 0) by lia. subst x. reflexivity.
Qed.

Lemma fwin_int_prepend r f m n xs : fwin_int r f m n ->
  (forall j, (j < length xs)%nat -> nth_error xs j = nth_error (anc r) (m + j)) ->
  fwin_int r (f_prepend f xs) (m + length xs) n.
Proof.
  intros (Hl & Hu & Hm) Hxs. unfold f_prepend. split; [|split]; cbn [f_lower f_upper f_map].
  - rewrite Hl. lia.
  - exact Hu.
  - intros x Hx. rewrite m_get_put_down.
    destruct (Z.leb x (f_lower f) && Z.ltb (f_lower f - Z.of_nat (length xs)) x)%bool eqn:E.
    + rewrite Hxs by lia. unfold thread_at.
      destruct (Z.eqb x 0) eqn:E0; [lia|]. destruct (Z.ltb x 0) eqn:E1; [|lia]. f_equal. lia.
    + apply Hm. lia.
Qed.

Lemma fwin_int_append r f m n xs : fwin_int r f m n ->
  (forall j, (j < length xs)%nat -> nth_error xs j = nth_error (replies r) (n + j)) ->
  fwin_int r (f_append f xs) m (n + length xs).
Proof.
  intros (Hl & Hu & Hm) Hxs. unfold f_append. split; [|split]; cbn [f_lower f_upper f_map].
  - exact Hl.
  - rewrite Hu. lia.
  - intros x Hx. rewrite m_get_put_up.
    destruct (Z.leb (f_upper f) x && Z.ltb x (f_upper f + Z.of_nat (length xs)))%bool eqn:E.
    + rewrite Hxs by lia. unfold thread_at.
      destruct (Z.eqb x 0) eqn:E0; [lia|]. destruct (Z.ltb x 0) eqn:E1; [lia|]. f_equal. lia.
    + apply Hm. lia.
Qed.

Lemma fwin_set_index r f m n i : fwin r f m n -> fwin r (f_set_index f i) m n.
Proof. intros H. apply fwin_int_fwin. apply fwin_fwin_int in H. exact H. Qed.

(* the link with the reference two-sided list of FeedFacts: a window IS the two-sided list made of
   the first m ancestors, r, and the first n replies *)
Definition thread_tsl (r : I) (m n : nat) (x : Z) : tsl I :=
  {| ups := firstn m (anc r); mid := Some r; downs := firstn n (replies r); pos := x |}.

Lemma fwin_frel r f m n : (m <= length (anc r))%nat -> (n <= length (replies r))%nat ->
  fwin r f m n -> frel f (thread_tsl r m n (f_index f)).
Proof.
  intros Hm Hn H. apply fwin_fwin_int in H. destruct H as (Hl & Hu & Hmap).
  constructor; unfold thread_tsl, lower_of; cbn [ups mid downs pos].
  - reflexivity.
  - rewrite firstn_length. lia.
  - rewrite firstn_length. lia.
  - discriminate.
  - intros x Hx. rewrite Hmap by lia. unfold thread_at, t_at; cbn [ups mid downs].
    destruct (Z.eqb x 0) eqn:E0; [reflexivity|]. destruct (Z.ltb x 0) eqn:E1.
    + rewrite nth_error_firstn_lt by lia. reflexivity.
    + rewrite nth_error_firstn_lt by lia. reflexivity.
Qed.


(* ================================================================== pages *)
(* ---- the world: containers; the configured context ---- *)
Variable C : Type.
Variable items_of : C -> list I.          (* a container is a list served in chunks *)
Variable preload : Z.                     (* config.Parsed.Network.Context *)
Local Notation q := (Z.to_nat preload).

(* the position the feed's index denotes: f_create puts the opened item at index 0 *)
Definition cursor (p : page I C) : Z := f_index (pg_feed p).

(* where loading further ancestors continues, when the window holds m of them: nowhere (only when
   all of them are in), from r itself (nothing loaded yet), or from the m-th ancestor.  The last
   ancestor can be the frontier: the load it starts then finds nothing and ends the chain. *)
Definition frontier_at (r : I) (m : nat) (fr : option I) : Prop :=
  match fr with
  | None => m = length (anc r)
  | Some a => (m = 0%nat /\ a = r /\ anc r <> []) \/ ((1 <= m)%nat /\ nth_error (anc r) (m - 1) = Some a)
  end.

(* where loading further replies continues, when the window holds n of them *)
Definition children_at (r : I) (n : nat) (ch : option C) (b : nat) : Prop :=
  match ch with
  | Some c => items_of c = replies r /\ b = n
  | None => n = length (replies r)
  end.

Definition window (r : I) (p : page I C) (m n : nat) : Prop :=
  (m <= length (anc r))%nat /\ (n <= length (replies r))%nat /\
  fwin r (pg_feed p) m n /\
  frontier_at r m (pg_frontier p) /\
  children_at r n (pg_children p) (pg_basepoint p) /\
  - Z.of_nat m <= cursor p <= Z.of_nat n.

Definition thread_page (r : I) (p : page I C) : Prop := exists m n, window r p m n.

(* position x is in the page's feed *)
Definition pos_in (p : page I C) (x : Z) : Prop := f_contains (pg_feed p) (x - cursor p) = true.

(* the window reaches [preload] positions beyond x on both sides, or the end of the thread *)
Definition covered_at (r : I) (p : page I C) (x : Z) : Prop :=
  forall d, 1 <= d <= preload ->
    (thread_has r (x - d) -> pos_in p (x - d)) /\ (thread_has r (x + d) -> pos_in p (x + d)).

Definition covered (r : I) (p : page I C) : Prop := covered_at r p (cursor p).

(* the same with the offsets Contains is called with *)
Lemma covered_offsets r p :
  covered r p <->
  forall d, 1 <= d <= preload ->
    (thread_has r (cursor p - d) -> f_contains (pg_feed p) (- d) = true) /\
    (thread_has r (cursor p + d) -> f_contains (pg_feed p) d = true).
Proof.
  unfold covered, covered_at, pos_in.
  split; intros H d Hd; destruct (H d Hd) as [A B].
  - replace (cursor p - d - cursor p) with (- d) in A by lia.
    replace (cursor p + d - cursor p) with d in B by lia. split; assumption.
  - replace (cursor p - d - cursor p) with (- d) by lia.
    replace (cursor p + d - cursor p) with d by lia. split; assumption.
Qed.

Lemma pos_in_iff r p m n x : window r p m n -> (pos_in p x <-> - Z.of_nat m <= x <= Z.of_nat n).
Proof.
  intros (_ & _ & H & _). unfold pos_in. rewrite (fwin_contains r _ m n _ H). unfold cursor. lia.
Qed.

Lemma contains_iff r p m n off : window r p m n ->
  (f_contains (pg_feed p) off = true <-> - Z.of_nat m <= cursor p + off <= Z.of_nat n).
Proof. intros (_ & _ & H & _). apply (fwin_contains r _ m n _ H). Qed.

Lemma window_current r p m n : window r p m n -> f_current (pg_feed p) = thread_at r (cursor p).
Proof. intros (_ & _ & H & _ & _ & Hc). apply (fwin_current r _ m n H Hc). Qed.

Lemma window_current_some r p m n : window r p m n -> exists it, f_current (pg_feed p) = Some it.
Proof.
  intros H. rewrite (window_current r p m n H). destruct H as (Hm & Hn & _ & _ & _ & Hc).
  assert (Ht : thread_has r (cursor p)) by (apply thread_has_range; lia).
  unfold thread_has in Ht. destruct (thread_at r (cursor p)) as [it|]; [eauto|congruence].
Qed.

Lemma covered_at_intro r p m n x : window r p m n ->
  (x - preload >= - Z.of_nat m \/ m = length (anc r)) ->
  (x + preload <= Z.of_nat n \/ n = length (replies r)) ->
  - Z.of_nat m <= x <= Z.of_nat n ->
  covered_at r p x.
Proof.
  intros Hw Hu Hd Hx d Hdd. split; intros Ht; apply thread_has_range in Ht; apply (pos_in_iff r p m n _ Hw); lia.
Qed.

(* windows only grow: coverage around a position is never lost *)
Lemma covered_at_mono r p p' m n m' n' x : window r p m n -> window r p' m' n' ->
  (m <= m')%nat -> (n <= n')%nat -> covered_at r p x -> covered_at r p' x.
Proof.
  intros Hw Hw' Hm Hn Hc d Hd. destruct (Hc d Hd) as [A B].
  split; intros Ht; [apply A in Ht|apply B in Ht];
    apply (pos_in_iff r p m n _ Hw) in Ht; apply (pos_in_iff r p' m' n' _ Hw'); lia.
Qed.

(* the window depends on the feed and on the three continuation fields only *)
Lemma window_ext r p p' m n :
  pg_feed p' = pg_feed p -> pg_frontier p' = pg_frontier p -> pg_children p' = pg_children p ->
  pg_basepoint p' = pg_basepoint p -> window r p m n -> window r p' m n.
Proof. unfold window, cursor. intros -> -> -> -> H. exact H. Qed.

Definition page_with_feed (p : page I C) (f : feed I) : page I C :=
  mkpage f (pg_frontier p) (pg_loading_up p) (pg_children p) (pg_basepoint p) (pg_loading_down p).


(* ---- the moves keep the window (no assumption on the oracles is needed) ---- *)
Lemma window_move_up r p m n : window r p m n ->
  window r (page_with_feed p (f_move_up (pg_feed p))) m n.
Proof.
  intros H. pose proof (contains_iff r p m n (-1) H) as Hc. unfold f_move_up.
  destruct (f_contains (pg_feed p) (-1)); [|exact H].
  destruct H as (H1 & H2 & H3 & H4 & H5 & H6). unfold window, cursor in *.
  cbn [page_with_feed pg_feed pg_frontier pg_children pg_basepoint f_set_index f_index].
  split; [exact H1|]. split; [exact H2|]. split; [apply fwin_set_index, H3|].
  split; [exact H4|]. split; [exact H5|]. destruct Hc as [Hc _]. specialize (Hc eq_refl). lia.
Qed.

Lemma window_move_down r p m n : window r p m n ->
  window r (page_with_feed p (f_move_down (pg_feed p))) m n.
Proof.
  intros H. pose proof (contains_iff r p m n 1 H) as Hc. unfold f_move_down.
  destruct (f_contains (pg_feed p) 1); [|exact H].
  destruct H as (H1 & H2 & H3 & H4 & H5 & H6). unfold window, cursor in *.
  cbn [page_with_feed pg_feed pg_frontier pg_children pg_basepoint f_set_index f_index].
  split; [exact H1|]. split; [exact H2|]. split; [apply fwin_set_index, H3|].
  split; [exact H4|]. split; [exact H5|]. destruct Hc as [Hc _]. specialize (Hc eq_refl). lia.
Qed.

Lemma window_move_center r p m n : window r p m n ->
  window r (page_with_feed p (f_move_to_center (pg_feed p))) m n /\
  cursor (page_with_feed p (f_move_to_center (pg_feed p))) = 0.
Proof.
  intros H. pose proof (contains_iff r p m n (- cursor p) H) as Hc. unfold f_move_to_center. fold (cursor p).
  destruct (f_contains (pg_feed p) (- cursor p)).
  - destruct H as (H1 & H2 & H3 & H4 & H5 & H6). unfold window, cursor in *.
    cbn [page_with_feed pg_feed pg_frontier pg_children pg_basepoint f_set_index f_index].
    split; [|reflexivity].
    split; [exact H1|]. split; [exact H2|]. split; [apply fwin_set_index, H3|].
    split; [exact H4|]. split; [exact H5|]. lia.
  - exfalso. destruct Hc as [_ Hc]. destruct H as (_ & _ & _ & _ & _ & H6).
    assert (false = true) by (apply Hc; lia). discriminate.
Qed.

(* ---- theorem 1: the invariant, moves ---- *)
Theorem thread_page_move : forall r p, thread_page r p ->
  thread_page r (page_with_feed p (f_move_up (pg_feed p))) /\
  thread_page r (page_with_feed p (f_move_down (pg_feed p))) /\
  thread_page r (page_with_feed p (f_move_to_center (pg_feed p))).
Proof.
  intros r p (m & n & H). split; [|split]; exists m, n.
  - apply window_move_up, H.
  - apply window_move_down, H.
  - apply window_move_center, H.
Qed.

(* ---- the world: what pub serves (the oracles of Ui.v), coherent with the thread structure ---- *)
Variable parents : I -> nat -> list I * option I.
Variable children : I -> option C.
Variable harvest : C -> nat -> nat -> list I * option C * nat.
Local Notation ipage := (Ui.item_page I C parents children).

Hypothesis Hpre : 1 <= preload.
(* Parents(0): nothing, and the item itself as the frontier iff it has a parent *)
Hypothesis Hpar0 : forall i, parents i 0 = ([], match anc i with [] => None | _ => Some i end).
(* Parents(q): up to q ancestors, and the q-th one as the new frontier when it exists *)
Hypothesis Hpar : forall i q, (1 <= q)%nat -> parents i q = (firstn q (anc i), nth_error (anc i) (q - 1)).
(* the ancestors of an ancestor are the rest of the chain *)
Hypothesis Hanc : forall i k a, nth_error (anc i) k = Some a -> anc a = skipn (S k) (anc i).
Hypothesis Hkids : forall i, match kids i with
                             | None => children i = None
                             | Some l => exists c, children i = Some c /\ items_of c = l
                             end.
(* Harvest(q, b): items[b, b+q), and a continuation iff more remain *)
Hypothesis Hharv : forall c q b, harvest c q b =
   (firstn q (skipn b (items_of c)),
    (if Nat.ltb (b + q) (length (items_of c)) then Some c else None),
    (if Nat.ltb (b + q) (length (items_of c)) then b + q else 0)%nat).

Lemma frontier_anc r m a : (m <= length (anc r))%nat -> frontier_at r m (Some a) -> anc a = skipn m (anc r).
Proof.
  intros Hm [(E1 & E2 & _)|(E1 & E2)].
  - subst m a. reflexivity.
  - rewrite (Hanc r (m - 1) a E2). f_equal. lia.
Qed.

(* ---- the completions of the two loaders, as functions on pages ---- *)
Definition page_load_up (p : page I C) : page I C :=
  match pg_frontier p with
  | Some fr =>
      let (ps, nf) := parents fr q in
      mkpage (f_prepend (pg_feed p) ps) nf false (pg_children p) (pg_basepoint p) (pg_loading_down p)
  | None => p
  end.

Definition page_load_down (p : page I C) : page I C :=
  match pg_children p with
  | Some c =>
      let '(items, next, base) := harvest c q (pg_basepoint p) in
      mkpage (f_append (pg_feed p) items) (pg_frontier p) (pg_loading_up p) next base false
  | None => p
  end.

Lemma page_load_up_children p : pg_children (page_load_up p) = pg_children p.
Proof. unfold page_load_up. destruct (pg_frontier p); [destruct (parents i q)|]; reflexivity. Qed.

Lemma window_init r : window r (ipage r) 0 0.
Proof.
  unfold window, item_page, cursor, frontier_of. cbn [pg_feed pg_frontier pg_children pg_basepoint].
  split; [lia|]. split; [lia|]. split; [apply fwin_int_fwin, fwin_int_create|].
  split; [|split; [|cbn; lia]].
  - rewrite Hpar0. cbn [snd]. destruct (anc r) eqn:E; cbn [frontier_at].
    + rewrite E. reflexivity.
    + left. rewrite E. repeat split. discriminate.
  - pose proof (Hkids r) as H. unfold children_at, replies. destruct (kids r) as [l|].
    + destruct H as (c & E1 & E2). rewrite E1. split; [exact E2|reflexivity].
    + rewrite H. reflexivity.
Qed.

Lemma window_load_up r p m n fr : window r p m n -> pg_frontier p = Some fr ->
  window r (page_load_up p) (Nat.min (m + q) (length (anc r))) n /\ cursor (page_load_up p) = cursor p.
Proof.
  intros (H1 & H2 & H3 & H4 & H5 & H6) Hf. unfold page_load_up. rewrite Hf. rewrite Hf in H4.
  pose proof (frontier_anc r m fr H1 H4) as Ha.
  assert (Hq : (1 <= q)%nat) by lia.
  rewrite (Hpar fr q Hq), Ha. cbv beta iota. split; [|reflexivity].
  set (xs := firstn q (skipn m (anc r))).
  assert (Hlen : (m + length xs = Nat.min (m + q) (length (anc r)))%nat).
  { unfold xs. rewrite firstn_length, skipn_length. lia. }
  rewrite <- Hlen. unfold window, cursor in *. cbn [pg_feed pg_frontier pg_children pg_basepoint f_prepend f_index].
  split; [lia|]. split; [exact H2|]. split.
  { apply fwin_int_fwin, fwin_int_prepend; [apply fwin_fwin_int, H3|].
    intros j Hj. unfold xs in *. rewrite firstn_length in Hj. rewrite nth_error_firstn_lt by lia.
    apply nth_error_skipn_. }
  split; [|split; [exact H5|lia]].
  rewrite nth_error_skipn_. destruct (nth_error (anc r) (m + (q - 1))) as [a'|] eqn:E; cbn [frontier_at].
  - right. assert ((m + (q - 1) < length (anc r))%nat) by (apply nth_error_Some; congruence).
    split; [lia|]. rewrite Hlen. replace (Nat.min (m + q) (length (anc r)) - 1)%nat with (m + (q - 1))%nat by lia. exact E.
  - apply nth_error_None in E. lia.
Qed.

Lemma window_load_down r p m n c : window r p m n -> pg_children p = Some c ->
  window r (page_load_down p) m (Nat.min (n + q) (length (replies r))) /\ cursor (page_load_down p) = cursor p.
Proof.
  intros (H1 & H2 & H3 & H4 & H5 & H6) Hc. unfold page_load_down. rewrite Hc. rewrite Hc in H5.
  destruct H5 as [Hi Hb]. rewrite Hharv, Hi, Hb. cbv beta iota. split; [|reflexivity].
  set (xs := firstn q (skipn n (replies r))).
  assert (Hlen : (n + length xs = Nat.min (n + q) (length (replies r)))%nat).
  { unfold xs. rewrite firstn_length, skipn_length. lia. }
  rewrite <- Hlen. unfold window, cursor in *. cbn [pg_feed pg_frontier pg_children pg_basepoint f_append f_index].
  split; [exact H1|]. split; [lia|]. split.
  { apply fwin_int_fwin, fwin_int_append; [apply fwin_fwin_int, H3|].
    intros j Hj. unfold xs in *. rewrite firstn_length in Hj. rewrite nth_error_firstn_lt by lia.
    apply nth_error_skipn_. }
  split; [exact H4|]. split; [|lia].
  destruct (Nat.ltb (n + q) (length (replies r))) eqn:E; cbn [children_at].
  - split; [exact Hi|]. apply Nat.ltb_lt in E. lia.
  - apply Nat.ltb_ge in E. lia.
Qed.

(* where the moves lead, in terms of the thread, on a covered page *)
Lemma move_up_cursor r p m n : window r p m n -> covered r p ->
  f_index (f_move_up (pg_feed p)) = if thread_hasb r (cursor p - 1) then cursor p - 1 else cursor p.
Proof.
  intros Hw Hc. pose proof (contains_iff r p m n (-1) Hw) as Hi. unfold f_move_up.
  destruct (thread_hasb r (cursor p - 1)) eqn:E.
  - apply thread_hasb_true in E. destruct (Hc 1 ltac:(lia)) as [A _]. apply A in E.
    apply (pos_in_iff r p m n _ Hw) in E. destruct Hi as [_ Hi]. rewrite Hi by lia. reflexivity.
  - apply thread_hasb_false in E. destruct (f_contains (pg_feed p) (-1)); [|reflexivity].
    exfalso. apply E. apply thread_has_range. destruct Hi as [Hi _]. specialize (Hi eq_refl).
    destruct Hw as (H1 & H2 & _). lia.
Qed.

Lemma move_down_cursor r p m n : window r p m n -> covered r p ->
  f_index (f_move_down (pg_feed p)) = if thread_hasb r (cursor p + 1) then cursor p + 1 else cursor p.
Proof.
  intros Hw Hc. pose proof (contains_iff r p m n 1 Hw) as Hi. unfold f_move_down.
  destruct (thread_hasb r (cursor p + 1)) eqn:E.
  - apply thread_hasb_true in E. destruct (Hc 1 ltac:(lia)) as [_ A]. apply A in E.
    apply (pos_in_iff r p m n _ Hw) in E. destruct Hi as [_ Hi]. rewrite Hi by lia. reflexivity.
  - apply thread_hasb_false in E. destruct (f_contains (pg_feed p) 1); [|reflexivity].
    exfalso. apply E. apply thread_has_range. destruct Hi as [Hi _]. specialize (Hi eq_refl).
    destruct Hw as (H1 & H2 & _). lia.
Qed.

(* ---- theorem 1: the invariant, opening and loading ---- *)
Theorem thread_page_init : forall r, thread_page r (ipage r) /\ cursor (ipage r) = 0.
Proof. intros r. split; [exists 0%nat, 0%nat; apply window_init|reflexivity]. Qed.

Lemma thread_page_load_up_page r p : thread_page r p -> thread_page r (page_load_up p).
Proof.
  intros (m & n & H). destruct (pg_frontier p) as [fr|] eqn:E.
  - eexists _, n. apply (window_load_up r p m n fr H E).
  - exists m, n. unfold page_load_up. rewrite E. exact H.
Qed.

Lemma thread_page_load_down_page r p : thread_page r p -> thread_page r (page_load_down p).
Proof.
  intros (m & n & H). destruct (pg_children p) as [c|] eqn:E.
  - eexists m, _. apply (window_load_down r p m n c H E).
  - exists m, n. unfold page_load_down. rewrite E. exact H.
Qed.

(* ================================================================== the ui: tasks *)
(* ---- the other functions Ui.v abstracts over (nothing is assumed about them) ---- *)
Variable select_link : I -> Z -> option text.
Variable creators : I -> option (list I).
Variable recipients : I -> option (list I).
Variable actor_of : I -> option I.
Variable media : I -> option text.
Variable pfp : I -> option text.
Variable banner : I -> option text.
Variable open_link : text -> opened I C.
Variable open_user : text -> opened I C.
Variable feed_named : text -> option C.
Variable hook_fails : text -> option text.
Variable msg_unknown_feed : text -> text.
Variable msg_bad_command : text -> text.

Local Notation upd := (Ui.update I C preload parents children select_link creators recipients actor_of
                          media pfp banner open_link open_user feed_named msg_unknown_feed msg_bad_command).
Local Notation runt := (Ui.run_task I C preload parents children harvest hook_fails).
Local Notation lsur := (Ui.load_surroundings I C preload).
Local Notation settl := (Ui.settle I C preload parents children harvest hook_fails).
Local Notation wup := (UiFacts.want_up I C preload).
Local Notation wdown := (UiFacts.want_down I C preload).

Lemma settle_nil fuel (s : ui I C) : u_tasks s = [] -> settl fuel s = s.
Proof. intros H. destruct fuel; cbn [settle]; [reflexivity|]. unfold pop_task. rewrite H. reflexivity. Qed.

Definition drop_task (s : ui I C) (rest : list (task I C)) : ui I C :=
  mkui (u_pages s) (u_hist s) (u_mode s) (u_buffer s) (u_width s) (u_height s) rest (u_frames s).

Lemma settle_cons fuel (s : ui I C) t rest :
  u_tasks s = t :: rest -> settl (S fuel) s = settl fuel (runt (drop_task s rest) t).
Proof. intros H. cbn [settle]. unfold pop_task. rewrite H. reflexivity. Qed.

Lemma runt_up_eq (s : ui I C) k p : page_find (u_pages s) k = Some p -> pg_frontier p <> None ->
  runt s (TLoadUp k) = frame (with_pages s (page_set (u_pages s) k (page_load_up p))).
Proof.
  intros Hp Hf. unfold run_task, page_load_up. rewrite Hp.
  destruct (pg_frontier p) as [fr|]; [|congruence]. destruct (parents fr q) as [ps nf]. reflexivity.
Qed.

Lemma runt_down_eq (s : ui I C) k p : page_find (u_pages s) k = Some p -> pg_children p <> None ->
  runt s (TLoadDown k) = frame (with_pages s (page_set (u_pages s) k (page_load_down p))).
Proof.
  intros Hp Hf. unfold run_task, page_load_down. rewrite Hp.
  destruct (pg_children p) as [c|]; [|congruence].
  destruct (harvest c q (pg_basepoint p)) as [[items next] base]. reflexivity.
Qed.

(* theorem 1, for the state: a completing loader keeps the page concerned a window of the thread *)
Theorem thread_page_load_up : forall (s : ui I C) r k p,
  page_find (u_pages s) k = Some p -> thread_page r p ->
  exists p', page_find (u_pages (runt s (TLoadUp k))) k = Some p' /\ thread_page r p'.
Proof.
  intros s r k p Hp Ht. destruct (pg_frontier p) as [fr|] eqn:E.
  - rewrite (runt_up_eq s k p Hp) by congruence. cbn [frame with_pages u_pages].
    exists (page_load_up p). split; [apply (page_find_set_same I C _ _ p), Hp|].
    apply thread_page_load_up_page, Ht.
  - exists p. split; [|exact Ht]. unfold run_task. rewrite Hp, E. exact Hp.
Qed.

Theorem thread_page_load_down : forall (s : ui I C) r k p,
  page_find (u_pages s) k = Some p -> thread_page r p ->
  exists p', page_find (u_pages (runt s (TLoadDown k))) k = Some p' /\ thread_page r p'.
Proof.
  intros s r k p Hp Ht. destruct (pg_children p) as [c|] eqn:E.
  - rewrite (runt_down_eq s k p Hp) by congruence. cbn [frame with_pages u_pages].
    exists (page_load_down p). split; [apply (page_find_set_same I C _ _ p), Hp|].
    apply thread_page_load_down_page, Ht.
  - exists p. split; [|exact Ht]. unfold run_task. rewrite Hp, E. exact Hp.
Qed.

(* the (at most two) loaders loadSurroundings started run to completion *)
Lemma settle_loads fuel (s : ui I C) k p (bu bd : bool) :
  (2 <= fuel)%nat -> page_find (u_pages s) k = Some p ->
  u_tasks s = (if bu then [TLoadUp k] else []) ++ (if bd then [TLoadDown k] else []) ->
  (bu = true -> pg_frontier p <> None) -> (bd = true -> pg_children p <> None) ->
  let p1 := if bu then page_load_up p else p in
  let p2 := if bd then page_load_down p1 else p1 in
  u_hist (settl fuel s) = u_hist s /\ u_mode (settl fuel s) = u_mode s /\ u_tasks (settl fuel s) = [] /\
  page_find (u_pages (settl fuel s)) k = Some p2.
Proof.
  intros Hf Hp Ht Hu Hd. destruct fuel as [|[|fuel]]; [lia|lia|]. cbv zeta.
  destruct bu, bd; cbn [app] in Ht.
  - rewrite (settle_cons _ _ _ _ Ht).
    rewrite (runt_up_eq (drop_task s [TLoadDown k]) k p Hp (Hu eq_refl)).
    set (s1 := frame (with_pages (drop_task s [TLoadDown k]) (page_set (u_pages (drop_task s [TLoadDown k])) k (page_load_up p)))).
    assert (Hp1 : page_find (u_pages s1) k = Some (page_load_up p)).
    { unfold s1. cbn [frame with_pages u_pages drop_task]. apply (page_find_set_same I C _ _ p), Hp. }
    rewrite (settle_cons fuel s1 (TLoadDown k) [] eq_refl).
    rewrite (runt_down_eq (drop_task s1 []) k (page_load_up p) Hp1)
      by (rewrite page_load_up_children; apply Hd; reflexivity).
    rewrite settle_nil by reflexivity.
    cbn [frame with_pages u_pages u_hist u_mode u_tasks drop_task s1].
    repeat split. apply (page_find_set_same I C _ _ (page_load_up p)).
    apply (page_find_set_same I C _ _ p), Hp.
  - rewrite (settle_cons _ _ _ _ Ht).
    rewrite (runt_up_eq (drop_task s []) k p Hp (Hu eq_refl)).
    rewrite settle_nil by reflexivity.
    cbn [frame with_pages u_pages u_hist u_mode u_tasks drop_task].
    repeat split. apply (page_find_set_same I C _ _ p), Hp.
  - rewrite (settle_cons _ _ _ _ Ht).
    rewrite (runt_down_eq (drop_task s []) k p Hp (Hd eq_refl)).
    rewrite settle_nil by reflexivity.
    cbn [frame with_pages u_pages u_hist u_mode u_tasks drop_task].
    repeat split. apply (page_find_set_same I C _ _ p), Hp.
  - rewrite settle_nil by exact Ht. repeat split; [exact Ht|exact Hp].
Qed.

(* ================================================================== loadSurroundings *)
Definition flagged (p : page I C) (bu bd : bool) : page I C :=
  mkpage (pg_feed p) (pg_frontier p) bu (pg_children p) (pg_basepoint p) bd.

(* what loadSurroundings does to an idle page *)
Lemma lsur_fields (s : ui I C) k p :
  cur_pid s = Some k -> page_find (u_pages s) k = Some p ->
  pg_loading_up p = false -> pg_loading_down p = false ->
  u_hist (lsur s) = u_hist s /\ u_mode (lsur s) = u_mode s /\
  u_tasks (lsur s) = u_tasks s ++ (if wup p then [TLoadUp k] else []) ++ (if wdown p then [TLoadDown k] else []) /\
  page_find (u_pages (lsur s)) k = Some (flagged p (wup p) (wdown p)).
Proof.
  intros Hk Hp Eu Ed. rewrite (lsur_eq I C preload s k p Hk Hp). cbv zeta.
  assert (Epp : p = flagged p false false).
  { destruct p as [f fr lu ch b ld]. cbn in Eu, Ed. subst. reflexivity. }
  destruct (wup p) eqn:Wu.
  - change (wdown (mark_up p)) with (wdown p). destruct (wdown p) eqn:Wd.
    + cbn [start_down start_up spawn with_pages u_hist u_mode u_tasks u_pages].
      repeat split.
      * rewrite <- app_assoc. reflexivity.
      * erewrite (page_find_set_same I C); [unfold flagged, mark_up; cbn [pg_feed pg_frontier pg_children pg_basepoint pg_loading_up]; reflexivity|].
        apply (page_find_set_same I C _ _ p), Hp.
    + cbn [start_up spawn with_pages u_hist u_mode u_tasks u_pages]. repeat split.
      erewrite (page_find_set_same I C); [unfold flagged, mark_up; rewrite Ed; reflexivity|exact Hp].
  - destruct (wdown p) eqn:Wd.
    + cbn [start_down spawn with_pages u_hist u_mode u_tasks u_pages]. repeat split.
      erewrite (page_find_set_same I C); [unfold flagged; rewrite Eu; reflexivity|exact Hp].
    + repeat split; [rewrite app_nil_r; reflexivity|]. rewrite Hp. f_equal. exact Epp.
Qed.

(* the page after loadSurroundings and its loaders: a window again, no smaller, same cursor, covered *)
Lemma surround_page r p m n : window r p m n -> pg_loading_up p = false -> pg_loading_down p = false ->
  let pf := flagged p (wup p) (wdown p) in
  let p1 := if wup p then page_load_up pf else pf in
  let p2 := if wdown p then page_load_down p1 else p1 in
  exists m' n', window r p2 m' n' /\ (m <= m')%nat /\ (n <= n')%nat /\ cursor p2 = cursor p /\ covered r p2.
Proof.
  intros Hw Eu Ed. cbv zeta.
  set (pf := flagged p (wup p) (wdown p)).
  assert (Hwf : window r pf m n) by (apply (window_ext r p pf m n); try reflexivity; exact Hw).
  pose proof Hw as (Hm & Hn & _ & Hfr & Hch & Hcur).
  (* upwards *)
  assert (S1 : exists m1, window r (if wup p then page_load_up pf else pf) m1 n /\ (m <= m1)%nat /\
                 cursor (if wup p then page_load_up pf else pf) = cursor p /\
                 pg_children (if wup p then page_load_up pf else pf) = pg_children p /\
                 (cursor p - preload >= - Z.of_nat m1 \/ m1 = length (anc r))).
  { destruct (wup p) eqn:Wu.
    - destruct (want_up_true I C preload p Wu) as [_ Hne].
      destruct (pg_frontier p) as [fr|] eqn:Ef; [|congruence].
      destruct (window_load_up r pf m n fr Hwf Ef) as [A B].
      exists (Nat.min (m + q) (length (anc r))). split; [exact A|]. split; [lia|]. split; [exact B|].
      split; [rewrite page_load_up_children; reflexivity|]. lia.
    - exists m. split; [exact Hwf|]. split; [lia|]. split; [reflexivity|]. split; [reflexivity|].
      unfold want_up in Wu. rewrite Eu in Wu. cbn [negb andb] in Wu.
      destruct (f_contains (pg_feed p) (- preload)) eqn:Ec.
      + apply (contains_iff r p m n _ Hw) in Ec. left. lia.
      + cbn [negb andb] in Wu. destruct (pg_frontier p); [discriminate|]. right. exact Hfr. }
  destruct S1 as (m1 & W1 & Hm1 & C1 & K1 & U1).
  set (p1 := if wup p then page_load_up pf else pf) in *.
  (* downwards *)
  assert (S2 : exists n2, window r (if wdown p then page_load_down p1 else p1) m1 n2 /\ (n <= n2)%nat /\
                 cursor (if wdown p then page_load_down p1 else p1) = cursor p /\
                 (cursor p + preload <= Z.of_nat n2 \/ n2 = length (replies r))).
  { destruct (wdown p) eqn:Wd.
    - destruct (want_down_true I C preload p Wd) as [_ Hne].
      destruct (pg_children p) as [c|] eqn:Ec; [|congruence].
      destruct (window_load_down r p1 m1 n c W1 K1) as [A B].
      exists (Nat.min (n + q) (length (replies r))). split; [exact A|]. split; [lia|]. split; [congruence|]. lia.
    - exists n. split; [exact W1|]. split; [lia|]. split; [exact C1|].
      unfold want_down in Wd. rewrite Ed in Wd. cbn [negb andb] in Wd.
      destruct (f_contains (pg_feed p) preload) eqn:Ec.
      + apply (contains_iff r p m n _ Hw) in Ec. left. lia.
      + cbn [negb andb] in Wd. destruct (pg_children p); [discriminate|]. right. exact Hch. }
  destruct S2 as (n2 & W2 & Hn2 & C2 & D2).
  exists m1, n2. split; [exact W2|]. split; [exact Hm1|]. split; [exact Hn2|]. split; [exact C2|].
  unfold covered. rewrite C2. apply (covered_at_intro r _ m1 n2 _ W2); [exact U1|exact D2|lia].
Qed.

(* loadSurroundings on an idle window page of a state with nothing pending, wrapped in whatever
   leaves pages, history and tasks alone (frame, set_mode), then settled *)
Lemma lsur_settle (s s2 : ui I C) r k p m n fuel :
  (2 <= fuel)%nat -> cur_pid s = Some k -> page_find (u_pages s) k = Some p -> u_tasks s = [] ->
  pg_loading_up p = false -> pg_loading_down p = false -> window r p m n ->
  u_pages s2 = u_pages (lsur s) -> u_hist s2 = u_hist (lsur s) -> u_tasks s2 = u_tasks (lsur s) ->
  u_hist (settl fuel s2) = u_hist s /\ u_mode (settl fuel s2) = u_mode s2 /\ u_tasks (settl fuel s2) = [] /\
  exists p' m' n', page_find (u_pages (settl fuel s2)) k = Some p' /\ window r p' m' n' /\
    (m <= m')%nat /\ (n <= n')%nat /\ cursor p' = cursor p /\ covered r p'.
Proof.
  intros Hf Hk Hp Ht Eu Ed Hw E1 E2 E3.
  destruct (lsur_fields s k p Hk Hp Eu Ed) as (L1 & L2 & L3 & L4).
  rewrite Ht in L3. cbn [app] in L3.
  assert (Hp2 : page_find (u_pages s2) k = Some (flagged p (wup p) (wdown p))) by (rewrite E1; exact L4).
  assert (Ht2 : u_tasks s2 = (if wup p then [TLoadUp k] else []) ++ (if wdown p then [TLoadDown k] else []))
    by (rewrite E3; exact L3).
  assert (Hu : wup p = true -> pg_frontier (flagged p (wup p) (wdown p)) <> None)
    by (intros W; apply (want_up_true I C preload p W)).
  assert (Hd : wdown p = true -> pg_children (flagged p (wup p) (wdown p)) <> None)
    by (intros W; apply (want_down_true I C preload p W)).
  destruct (settle_loads fuel s2 k _ (wup p) (wdown p) Hf Hp2 Ht2 Hu Hd) as (A1 & A2 & A3 & A4).
  split; [rewrite A1, E2; exact L1|]. split; [exact A2|]. split; [exact A3|].
  destruct (surround_page r p m n Hw Eu Ed) as (m' & n' & B).
  eexists _, m', n'. split; [exact A4|]. exact B.
Qed.

(* with nothing pending, no page is marked as loading *)
Lemma idle_flags (s : ui I C) k p : ui_inv s -> u_tasks s = [] -> page_find (u_pages s) k = Some p ->
  pg_loading_up p = false /\ pg_loading_down p = false.
Proof.
  intros (_ & _ & _ & _ & _ & H6 & _) Ht Hp. destruct (H6 k p Hp) as [A B]. rewrite Ht in A, B.
  unfold count_up, count_down in A, B. cbn in A, B.
  destruct (pg_loading_up p), (pg_loading_down p); cbn in A, B; try discriminate; split; reflexivity.
Qed.

(* ================================================================== the keys *)
Lemma cur_item_window (s : ui I C) r k p m n :
  cur_pid s = Some k -> page_find (u_pages s) k = Some p -> window r p m n ->
  cur_item s = thread_at r (cursor p).
Proof.
  intros Hk Hp Hw. unfold cur_item, cur_page. rewrite Hk, Hp. apply (window_current r p m n Hw).
Qed.

(* k / j: the move, loadSurroundings, the frame, then the loaders *)
Lemma move_key_settle (gf : feed I -> feed I) (s s1 : ui I C) r k p m n fuel :
  ui_inv s -> u_tasks s = [] -> cur_pid s = Some k -> page_find (u_pages s) k = Some p ->
  (2 <= fuel)%nat ->
  window r (page_with_feed p (gf (pg_feed p))) m n ->
  s1 = frame (lsur (update_cur_page s (fun p0 => page_with_feed p0 (gf (pg_feed p0))))) ->
  u_hist (settl fuel s1) = u_hist s /\ u_mode (settl fuel s1) = u_mode s /\ u_tasks (settl fuel s1) = [] /\
  exists p' m' n', page_find (u_pages (settl fuel s1)) k = Some p' /\ window r p' m' n' /\
    (m <= m')%nat /\ (n <= n')%nat /\ cursor p' = f_index (gf (pg_feed p)) /\ covered r p'.
Proof.
  intros Hi Ht Hk Hp Hf Hw ->. rewrite (update_cur_page_eq I C s k p _ Hk Hp).
  set (pm := page_with_feed p (gf (pg_feed p))) in *.
  set (s0 := with_pages s (page_set (u_pages s) k pm)).
  destruct (idle_flags s k p Hi Ht Hp) as [Eu Ed].
  assert (Hp0 : page_find (u_pages s0) k = Some pm)
    by (unfold s0; cbn [with_pages u_pages]; apply (page_find_set_same I C _ _ p), Hp).
  destruct (lsur_settle s0 (frame (lsur s0)) r k pm m n fuel Hf Hk Hp0 Ht Eu Ed Hw eq_refl eq_refl eq_refl)
    as (A1 & A2 & A3 & A4).
  split; [exact A1|]. split; [|split; [exact A3|exact A4]].
  rewrite A2. cbn [frame u_mode]. rewrite (lsur_mode I C preload s0). reflexivity.
Qed.

Lemma upd_key_k (s : ui I C) it : u_mode s = MNormal -> cur_item s = Some it ->
  upd s 107%N = frame (lsur (update_cur_page s (fun p0 => page_with_feed p0 (f_move_up (pg_feed p0))))).
Proof.
  intros Em Hi. rewrite upd_normal by (try exact Em; reflexivity). unfold normal_key. rewrite Hi. reflexivity.
Qed.

Lemma upd_key_j (s : ui I C) it : u_mode s = MNormal -> cur_item s = Some it ->
  upd s 106%N = frame (lsur (update_cur_page s (fun p0 => page_with_feed p0 (f_move_down (pg_feed p0))))).
Proof.
  intros Em Hi. rewrite upd_normal by (try exact Em; reflexivity). unfold normal_key. rewrite Hi. reflexivity.
Qed.

Lemma upd_key_g (s : ui I C) it : u_mode s = MNormal -> cur_item s = Some it ->
  upd s 103%N = frame (update_cur_page s (fun p0 => page_with_feed p0 (f_move_to_center (pg_feed p0)))).
Proof.
  intros Em Hi. rewrite upd_normal by (try exact Em; reflexivity). unfold normal_key. rewrite Hi. reflexivity.
Qed.

Lemma window_cur_item (s : ui I C) r k p m n :
  cur_pid s = Some k -> page_find (u_pages s) k = Some p -> window r p m n -> exists it, cur_item s = Some it.
Proof.
  intros Hk Hp Hw. destruct (window_current_some r p m n Hw) as [it E]. exists it.
  apply (cur_item_some I C s k p it Hk Hp E).
Qed.

(* ---- theorem 2: k ---- *)
Theorem key_up_refines_fact : forall (s : ui I C) (r : I) (k : nat) (p : page I C) (fuel : nat),
  ui_inv s -> u_mode s = MNormal -> u_tasks s = [] ->
  cur_pid s = Some k -> page_find (u_pages s) k = Some p ->
  thread_page r p -> covered r p -> (2 <= fuel)%nat ->
  let s' := settl fuel (upd s 107%N) in
  ui_inv s' /\ u_mode s' = MNormal /\ u_tasks s' = [] /\ cur_pid s' = Some k /\
  exists p', page_find (u_pages s') k = Some p' /\ thread_page r p' /\ covered r p' /\
    cursor p' = (if thread_hasb r (cursor p - 1) then cursor p - 1 else cursor p) /\
    cur_item s' = thread_at r (cursor p') /\
    (forall x, covered_at r p x -> covered_at r p' x).
Proof.
  intros s r k p fuel Hi Em Ht Hk Hp (m & n & Hw) Hc Hf s'. subst s'.
  split; [apply settle_inv_fact, update_inv_fact, Hi|].
  destruct (window_cur_item s r k p m n Hk Hp Hw) as [it Hit].
  pose proof (window_move_up r p m n Hw) as Hwm.
  destruct (move_key_settle f_move_up s _ r k p m n fuel Hi Ht Hk Hp Hf Hwm (upd_key_k s it Em Hit))
    as (A1 & A2 & A3 & p' & m' & n' & B1 & B2 & B3 & B4 & B5 & B6).
  assert (Hk' : cur_pid (settl fuel (upd s 107%N)) = Some k) by (unfold cur_pid; rewrite A1; exact Hk).
  split; [rewrite A2; exact Em|]. split; [exact A3|]. split; [exact Hk'|].
  exists p'. split; [exact B1|]. split; [exists m', n'; exact B2|]. split; [exact B6|].
  split; [rewrite B5; apply (move_up_cursor r p m n Hw Hc)|].
  split; [apply (cur_item_window _ r k p' m' n' Hk' B1 B2)|].
  intros x Hx. apply (covered_at_mono r p p' m n m' n' x Hw B2 B3 B4 Hx).
Qed.

(* ---- theorem 2: j ---- *)
Theorem key_down_refines_fact : forall (s : ui I C) (r : I) (k : nat) (p : page I C) (fuel : nat),
  ui_inv s -> u_mode s = MNormal -> u_tasks s = [] ->
  cur_pid s = Some k -> page_find (u_pages s) k = Some p ->
  thread_page r p -> covered r p -> (2 <= fuel)%nat ->
  let s' := settl fuel (upd s 106%N) in
  ui_inv s' /\ u_mode s' = MNormal /\ u_tasks s' = [] /\ cur_pid s' = Some k /\
  exists p', page_find (u_pages s') k = Some p' /\ thread_page r p' /\ covered r p' /\
    cursor p' = (if thread_hasb r (cursor p + 1) then cursor p + 1 else cursor p) /\
    cur_item s' = thread_at r (cursor p') /\
    (forall x, covered_at r p x -> covered_at r p' x).
Proof.
  intros s r k p fuel Hi Em Ht Hk Hp (m & n & Hw) Hc Hf s'. subst s'.
  split; [apply settle_inv_fact, update_inv_fact, Hi|].
  destruct (window_cur_item s r k p m n Hk Hp Hw) as [it Hit].
  pose proof (window_move_down r p m n Hw) as Hwm.
  destruct (move_key_settle f_move_down s _ r k p m n fuel Hi Ht Hk Hp Hf Hwm (upd_key_j s it Em Hit))
    as (A1 & A2 & A3 & p' & m' & n' & B1 & B2 & B3 & B4 & B5 & B6).
  assert (Hk' : cur_pid (settl fuel (upd s 106%N)) = Some k) by (unfold cur_pid; rewrite A1; exact Hk).
  split; [rewrite A2; exact Em|]. split; [exact A3|]. split; [exact Hk'|].
  exists p'. split; [exact B1|]. split; [exists m', n'; exact B2|]. split; [exact B6|].
  split; [rewrite B5; apply (move_down_cursor r p m n Hw Hc)|].
  split; [apply (cur_item_window _ r k p' m' n' Hk' B1 B2)|].
  intros x Hx. apply (covered_at_mono r p p' m n m' n' x Hw B2 B3 B4 Hx).
Qed.

(* ---- theorem 2: g.  The key does NOT call loadSurroundings (ui.go: case "g" only moves the
   cursor), so coverage around the new cursor (position 0) is not re-established by the key: it
   holds afterwards exactly when it held around position 0 before (see
   key_center_refines_refuted below for a state where it does not).  Everything else is as for
   k / j, for any fuel. ---- *)
Theorem key_center_refines_partial_fact : forall (s : ui I C) (r : I) (k : nat) (p : page I C) (fuel : nat),
  ui_inv s -> u_mode s = MNormal -> u_tasks s = [] ->
  cur_pid s = Some k -> page_find (u_pages s) k = Some p ->
  thread_page r p ->
  let s' := settl fuel (upd s 103%N) in
  ui_inv s' /\ u_mode s' = MNormal /\ u_tasks s' = [] /\ cur_pid s' = Some k /\
  exists p', page_find (u_pages s') k = Some p' /\ thread_page r p' /\
    cursor p' = 0 /\
    cur_item s' = thread_at r (cursor p') /\
    (forall x, covered_at r p x -> covered_at r p' x) /\
    (covered_at r p 0 -> covered r p').
Proof.
  intros s r k p fuel Hi Em Ht Hk Hp (m & n & Hw) s'. subst s'.
  split; [apply settle_inv_fact, update_inv_fact, Hi|].
  destruct (window_cur_item s r k p m n Hk Hp Hw) as [it Hit].
  rewrite (upd_key_g s it Em Hit). rewrite (update_cur_page_eq I C s k p _ Hk Hp).
  rewrite settle_nil by exact Ht. cbn [frame with_pages u_mode u_tasks u_pages].
  destruct (window_move_center r p m n Hw) as [Hwm Hc0].
  set (pm := page_with_feed p (f_move_to_center (pg_feed p))) in *.
  split; [exact Em|]. split; [exact Ht|]. split; [exact Hk|].
  exists pm. split; [apply (page_find_set_same I C _ _ p), Hp|]. split; [exists m, n; exact Hwm|].
  split; [exact Hc0|]. split.
  { apply (cur_item_window _ r k pm m n); [exact Hk| |exact Hwm].
    cbn [frame with_pages u_pages]. apply (page_find_set_same I C _ _ p), Hp. }
  assert (Hmono : forall x, covered_at r p x -> covered_at r pm x)
    by (intros x Hx; apply (covered_at_mono r p pm m n m n x Hw Hwm); [lia|lia|exact Hx]).
  split; [exact Hmono|]. intros H0. unfold covered. rewrite Hc0. apply Hmono, H0.
Qed.

(* ================================================================== opening *)
Lemma h_current_add_ok (h : hist nat) (y : nat) :
  (h_elems h = [] /\ h_index h = 0%nat \/ (h_index h < length (h_elems h))%nat) ->
  h_current (h_add h y) = Some y.
Proof.
  intros H. unfold h_current, h_add. destruct (h_elems h) as [|a l] eqn:El; [reflexivity|].
  destruct H as [[H _]|H]; [discriminate|]. cbn [h_elems h_index].
  rewrite nth_error_app2; rewrite firstn_length; [|lia].
  replace (h_index h + 1 - Nat.min (h_index h + 1) (length (a :: l)))%nat with 0%nat by lia. reflexivity.
Qed.

(* ---- theorem 3 ---- *)
Theorem open_refines_fact : forall (s : ui I C) (r : I) (fuel : nat),
  ui_inv s -> u_tasks s = [] -> (2 <= fuel)%nat ->
  let s' := settl fuel (runt s (TOpen (OItem r))) in
  ui_inv s' /\ u_mode s' = MNormal /\ u_tasks s' = [] /\
  exists k p, cur_pid s' = Some k /\ page_find (u_pages s') k = Some p /\
    thread_page r p /\ covered r p /\ cursor p = 0 /\ cur_item s' = Some r.
Proof.
  intros s r fuel Hi Ht Hf s'. subst s'.
  split; [apply settle_inv_fact, inv_runt_other; [exact Hi|reflexivity]|].
  cbn [run_task switch_opened]. unfold switch_item.
  set (s1 := add_page s (ipage r)). set (K := length (u_pages s)).
  assert (Hk1 : cur_pid s1 = Some K).
  { unfold cur_pid, s1. cbn [add_page with_hist u_hist]. apply h_current_add_ok.
    destruct Hi as (_ & _ & _ & H4 & _). exact H4. }
  assert (Hp1 : page_find (u_pages s1) K = Some (ipage r)).
  { unfold s1, K. cbn [add_page with_hist with_pages u_pages page_find]. rewrite Nat.eqb_refl. reflexivity. }
  assert (Ht1 : u_tasks s1 = []) by exact Ht.
  destruct (lsur_settle s1 (frame (set_mode (lsur s1) MNormal [])) r K (ipage r) 0 0 fuel Hf Hk1 Hp1 Ht1
              eq_refl eq_refl (window_init r) eq_refl eq_refl eq_refl)
    as (A1 & A2 & A3 & p' & m' & n' & B1 & B2 & B3 & B4 & B5 & B6).
  split; [rewrite A2; reflexivity|]. split; [exact A3|].
  assert (Hk' : cur_pid (settl fuel (frame (set_mode (lsur s1) MNormal []))) = Some K)
    by (unfold cur_pid; rewrite A1; exact Hk1).
  exists K, p'. split; [exact Hk'|]. split; [exact B1|]. split; [exists m', n'; exact B2|].
  split; [exact B6|]. split; [exact B5|].
  rewrite (cur_item_window _ r K p' m' n' Hk' B1 B2), B5. reflexivity.
Qed.

(* ================================================================== key sequences *)
Definition key_ok (key : N) : Prop := key = 107%N \/ key = 106%N \/ key = 103%N.

(* the abstract walk: move if the thread has the position *)
Definition step_pos (r : I) (x : Z) (key : N) : Z :=
  if N.eqb key 107 then (if thread_hasb r (x - 1) then x - 1 else x)
  else if N.eqb key 106 then (if thread_hasb r (x + 1) then x + 1 else x)
  else if N.eqb key 103 then 0
  else x.
Definition walk_from (r : I) (x : Z) (keys : list N) : Z := fold_left (step_pos r) keys x.
Definition walk (r : I) (keys : list N) : Z := walk_from r 0 keys.

(* the program: each key, then the background loads settle *)
Definition browse (fuel : nat) (s : ui I C) (keys : list N) : ui I C :=
  fold_left (fun s0 key => settl fuel (upd s0 key)) keys s.

(* the invariant of the walk: an idle state in normal mode whose current page is a window of r's
   thread, covered around the cursor AND around the opened item (what g needs), cursor at x *)
Definition at_pos (r : I) (s : ui I C) (x : Z) : Prop :=
  ui_inv s /\ u_mode s = MNormal /\ u_tasks s = [] /\
  exists k p, cur_pid s = Some k /\ page_find (u_pages s) k = Some p /\
    thread_page r p /\ covered r p /\ covered_at r p 0 /\ cursor p = x.

Lemma at_pos_item r s x : at_pos r s x -> cur_item s = thread_at r x /\ thread_has r x.
Proof.
  intros (_ & _ & _ & k & p & Hk & Hp & (m & n & Hw) & _ & _ & <-).
  split; [apply (cur_item_window s r k p m n Hk Hp Hw)|].
  destruct Hw as (H1 & H2 & _ & _ & _ & H6). apply thread_has_range. lia.
Qed.

Lemma at_pos_open (s : ui I C) r fuel : ui_inv s -> u_tasks s = [] -> (2 <= fuel)%nat ->
  at_pos r (settl fuel (runt s (TOpen (OItem r)))) 0.
Proof.
  intros Hi Ht Hf. destruct (open_refines_fact s r fuel Hi Ht Hf) as (A1 & A2 & A3 & k & p & B1 & B2 & B3 & B4 & B5 & _).
  split; [exact A1|]. split; [exact A2|]. split; [exact A3|].
  exists k, p. split; [exact B1|]. split; [exact B2|]. split; [exact B3|]. split; [exact B4|].
  split; [|exact B5]. unfold covered in B4. rewrite B5 in B4. exact B4.
Qed.

Lemma at_pos_step r s x key fuel : at_pos r s x -> key_ok key -> (2 <= fuel)%nat ->
  at_pos r (settl fuel (upd s key)) (step_pos r x key).
Proof.
  intros (Hi & Em & Ht & k & p & Hk & Hp & Htp & Hc & H0 & <-) [ -> | [ -> | -> ] ] Hf.
  - destruct (key_up_refines_fact s r k p fuel Hi Em Ht Hk Hp Htp Hc Hf)
      as (A1 & A2 & A3 & A4 & p' & B1 & B2 & B3 & B4 & _ & B6).
    split; [exact A1|]. split; [exact A2|]. split; [exact A3|]. exists k, p'.
    split; [exact A4|]. split; [exact B1|]. split; [exact B2|]. split; [exact B3|]. split; [apply B6, H0|exact B4].
  - destruct (key_down_refines_fact s r k p fuel Hi Em Ht Hk Hp Htp Hc Hf)
      as (A1 & A2 & A3 & A4 & p' & B1 & B2 & B3 & B4 & _ & B6).
    split; [exact A1|]. split; [exact A2|]. split; [exact A3|]. exists k, p'.
    split; [exact A4|]. split; [exact B1|]. split; [exact B2|]. split; [exact B3|]. split; [apply B6, H0|exact B4].
  - destruct (key_center_refines_partial_fact s r k p fuel Hi Em Ht Hk Hp Htp)
      as (A1 & A2 & A3 & A4 & p' & B1 & B2 & B3 & _ & B5 & B6).
    split; [exact A1|]. split; [exact A2|]. split; [exact A3|]. exists k, p'.
    split; [exact A4|]. split; [exact B1|]. split; [exact B2|]. split; [apply B6, H0|]. split; [apply B5, H0|exact B3].
Qed.

Lemma at_pos_browse r fuel keys : (2 <= fuel)%nat -> Forall key_ok keys ->
  forall s x, at_pos r s x -> at_pos r (browse fuel s keys) (walk_from r x keys).
Proof.
  intros Hf Hk. induction Hk as [|key keys Hkey _ IH]; intros s x H; [exact H|].
  unfold browse, walk_from. cbn [fold_left]. apply IH. apply at_pos_step; assumption.
Qed.

(* g on a page opened and browsed with k / j / g does land on a covered position: the window
   around the opened item was loaded when the page was opened, and windows only grow.  (This is
   NOT the statement asked for g, which has [covered r p] in the place of [at_pos]'s
   [covered_at r p 0] and is false: key_center_refines_refuted.) *)
Theorem key_center_opened_partial_fact : forall (s : ui I C) (r : I) (x : Z) (fuel : nat),
  at_pos r s x -> (2 <= fuel)%nat -> at_pos r (settl fuel (upd s 103%N)) 0.
Proof. intros s r x fuel H Hf. apply (at_pos_step r s x 103%N fuel H); [right; right; reflexivity|exact Hf]. Qed.

(* ---- theorem 4 ---- *)
Theorem thread_walk_refines_fact : forall (s : ui I C) (r : I) (fuel : nat) (keys : list N),
  ui_inv s -> u_tasks s = [] -> (2 <= fuel)%nat -> Forall key_ok keys ->
  let s0 := settl fuel (runt s (TOpen (OItem r))) in
  cur_item (browse fuel s0 keys) = thread_at r (walk r keys) /\ thread_has r (walk r keys) /\
  at_pos r (browse fuel s0 keys) (walk r keys).
Proof.
  intros s r fuel keys Hi Ht Hf Hk s0.
  pose proof (at_pos_browse r fuel keys Hf Hk s0 0 (at_pos_open s r fuel Hi Ht Hf)) as H.
  destruct (at_pos_item r _ _ H) as [A B]. split; [exact A|]. split; [exact B|exact H].
Qed.

(* the same from the state "open <input>" starts the program in (FrameFacts.start_open) *)
Theorem thread_walk_from_start_fact : forall (w h : Z) (input : text) (r : I) (fuel : nat) (keys : list N),
  open_user input = OItem r -> (2 <= fuel)%nat -> Forall key_ok keys ->
  let s0 := settl (S fuel) (start_open I C open_user w h input) in
  cur_item (browse fuel s0 keys) = thread_at r (walk r keys) /\ thread_has r (walk r keys).
Proof.
  intros w h input r fuel keys Ho Hf Hk s0.
  set (sb := frame (set_mode (ui_init (I := I) (C := C) w h) MLoading [])).
  assert (E : s0 = settl fuel (runt sb (TOpen (OItem r)))).
  { unfold s0. rewrite <- Ho.
    exact (settle_cons fuel (spawn sb (TOpen (open_user input))) (TOpen (open_user input)) [] eq_refl). }
  rewrite E.
  assert (Hi : ui_inv sb).
  { unfold sb. apply inv_frame, inv_set_mode; [apply init_inv_fact|congruence]. }
  destruct (thread_walk_refines_fact sb r fuel keys Hi eq_refl Hf Hk) as (A & B & _). split; assumption.
Qed.

End Thread.

(* ================================================================== a concrete world *)
(* items are numbers; 5 is the opened item, its ancestors are 4, 3, 2, 1, 0 (nearest first) and
   its replies 6, 7, 8, 9; containers are plain lists; preload (network context) is 2 *)
Definition tw_anc (i : nat) : list nat :=
  match i with
  | 0 => [] | 1 => [0] | 2 => [1; 0] | 3 => [2; 1; 0] | 4 => [3; 2; 1; 0] | 5 => [4; 3; 2; 1; 0]
  | _ => [5; 4; 3; 2; 1; 0]
  end%nat.
Definition tw_kids (i : nat) : option (list nat) := if Nat.eqb i 5 then Some [6; 7; 8; 9]%nat else None.
Definition tw_items (c : list nat) : list nat := c.
Definition tw_parents (i qq : nat) : list nat * option nat :=
  match qq with
  | O => ([], match tw_anc i with [] => None | _ => Some i end)
  | _ => (firstn qq (tw_anc i), nth_error (tw_anc i) (qq - 1))
  end.
Definition tw_children (i : nat) : option (list nat) := tw_kids i.
Definition tw_harvest (c : list nat) (qq b : nat) : list nat * option (list nat) * nat :=
  (firstn qq (skipn b c),
   (if Nat.ltb (b + qq) (length c) then Some c else None),
   (if Nat.ltb (b + qq) (length c) then b + qq else 0)%nat).
Definition tw_nolink : nat -> Z -> option text := fun _ _ => None.
Definition tw_nolist : nat -> option (list nat) := fun _ => None.
Definition tw_noitem : nat -> option nat := fun _ => None.
Definition tw_notext : nat -> option text := fun _ => None.
Definition tw_open : text -> opened nat (list nat) := fun _ => @OItem nat (list nat) 5%nat.
Definition tw_nofeed : text -> option (list nat) := fun _ => None.
Definition tw_hook : text -> option text := fun _ => None.
Definition tw_msg : text -> text := fun t => t.

Lemma tw_Hpre : 1 <= 2. Proof. lia. Qed.
Lemma tw_Hpar0 : forall i, tw_parents i 0 = ([], match tw_anc i with [] => None | _ => Some i end).
Proof. reflexivity. Qed.
Lemma tw_Hpar : forall i qq, (1 <= qq)%nat -> tw_parents i qq = (firstn qq (tw_anc i), nth_error (tw_anc i) (qq - 1)).
Proof. intros i qq H. destruct qq; [lia|reflexivity]. Qed.
Lemma tw_Hanc : forall i k a, nth_error (tw_anc i) k = Some a -> tw_anc a = skipn (S k) (tw_anc i).
Proof.
  intros i k a H. do 6 (try destruct i as [|i]); do 7 (try destruct k as [|k]);
    cbn in H; try discriminate H; injection H as <-; reflexivity.
Qed.
Lemma tw_Hkids : forall i, match tw_kids i with
                           | None => tw_children i = None
                           | Some l => exists c, tw_children i = Some c /\ tw_items c = l
                           end.
Proof.
  intros i. unfold tw_children, tw_kids. destruct (Nat.eqb i 5); [|reflexivity].
  eexists. split; reflexivity.
Qed.
Lemma tw_Hharv : forall c qq b, tw_harvest c qq b =
   (firstn qq (skipn b (tw_items c)),
    (if Nat.ltb (b + qq) (length (tw_items c)) then Some c else None),
    (if Nat.ltb (b + qq) (length (tw_items c)) then b + qq else 0)%nat).
Proof. reflexivity. Qed.

Local Notation tw_upd := (Ui.update nat (list nat) 2 tw_parents tw_children tw_nolink tw_nolist tw_nolist
  tw_noitem tw_notext tw_notext tw_notext tw_open tw_open tw_nofeed tw_msg tw_msg).
Local Notation tw_settle := (Ui.settle nat (list nat) 2 tw_parents tw_children tw_harvest tw_hook).
Local Notation tw_browse := (browse nat (list nat) 2 tw_parents tw_children tw_harvest tw_nolink tw_nolist tw_nolist
  tw_noitem tw_notext tw_notext tw_notext tw_open tw_open tw_nofeed tw_hook tw_msg tw_msg).
Local Notation tw_thread_at := (thread_at nat tw_anc tw_kids).
Local Notation tw_walk := (walk nat tw_anc tw_kids).
Local Notation tw_thread_page := (thread_page nat tw_anc tw_kids (list nat) tw_items).
Local Notation tw_covered := (covered nat tw_anc tw_kids (list nat) 2).
Local Notation tw_cursor := (cursor nat (list nat)).

(* ---- theorem 5: non-vacuity.  "open x", the fetch and the two loaders complete, then
   k k k k k k j g j j j j j ---- *)
Definition tw_keys : list N := [107; 107; 107; 107; 107; 107; 106; 103; 106; 106; 106; 106; 106]%N.
Definition tw_start : ui nat (list nat) := tw_settle 5%nat (start_open nat (list nat) tw_open 80 24 []).

(* the highlighted item after each key, on the model *)
Fixpoint tw_trace (s : ui nat (list nat)) (keys : list N) : list (option nat) :=
  match keys with
  | [] => []
  | key :: ks => let s' := tw_settle 4%nat (tw_upd s key) in cur_item s' :: tw_trace s' ks
  end.
(* ... and on the abstract thread *)
Fixpoint tw_walk_trace (x : Z) (keys : list N) : list (option nat) :=
  match keys with
  | [] => []
  | key :: ks => let x' := step_pos nat tw_anc tw_kids 5%nat x key in tw_thread_at 5%nat x' :: tw_walk_trace x' ks
  end.

Example thread_walk_example :
  (* the theorem, instantiated *)
  cur_item (tw_browse 4%nat tw_start tw_keys) = tw_thread_at 5%nat (tw_walk 5%nat tw_keys) /\
  (* and both sides computed *)
  tw_walk 5%nat tw_keys = 4 /\
  cur_item (tw_browse 4%nat tw_start tw_keys) = Some 9%nat /\
  tw_trace tw_start tw_keys = tw_walk_trace 0 tw_keys /\
  tw_trace tw_start tw_keys =
    map Some [4; 3; 2; 1; 0; 0; 1; 5; 6; 7; 8; 9; 9]%nat.
Proof.
  split.
  - apply (thread_walk_from_start_fact nat tw_anc tw_kids (list nat) tw_items 2 tw_parents tw_children tw_harvest
             tw_Hpre tw_Hpar0 tw_Hpar tw_Hanc tw_Hkids tw_Hharv
             tw_nolink tw_nolist tw_nolist tw_noitem tw_notext tw_notext tw_notext tw_open tw_open tw_nofeed
             tw_hook tw_msg tw_msg 80 24 [] 5%nat 4%nat tw_keys).
    + reflexivity.
    + lia.
    + unfold tw_keys. repeat (apply Forall_cons; [unfold key_ok; auto|]). apply Forall_nil.
  - repeat split; vm_compute; reflexivity.
Qed.

(* ---- the statement "g re-establishes coverage" is false for the model as it is ----
   A page of 5's thread holding no ancestor yet (frontier still 5 itself) and all four replies,
   cursor on reply 8 (position 3), nothing pending.  It satisfies every premise of the k / j
   theorems (invariant, normal mode, a window of the thread, covered around the cursor: positions
   1, 2 and 4 are in, position 5 does not exist).  After g the cursor is on position 0, whose
   neighbour -1 (item 4) exists in the thread but is not in the feed, and no loader was started:
   the key moves the cursor without calling loadSurroundings.
   Such a state is not reachable by opening an item and pressing k / j / g, because opening loads
   the window around position 0 and windows only grow: that is the extra clause [covered_at r p 0]
   of [at_pos], and [key_center_opened_partial_fact] above is the theorem for g under it. *)
Definition tw_feed : feed nat := f_run (FCreate 5%nat) [FAppend [6; 7; 8; 9]%nat; FDown; FDown; FDown].
Definition tw_page : page nat (list nat) := mkpage tw_feed (Some 5%nat) false None 0%nat false.
Definition tw_bad : ui nat (list nat) :=
  mkui [(0%nat, tw_page)] {| h_elems := [0%nat]; h_index := 0%nat |} MNormal [] 80 24 [] [].

Example key_center_refines_refuted :
  ui_inv tw_bad /\ u_mode tw_bad = MNormal /\ u_tasks tw_bad = [] /\
  cur_pid tw_bad = Some 0%nat /\ page_find (u_pages tw_bad) 0%nat = Some tw_page /\
  tw_thread_page 5%nat tw_page /\ tw_covered 5%nat tw_page /\ tw_cursor tw_page = 3 /\
  forall fuel, exists p',
    page_find (u_pages (tw_settle fuel (tw_upd tw_bad 103%N))) 0%nat = Some p' /\
    u_tasks (tw_settle fuel (tw_upd tw_bad 103%N)) = [] /\
    tw_cursor p' = 0 /\ tw_thread_at 5%nat (-1) = Some 4%nat /\ f_contains (pg_feed p') (-1) = false /\
    ~ tw_covered 5%nat p'.
Proof.
  split.
  { unfold ui_inv, tw_bad. cbn [u_pages u_hist u_mode u_tasks h_elems h_index length].
    split; [|split; [|split; [|split; [|split; [|split]]]]].
    - intros k p H. destruct k; cbn in H; [injection H as <-|discriminate].
      split; [|split; discriminate]. exists (t_run (FCreate 5%nat) [FAppend [6; 7; 8; 9]%nat; FDown; FDown; FDown]).
      apply (frel_run nat).
    - intros k [<-|[]]. eexists. reflexivity.
    - intros k p H. destruct k; cbn in H; [apply Nat.lt_0_1|discriminate].
    - right. apply Nat.lt_0_1.
    - intros _. discriminate.
    - intros k p H. destruct k; cbn in H; [injection H as <-; split; reflexivity|discriminate].
    - intros k _. split; reflexivity. }
  split; [reflexivity|]. split; [reflexivity|]. split; [reflexivity|]. split; [reflexivity|].
  split.
  { exists 0%nat, 4%nat. unfold window.
    split; [cbn; lia|]. split; [cbn; lia|]. split.
    { apply fwin_int_fwin. split; [reflexivity|]. split; [reflexivity|]. intros x Hx.
      assert (Hc : x = 0 \/ x = 1 \/ x = 2 \/ x = 3 \/ x = 4) by lia.
      destruct Hc as [->|[->|[->|[->| ->]]]]; reflexivity. }
    split; [left; repeat split; discriminate|]. split; [reflexivity|].
    assert (Hc : tw_cursor tw_page = 3) by reflexivity. rewrite Hc. lia. }
  split.
  { intros d Hd. assert (Hc : d = 1 \/ d = 2) by lia. destruct Hc as [->| ->];
      split; intros H; first [vm_compute; reflexivity | exfalso; apply H; reflexivity]. }
  split; [reflexivity|].
  intros fuel.
  assert (E : tw_settle fuel (tw_upd tw_bad 103%N) = tw_upd tw_bad 103%N)
    by (apply settle_nil; reflexivity).
  rewrite E.
  eexists. split; [vm_compute; reflexivity|]. split; [reflexivity|]. split; [reflexivity|].
  split; [reflexivity|]. split; [reflexivity|].
  intros H. destruct (H 1 ltac:(lia)) as [A _].
  assert (B : thread_has nat tw_anc tw_kids 5%nat (0 - 1)) by (vm_compute; discriminate).
  apply A in B. vm_compute in B. discriminate B.
Qed.

(* what the user sees from there: the first k after g is lost (the cursor stays on the opened
   item although the thread has item 4 above it; the key only starts the loader), the second k moves *)
Example key_center_then_up_example :
  let s1 := tw_settle 4%nat (tw_upd tw_bad 103%N) in
  let s2 := tw_settle 4%nat (tw_upd s1 107%N) in
  let s3 := tw_settle 4%nat (tw_upd s2 107%N) in
  cur_item s1 = Some 5%nat /\ tw_thread_at 5%nat (-1) = Some 4%nat /\
  cur_item s2 = Some 5%nat /\ cur_item s3 = Some 4%nat.
Proof. cbv zeta. repeat split; vm_compute; reflexivity. Qed.

Print Assumptions thread_page_init.
Print Assumptions thread_page_move.
Print Assumptions thread_page_load_up.
Print Assumptions thread_page_load_down.
Print Assumptions fwin_frel.
Print Assumptions key_up_refines_fact.
Print Assumptions key_down_refines_fact.
Print Assumptions key_center_refines_partial_fact.
Print Assumptions key_center_opened_partial_fact.
Print Assumptions open_refines_fact.
Print Assumptions thread_walk_refines_fact.
Print Assumptions thread_walk_from_start_fact.
Print Assumptions thread_walk_example.
Print Assumptions key_center_refines_refuted.
Print Assumptions key_center_then_up_example.
