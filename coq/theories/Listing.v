(* Model of the acceptance rules that decide what a listing shows (pub/actor.go outbox
   constructor, pub/post.go reply constructor and author check, pub/activity.go), on top of the
   provenance rule of Client.fetch_unknown.  Only what decides genuine-versus-error is modelled;
   everything else a constructor stores (titles, bodies, targets ...) cannot turn an entry into an
   error item or drop it. *)
From Servitor Require Import Base Unicode Ansi Mime Json Object Jtp Client.

Definition k_type : text := [116;121;112;101]%N.
Definition k_actor : text := [97;99;116;111;114]%N.
Definition k_attributed : text := [97;116;116;114;105;98;117;116;101;100;84;111]%N.
Definition k_in_reply_to : text := [105;110;82;101;112;108;121;84;111]%N.

Definition str (s : list nat) : text := map N.of_nat s.
Definition actor_kinds : list text :=
  [str [65;112;112;108;105;99;97;116;105;111;110]; str [71;114;111;117;112]; str [79;114;103;97;110;105;122;97;116;105;111;110];
   str [80;101;114;115;111;110]; str [83;101;114;118;105;99;101]].
Definition post_kinds : list text :=
  [str [65;114;116;105;99;108;101]; str [65;117;100;105;111]; str [68;111;99;117;109;101;110;116]; str [73;109;97;103;101];
   str [78;111;116;101]; str [80;97;103;101]; str [86;105;100;101;111]].
Definition activity_kinds : list text :=
  [str [67;114;101;97;116;101]; str [65;110;110;111;117;110;99;101]; str [68;105;115;108;105;107;101]; str [76;105;107;101]].
Definition kind_in (l : list text) (o : obj) : bool :=
  match get_string o k_type with Present k => existsb (text_eqb k) l | _ => false end.

Section Listing.
Variable W : url -> entry.
Variable is_https : url -> bool.
Variable resolve : url -> bytes -> option url.
Variable cap : nat.
Variable parse_ref : option url -> text -> option url.
Variable url_parse : text -> option url.
Variable host_of : url -> text.

Definition fu (c : cache) (input : jv) (source : option url) : fu_result * cache :=
  let '(r, c', _) := fetch_unknown W is_https resolve cap parse_ref url_parse host_of c input source in (r, c').

(* NewActor(input, source): the actor's validated id, when an actor results *)
Definition new_actor (c : cache) (input : jv) (source : option url) : option (option url) * cache :=
  match fu c input source with
  | (FUOk o id, c') => if kind_in actor_kinds o then (Some id, c') else (None, c')
  | (FUErr _, c') => (None, c')
  end.

Inductive verdict := Genuine | ErrorItem.

(* the constructor an actor gives its outbox: entry, source = the collection's id, owner = the actor's id *)
Definition timeline_entry (c : cache) (owner : option url) (entry : jv) (source : option url) : verdict * cache :=
  match fu c entry source with
  | (FUErr _, c') => (ErrorItem, c')
  | (FUOk o id, c') =>
      if negb (kind_in activity_kinds o) then (ErrorItem, c')
      else
        match get_any o k_actor with
        | Present ref =>
            match new_actor c' ref id with
            | (Some (Some aid), c'') =>
                match owner with
                | Some own => if text_eqb aid own then (Genuine, c'') else (ErrorItem, c'')
                | None => (ErrorItem, c'')
                end
            | (_, c'') => (ErrorItem, c'')
            end
        | _ => (ErrorItem, c')
        end
  end.

(* creators of a post: forged iff some creator that resolved to an actor has another host (or
   exactly one of the two ids is missing) *)
Fixpoint creators_ok (c : cache) (post_id : option url) (refs : list jv) : bool * cache :=
  match refs with
  | [] => (true, c)
  | r :: rest =>
      match new_actor c r post_id with
      | (Some aid, c') =>
          let same := match aid, post_id with
                      | None, None => true
                      | Some a, Some p => text_eqb (host_of a) (host_of p)
                      | _, _ => false
                      end in
          if same then creators_ok c' post_id rest else (false, c')
      | (None, c') => creators_ok c' post_id rest
      end
  end.

(* NewPost(input, source): Some (post id, resolved parent id) when a post results *)
Definition new_post (c : cache) (input : jv) (source : option url) : option (option url * option url) * cache :=
  match fu c input source with
  | (FUErr _, c') => (None, c')
  | (FUOk o id, c') =>
      if negb (kind_in post_kinds o) then (None, c')
      else
        (* inReplyTo is resolved first (getAndFetchUnkown), then the authors *)
        let '(parent, c1) :=
          match get_any o k_in_reply_to with
          | Present ref => match fu c' ref id with (FUOk _ pid, c1) => (pid, c1) | (FUErr _, c1) => (None, c1) end
          | _ => (None, c')
          end in
        let refs := match get_list o k_attributed with Present l => l | _ => [] end in
        let '(ok, c2) := creators_ok c1 id refs in
        if ok then (Some (id, parent), c2) else (None, c2)
  end.

(* the constructor a post gives its replies collection *)
Definition reply_entry (c : cache) (this_post : option url) (entry : jv) (source : option url) : verdict * cache :=
  match new_post c entry source with
  | (None, c') => (ErrorItem, c')
  | (Some (_, parent), c') =>
      match this_post, parent with
      | Some me, Some p => if text_eqb p me then (Genuine, c') else (ErrorItem, c')
      | _, _ => (ErrorItem, c')
      end
  end.

(* a page of entries: one verdict per entry, in order - nothing is dropped or reordered *)
Fixpoint classify_all (f : cache -> jv -> verdict * cache) (c : cache) (entries : list jv) : list verdict * cache :=
  match entries with
  | [] => ([], c)
  | e :: r => let (v, c') := f c e in let (vs, c'') := classify_all f c' r in (v :: vs, c'')
  end.
End Listing.
