(* Model of ui/ui.go (with the repairs: unparseable numbers and keys on an empty page are ignored;
   the feed loader takes the lock).  Items and containers are abstract; what pub provides is a set
   of oracles.  Pages are mutable objects in Go (history holds pointers, loaders keep a pointer):
   here a page store maps page ids to pages and history holds ids.  Goroutines are pending tasks:
   [update] processes one key (under the lock) and may spawn tasks; [run_task] is the locked tail
   of a goroutine.  "Once background loads have settled" = all pending tasks have run. *)
From Servitor Require Import Base Unicode Ansi Style History Feed.
Local Open Scope Z_scope.

Inductive mode := MLoading | MNormal | MCommand | MSelection | MOpening | MProblem.

Section Ui.
Variables (I C : Type).
Variable preload : Z.                                      (* config.Parsed.Network.Context, >= 0 *)
Variable parents : I -> nat -> list I * option I.          (* Tangible.Parents(quantity) *)
Variable children : I -> option C.                         (* Tangible.Children() *)
Variable harvest : C -> nat -> nat -> list I * option C * nat.   (* Container.Harvest *)
Variable select_link : I -> Z -> option text.              (* SelectLink(number): the link when present *)
Variable creators : I -> option (list I).                  (* c: Some for posts (also through an activity) *)
Variable recipients : I -> option (list I).                (* r *)
Variable actor_of : I -> option I.                         (* a: Some for activities *)
Variable media : I -> option text.                         (* o / p / b: the link handed to the hook *)
Variable pfp : I -> option text.
Variable banner : I -> option text.
Inductive opened := OItem (i : I) | OColl (c : C).
Variable open_link : text -> opened.                       (* pub.New(link, nil) *)
Variable open_user : text -> opened.                       (* pub.FetchUserInput(text) *)
Variable feed_named : text -> option C.                    (* config feeds -> splicer.NewSplicer *)
Variable hook_fails : text -> option text.                 (* running the media hook: Some output when it fails *)

Record page := mkpage {
  pg_feed : feed I; pg_frontier : option I; pg_loading_up : bool;
  pg_children : option C; pg_basepoint : nat; pg_loading_down : bool }.

Inductive task :=
| TLoadUp (pid : nat) | TLoadDown (pid : nat) | TOpen (r : opened) | TFeed (c : C) | THook (link : text).

(* what a frame was computed from: everything view reads (pages, history, mode, buffer, width, height) *)
Definition shown := (list (nat * page) * hist nat * mode * text * Z * Z)%type.

Record ui := mkui {
  u_pages : list (nat * page);      (* page store, newest first *)
  u_hist : hist nat;
  u_mode : mode; u_buffer : text;
  u_width : Z; u_height : Z;
  u_tasks : list task;              (* spawned goroutines that have not reached their locked tail *)
  u_frames : list shown             (* GHOST: the frames emitted so far, newest first, each as the state it was computed from *)
}.

Fixpoint page_find (ps : list (nat * page)) (k : nat) : option page :=
  match ps with [] => None | (k', p) :: r => if Nat.eqb k k' then Some p else page_find r k end.
Fixpoint page_set (ps : list (nat * page)) (k : nat) (p : page) : list (nat * page) :=
  match ps with [] => [] | (k', q) :: r => if Nat.eqb k k' then (k', p) :: r else (k', q) :: page_set r k p end.

Definition cur_pid (s : ui) : option nat := h_current (u_hist s).
Definition cur_page (s : ui) : option page :=
  match cur_pid s with Some k => page_find (u_pages s) k | None => None end.
Definition cur_item (s : ui) : option I :=
  match cur_page s with Some p => f_current (pg_feed p) | None => None end.

Definition set_mode (s : ui) (m : mode) (b : text) : ui :=
  mkui (u_pages s) (u_hist s) m b (u_width s) (u_height s) (u_tasks s) (u_frames s).
Definition frame (s : ui) : ui :=
  mkui (u_pages s) (u_hist s) (u_mode s) (u_buffer s) (u_width s) (u_height s) (u_tasks s)
       ((u_pages s, u_hist s, u_mode s, u_buffer s, u_width s, u_height s) :: u_frames s).
Definition spawn (s : ui) (t : task) : ui :=
  mkui (u_pages s) (u_hist s) (u_mode s) (u_buffer s) (u_width s) (u_height s) (u_tasks s ++ [t]) (u_frames s).
Definition with_pages (s : ui) (ps : list (nat * page)) : ui :=
  mkui ps (u_hist s) (u_mode s) (u_buffer s) (u_width s) (u_height s) (u_tasks s) (u_frames s).
Definition with_hist (s : ui) (h : hist nat) : ui :=
  mkui (u_pages s) h (u_mode s) (u_buffer s) (u_width s) (u_height s) (u_tasks s) (u_frames s).

Definition update_cur_page (s : ui) (f : page -> page) : ui :=
  match cur_pid s, cur_page s with
  | Some k, Some p => with_pages s (page_set (u_pages s) k (f p))
  | _, _ => s
  end.

(* h.Add(&Page{...}) *)
Definition add_page (s : ui) (p : page) : ui :=
  let k := length (u_pages s) in
  with_hist (with_pages s ((k, p) :: u_pages s)) (h_add (u_hist s) k).

Definition frontier_of (i : I) : option I := snd (parents i 0).

(* loadSurroundings *)
Definition load_surroundings (s : ui) : ui :=
  match cur_pid s, cur_page s with
  | Some k, Some p =>
      let up := negb (pg_loading_up p) && negb (f_contains (pg_feed p) (- preload)) &&
                match pg_frontier p with Some _ => true | None => false end in
      let p1 := if up then mkpage (pg_feed p) (pg_frontier p) true (pg_children p) (pg_basepoint p) (pg_loading_down p) else p in
      let s1 := if up then spawn (with_pages s (page_set (u_pages s) k p1)) (TLoadUp k) else s in
      let down := negb (pg_loading_down p1) && negb (f_contains (pg_feed p1) preload) &&
                  match pg_children p1 with Some _ => true | None => false end in
      let p2 := if down then mkpage (pg_feed p1) (pg_frontier p1) (pg_loading_up p1) (pg_children p1) (pg_basepoint p1) true else p1 in
      if down then spawn (with_pages s1 (page_set (u_pages s1) k p2)) (TLoadDown k) else s1
  | _, _ => s
  end.

Definition item_page (i : I) : page :=
  mkpage (f_create i) (frontier_of i) false (children i) 0 false.

(* switchTo *)
Definition switch_items (s : ui) (l : list I) : ui :=
  match l with
  | [] => s
  | [i] => load_surroundings (add_page s (item_page i))
  | _ => load_surroundings (add_page s (mkpage (f_create_list l) None false None 0 false))
  end.
Definition switch_item (s : ui) (i : I) : ui := load_surroundings (add_page s (item_page i)).
Definition switch_coll (s : ui) (c : C) : ui :=
  let s1 := match u_mode s with MLoading => s | _ => frame (set_mode s MLoading []) end in
  let '(items, next, base) := harvest c (Z.to_nat (preload + 1)) 0 in
  let s2 := add_page s1 (mkpage (f_create_list items) None false next base false) in
  load_surroundings (set_mode s2 MNormal []).
Definition switch_opened (s : ui) (r : opened) : ui :=
  match r with OItem i => switch_item s i | OColl c => switch_coll s c end.

(* the locked tail of a goroutine *)
Definition run_task (s : ui) (t : task) : ui :=
  match t with
  | TLoadUp k =>
      match page_find (u_pages s) k with
      | Some p =>
          match pg_frontier p with
          | Some fr =>
              let (ps, nf) := parents fr (Z.to_nat preload) in
              frame (with_pages s (page_set (u_pages s) k
                (mkpage (f_prepend (pg_feed p) ps) nf false (pg_children p) (pg_basepoint p) (pg_loading_down p))))
          | None => s
          end
      | None => s
      end
  | TLoadDown k =>
      match page_find (u_pages s) k with
      | Some p =>
          match pg_children p with
          | Some c =>
              let '(items, next, base) := harvest c (Z.to_nat preload) (pg_basepoint p) in
              frame (with_pages s (page_set (u_pages s) k
                (mkpage (f_append (pg_feed p) items) (pg_frontier p) (pg_loading_up p) next base false)))
          | None => s
          end
      | None => s
      end
  | TOpen r => frame (set_mode (switch_opened s r) MNormal [])
  | TFeed c => frame (set_mode (switch_coll s c) MNormal [])
  | THook link =>
      match u_mode s with
      | MOpening =>
          match hook_fails link with
          | Some out => set_mode (frame (set_mode s MProblem out)) MNormal []
          | None => frame (set_mode s MNormal [])
          end
      | _ => s
      end
  end.

Definition pop_task (s : ui) : option (task * ui) :=
  match u_tasks s with
  | [] => None
  | t :: r => Some (t, mkui (u_pages s) (u_hist s) (u_mode s) (u_buffer s) (u_width s) (u_height s) r (u_frames s))
  end.

Fixpoint settle (fuel : nat) (s : ui) : ui :=
  match fuel with
  | O => s
  | S f => match pop_task s with Some (t, s') => settle f (run_task s' t) | None => s end
  end.

Definition open_externally (s : ui) (link : text) : ui :=
  spawn (frame (set_mode s MOpening link)) (THook link).
Definition open_internally (s : ui) (link : text) : ui :=
  spawn (frame (set_mode s MLoading [])) (TOpen (open_link link)).

(* strconv.Atoi on a string of ASCII digits: fails beyond the int64 range *)
Definition atoi (b : text) : option Z :=
  let v := fold_left (fun acc c => 10 * acc + (Z.of_N c - 48)) b 0 in
  if Z.leb v 9223372036854775807 then Some v else None.

(* strings.SplitN(buffer, " ", 2) *)
Fixpoint split_space (b : text) : option (text * text) :=
  match b with
  | [] => None
  | c :: r => if N.eqb c SP then Some ([], r)
              else match split_space r with Some (a, x) => Some (c :: a, x) | None => None end
  end.

Definition s_open : text := [111;112;101;110]%N.
Definition s_feed : text := [102;101;101;100]%N.

Variable msg_unknown_feed : text -> text.       (* "Failed to open feed: X is not a known feed" *)
Variable msg_bad_command : text -> text.        (* "Failed to run command: unrecognized subcommand: X" *)

Definition run_command (s : ui) (name arg : text) : ui :=
  if text_eqb name s_open then spawn (frame (set_mode s MLoading [])) (TOpen (open_user arg))
  else if text_eqb name s_feed then
    match feed_named arg with
    | None => set_mode (frame (set_mode s MProblem (msg_unknown_feed arg))) MNormal []
    | Some c => spawn (frame (set_mode s MLoading [])) (TFeed c)
    end
  else set_mode (frame (set_mode s MProblem (msg_bad_command name))) MNormal [].

Definition K_ESC : N := 27%N. Definition K_BS : N := 127%N. Definition K_ENTER : N := 13%N.

Definition on_item (s : ui) (f : I -> ui) : ui := match cur_item s with Some i => f i | None => s end.

(* the final switch of Update, for a key that is not handled by a mode *)
Definition normal_key (s : ui) (key : N) : ui :=
  match cur_item s with
  | None => if N.eqb key 104 then frame (with_hist s (h_back (u_hist s)))
            else if N.eqb key 108 then frame (with_hist s (h_forward (u_hist s)))
            else frame s
  | Some i =>
      frame (
        if N.eqb key 107 then load_surroundings (update_cur_page s (fun p => mkpage (f_move_up (pg_feed p)) (pg_frontier p) (pg_loading_up p) (pg_children p) (pg_basepoint p) (pg_loading_down p)))
        else if N.eqb key 106 then load_surroundings (update_cur_page s (fun p => mkpage (f_move_down (pg_feed p)) (pg_frontier p) (pg_loading_up p) (pg_children p) (pg_basepoint p) (pg_loading_down p)))
        else if N.eqb key 103 then update_cur_page s (fun p => mkpage (f_move_to_center (pg_feed p)) (pg_frontier p) (pg_loading_up p) (pg_children p) (pg_basepoint p) (pg_loading_down p))
        else if N.eqb key 104 then with_hist s (h_back (u_hist s))
        else if N.eqb key 108 then with_hist s (h_forward (u_hist s))
        else if N.eqb key 32 then switch_item s i
        else if N.eqb key 99 then match creators i with Some l => switch_items s l | None => s end
        else if N.eqb key 114 then match recipients i with Some l => switch_items s l | None => s end
        else if N.eqb key 97 then match actor_of i with Some a => switch_item s a | None => s end
        else if N.eqb key 111 then match media i with Some l => open_externally s l | None => s end
        else if N.eqb key 112 then match pfp i with Some l => open_externally s l | None => s end
        else if N.eqb key 98 then match banner i with Some l => open_externally s l | None => s end
        else s)
  end.

(* Update(input) *)
Definition update (s : ui) (key : N) : ui :=
  match u_mode s with
  | MLoading => s
  | m =>
      if N.eqb key K_ESC then frame (set_mode s MNormal [])
      else if N.eqb key K_BS then
        match u_buffer s with
        | [] => frame (set_mode s MNormal [])
        | b => let b' := removelast b in
               frame (set_mode s (match b', m with [], MSelection => MNormal | _, _ => m end) b')
        end
      else
        match m with
        | MCommand =>
            if N.eqb key K_ENTER then
              match split_space (u_buffer s) with
              | Some (name, arg) => run_command s name arg
              | None => frame (set_mode s MNormal [])
              end
            else frame (set_mode s MCommand (u_buffer s ++ [key]))
        | _ =>
            if N.eqb key 58 then frame (set_mode s MCommand [])
            else if N.leb 48 key && N.leb key 57 then
              frame (set_mode s MSelection ((match m with MSelection => u_buffer s | _ => [] end) ++ [key]))
            else
              match m with
              | MSelection =>
                  if N.eqb key 46 || N.eqb key K_ENTER then
                    let target := match atoi (u_buffer s), cur_item s with
                                  | Some n, Some i => select_link i n
                                  | _, _ => None
                                  end in
                    match target with
                    | None => frame (set_mode s MNormal [])
                    | Some link => if N.eqb key 46 then open_internally s link else open_externally s link
                    end
                  else normal_key (set_mode s MNormal []) key
              | _ => normal_key s key
              end
        end
  end.

(* ---------------------------------------------------------------- view() *)
Variable col : colors.
Variable full_text : I -> Z -> text.       (* Tangible.String(width) *)
Variable preview_text : I -> Z -> text.    (* Tangible.Preview(width) *)

Definition t_loading : text := [76;111;97;100;105;110;103;8230]%N.       (* "Loading…" *)
Definition t_cursor : text := [9475; 32]%N.                              (* "┃ " *)
Definition t_parent_conn : text := [32; 32; 9474; 10]%N.                 (* "  │\n" *)
Definition t_child_conn : text := [10]%N.
Definition t_arrow : text := [8594; 32]%N.                               (* "→ " *)
Definition t_selecting : text := [83;101;108;101;99;116;105;110;103;32]%N.   (* "Selecting " *)
Definition t_sel_hint : text :=
  [32;40;112;114;101;115;115;32;46;32;116;111;32;111;112;101;110;32;105;110;116;101;114;110;97;108;108;121;44;32;101;110;116;101;114;32;116;111;32;111;112;101;110;32;101;120;116;101;114;110;97;108;108;121;41]%N.
Definition t_opening : text := [79;112;101;110;105;110;103;32]%N.          (* "Opening " *)
Definition ELLIPSIS : text := [8230]%N.

Definition trim_suffix_nl1 (t : text) : text :=
  match rev_fast t with c :: r => if N.eqb c NL then rev_fast r else t | [] => [] end.

(* one entry of the -context..context window; acc = (top, center, bottom) *)
Definition view_entry (p : page) (w : Z) (acc : text * text * text) (i : Z) : res (text * text * text) :=
  let '(top, center, bottom) := acc in
  let f := pg_feed p in
  if negb (f_contains f i) then Ok acc
  else
    match f_get f i with
    | Panic => Panic
    | Ok None => Panic                               (* a nil item inside the bounds: method call on nil *)
    | Ok (Some it) =>
        let serialized :=
          if f_is_parent f i then preview_text it (w - 4)
          else if f_is_child f i then t_arrow ++ indent (preview_text it (w - 8)) [SP; SP] false
          else full_text it (w - 4) in
        if Z.eqb i 0 then
          Ok (top, indent serialized t_cursor true, if f_is_parent f i then t_parent_conn else t_child_conn)
        else
          let block := indent serialized [SP; SP] true ++ [NL] ++ (if f_is_parent f i then t_parent_conn else t_child_conn) in
          if Z.ltb i 0 then Ok (top ++ block, center, bottom) else Ok (top, center, bottom ++ block)
    end.

Fixpoint view_entries (p : page) (w : Z) (acc : text * text * text) (offsets : list Z) : res (text * text * text) :=
  match offsets with
  | [] => Ok acc
  | i :: r => match view_entry p w acc i with Ok acc' => view_entries p w acc' r | Panic => Panic end
  end.

(* -context, ..., context *)
Definition window : list Z := map (fun k => Z.of_nat k - preload) (seq 0 (Z.to_nat (2 * preload + 1))).

Definition view (s : ui) : res text :=
  match u_mode s with
  | MLoading => Ok (center_vertically [] (color col ([SP; SP] ++ t_loading)) [] (u_height s))
  | m =>
      match cur_page s with
      | None => Panic                                 (* h.Current() on an empty history *)
      | Some p =>
          match view_entries p (u_width s) ([], [], []) window with
          | Panic => Panic
          | Ok (top, center, bottom) =>
              let top1 := if pg_loading_up p && negb (f_contains (pg_feed p) (- preload - 1))
                          then [NL; SP; SP] ++ color col t_loading ++ [NL; NL] ++ top else top in
              let bottom1 := if pg_loading_down p && negb (f_contains (pg_feed p) (preload + 1))
                             then bottom ++ [SP; SP] ++ color col t_loading ++ [NL] else bottom in
              let out := center_vertically (trim_suffix_nl1 top1) center (trim_suffix_nl1 bottom1) (u_height s) in
              let footer :=
                match m with
                | MSelection => t_selecting ++ u_buffer s ++ t_sel_hint
                | MCommand => [58%N] ++ u_buffer s
                | MOpening => t_opening ++ u_buffer s ++ ELLIPSIS
                | MProblem => u_buffer s
                | _ => []
                end in
              match footer with
              | [] => Ok out
              | _ => match set_length footer (u_width s) ELLIPSIS with
                     | Panic => Panic
                     | Ok line => replace_last_line out (highlight col line)
                     end
              end
          end
      end
  end.

(* SetWidthHeight *)
Definition resize (s : ui) (w h : Z) : ui :=
  if Z.eqb (u_width s) w && Z.eqb (u_height s) h then s
  else frame (mkui (u_pages s) (u_hist s) (u_mode s) (u_buffer s) w h (u_tasks s) (u_frames s)).

Definition ui_init (w h : Z) : ui := mkui [] h_init MLoading [] w h [] [].

(* the state the frame now on the screen was computed from *)
Definition last_shown (s : ui) : option ui :=
  match u_frames s with
  | (ps, h, m, b, w, hh) :: _ => Some (mkui ps h m b w hh [] [])
  | [] => None
  end.
Definition last_frame (s : ui) : res text :=
  match last_shown s with Some s' => view s' | None => Ok [] end.

(* ---- helpers for the correspondence harness (not used by the theorems) ---- *)
Definition is_load (t : task) : bool := match t with TLoadUp _ | TLoadDown _ => true | _ => false end.

Fixpoint take_nonload (ts : list task) : option (task * list task) :=
  match ts with
  | [] => None
  | t :: r => if is_load t then match take_nonload r with Some (x, r') => Some (x, t :: r') | None => None end
              else Some (t, r)
  end.

(* while the harness holds the load gate closed only the other goroutines can finish *)
Fixpoint settle_gated (fuel : nat) (s : ui) : ui :=
  match fuel with
  | O => s
  | S f =>
      match take_nonload (u_tasks s) with
      | None => s
      | Some (t, rest) =>
          settle_gated f (run_task (mkui (u_pages s) (u_hist s) (u_mode s) (u_buffer s) (u_width s) (u_height s) rest (u_frames s)) t)
      end
  end.

(* the harness can also hold the FETCH of a page that is being opened (":open", "." on a link): the task that installs the page
   stays pending and the interface stays in loading mode while keys and resizes arrive *)
Definition is_open (t : task) : bool := match t with TOpen _ | TFeed _ => true | _ => false end.

Fixpoint take_allowed (ok : task -> bool) (ts : list task) : option (task * list task) :=
  match ts with
  | [] => None
  | t :: r => if ok t then Some (t, r)
              else match take_allowed ok r with Some (x, r') => Some (x, t :: r') | None => None end
  end.

(* only the goroutines the harness lets through can finish *)
Fixpoint settle_sel (ok : task -> bool) (fuel : nat) (s : ui) : ui :=
  match fuel with
  | O => s
  | S f =>
      match take_allowed ok (u_tasks s) with
      | None => s
      | Some (t, rest) =>
          settle_sel ok f (run_task (mkui (u_pages s) (u_hist s) (u_mode s) (u_buffer s) (u_width s) (u_height s) rest (u_frames s)) t)
      end
  end.

Fixpoint extent (fuel : nat) (f : feed I) (dir : Z) (k : Z) : Z :=
  match fuel with
  | O => k
  | S g => if f_contains f (k + dir) then extent g f dir (k + dir) else k
  end.

Definition mode_code (m : mode) : Z :=
  match m with MLoading => 0 | MNormal => 1 | MCommand => 2 | MSelection => 3 | MOpening => 4 | MProblem => 5 end.

(* what the harness observes after every key *)
Definition snapshot (s : ui) : Z * text * option nat * option I * (Z * Z) * (bool * bool) * nat * Z :=
  let p := cur_page s in
  (mode_code (u_mode s), u_buffer s, cur_pid s, cur_item s,
   match p with Some p => (extent 2000 (pg_feed p) (-1) 0, extent 2000 (pg_feed p) 1 0) | None => (0, 0) end,
   match p with Some p => (pg_loading_up p, pg_loading_down p) | None => (false, false) end,
   length (u_frames s), u_height s).
End Ui.
