(* Remote collections: pub.NewCollection = client.FetchUnknown + NewCollectionFromObject, as the
   [load] oracle of Collection.harvest.  A reference is the JSON value found under first / next
   together with the id of the page that holds it (FetchUnknown's source); an element travels with
   the id of its page (construct(element, c.id)).  The page graph is whatever the servers of the
   world serve: cyclic, endlessly empty and broken chains included. *)
From Servitor Require Import Base Unicode Ansi Mime Json Object Jtp Client Collection.

Definition k_collection : text := [67;111;108;108;101;99;116;105;111;110]%N.
Definition k_ordered : text := [79;114;100;101;114;101;100;67;111;108;108;101;99;116;105;111;110]%N.
Definition k_page : text := [67;111;108;108;101;99;116;105;111;110;80;97;103;101]%N.
Definition k_ordered_page : text := [79;114;100;101;114;101;100;67;111;108;108;101;99;116;105;111;110;80;97;103;101]%N.
Definition s_ptype : text := [116;121;112;101]%N.
Definition s_items : text := [105;116;101;109;115]%N.
Definition s_ordered_items : text := [111;114;100;101;114;101;100;73;116;101;109;115]%N.
Definition s_first : text := [102;105;114;115;116]%N.
Definition s_next : text := [110;101;120;116]%N.

Definition pref := (jv * option url)%type.     (* reference to a page / element with its page id *)

(* NewCollectionFromObject: kind, elements under the key the kind dictates (missing = empty; a single
   value is a one-element list), continuation under first (collections) or next (pages) *)
Definition coll_page (o : obj) (id : option url) : option (page pref pref) :=
  match get_string o s_ptype with
  | Present k =>
      let ordered := text_eqb k k_ordered || text_eqb k k_ordered_page in
      let top := text_eqb k k_collection || text_eqb k k_ordered in
      if text_eqb k k_collection || text_eqb k k_ordered || text_eqb k k_page || text_eqb k k_ordered_page then
        let elems := match get_list o (if ordered then s_ordered_items else s_items) with Present l => l | _ => [] end in
        let next := match get_any o (if top then s_first else s_next) with Present v => NRef (v, id) | _ => NAbsent end in
        Some (mkpage (map (fun e => (e, id)) elems) next)
      else None
  | _ => None
  end.

Section Paging.
Variable W : url -> entry.
Variable is_https : url -> bool.
Variable resolve : url -> bytes -> option url.
Variable cap : nat.
Variable parse_ref : option url -> text -> option url.
Variable url_parse : text -> option url.
Variable host_of : url -> text.

(* results do not depend on what the cache holds (C03 cache_transparent_partial), so loading is
   modelled from a cold cache: a function, as Collection.harvest wants it *)
Definition load_page (r : pref) : option (page pref pref) :=
  match fetch_unknown W is_https resolve cap parse_ref url_parse host_of [] (fst r) (snd r) with
  | (FUOk o id, _, _) => coll_page o id
  | (FUErr _, _, _) => None
  end.

(* pub.New(reference) as a collection, then Harvest(amount, start) repeatedly with the continuation *)
Definition remote_requests (root : jv) (amounts : list nat) : option (list (list (delivered pref pref) * bool)) :=
  match load_page (root, None) with
  | None => None
  | Some p =>
      Some ((fix go (k : option (page pref pref * nat)) (amounts : list nat) : list (list (delivered pref pref) * bool) :=
               match amounts, k with
               | a :: rest, Some (p, start) =>
                   let (d, k') := harvest load_page (harvest_fuel a) p a start 0 in
                   (d, match k' with Some _ => true | None => false end) :: go k' rest
               | _, _ => []
               end) (Some (p, 0%nat)) amounts)
  end.
End Paging.
