(* What is opened for a piece of user input or a feed source, composed from the models of the parts:
   pub.FetchUserInput ("@name" / "!name" -> webfinger, then pub.New on the link it returned; anything
   else -> pub.New on the text), and splicer.NewSplicer's choice of a source's page (a collection is its
   own page; an actor's page is its outbox; posts have their replies, which this model leaves out).
   Fetching is from a given cache; the requests made are returned in order. *)
From Servitor Require Import Base Unicode Ansi Mime Json Object Jtp Client Webfinger Listing Collection Paging.

Definition SIGIL_AT : N := 64.    (* @ *)
Definition SIGIL_BANG : N := 33.  (* ! *)
Definition s_outbox : text := [111;117;116;98;111;120]%N.

Section Open.
Variable W : url -> entry.
Variable is_https : url -> bool.
Variable resolve : url -> bytes -> option url.
Variable cap : nat.
Variable parse_ref : option url -> text -> option url.
Variable url_parse : text -> option url.
Variable host_of : url -> text.
Variable mk_url : bytes -> bytes -> url.

(* pub.New(reference, nil): the object and its id, or a failure item *)
Definition open_ref (c : cache) (v : jv) : fu_result * cache * list url :=
  fetch_unknown W is_https resolve cap parse_ref url_parse host_of c v None.

(* pub.FetchUserInput on what the user typed (bytes); local paths (/, ./, ../) are not modelled: they never yield
   anything but a failure item on this tree *)
Definition fetch_user_input (c : cache) (typed : bytes) : fu_result * cache * list url :=
  match typed with
  | s :: name =>
      if N.eqb s SIGIL_AT || N.eqb s SIGIL_BANG then
        match resolve_webfinger W is_https resolve cap mk_url c name with
        | (WFLink href, c1, log1) =>
            let '(r, c2, log2) := open_ref c1 (JStr href) in (r, c2, log1 ++ log2)
        | (_, c1, log1) => (FUErr FUBadInput, c1, log1)
        end
      else open_ref c (JStr typed)
  | [] => open_ref c (JStr typed)
  end.

(* the page a feed source starts from (from a cold cache: results do not depend on the cache) and, for an actor,
   the id its entries must be activities of *)
Definition source_page (v : jv) : option (option (option url) * page pref pref) :=
  match fetch_unknown W is_https resolve cap parse_ref url_parse host_of [] v None with
  | (FUOk o id, _, _) =>
      if kind_in actor_kinds o then
        match get_any o s_outbox with
        | Present ob =>
            match load_page W is_https resolve cap parse_ref url_parse host_of (ob, id) with
            | Some pg => Some (Some id, pg)
            | None => None
            end
        | _ => None
        end
      else match coll_page o id with Some pg => Some (None, pg) | None => None end
  | (FUErr _, _, _) => None
  end.
End Open.
