(* What is opened for a piece of user input or a feed source, composed from the models of the parts:
   pub.FetchUserInput ("@name" / "!name" -> webfinger, then pub.New on the link it returned; anything
   else -> pub.New on the text), and splicer.NewSplicer's choice of a source's page (a collection is its
   own page; an actor's page is its outbox; posts have their replies, which this model leaves out).
   Fetching is from a given cache; the requests made are returned in order. *)
From Servitor Require Import Base Unicode Ansi Mime Json Object Jtp Client Webfinger Listing Collection Paging.

Definition SIGIL_AT : N := 64.    (* @ *)
Definition SIGIL_BANG : N := 33.  (* ! *)
Definition s_outbox : text := [111;117;116;98;111;120]%N.

Section Open.
Variable W : url -> entry.
Variable is_https : url -> bool.
Variable resolve : url -> bytes -> option url.
Variable cap : nat.
Variable parse_ref : option url -> text -> option url.
Variable url_parse : text -> option url.
Variable host_of : url -> text.
Variable mk_url : bytes -> bytes -> url.

(* pub.New(reference, nil): the object and its id, or a failure item *)
Definition open_ref (c : cache) (v : jv) : fu_result * cache * list url :=
  fetch_unknown W is_https resolve cap parse_ref url_parse host_of c v None.

(* pub.FetchUserInput on what the user typed (bytes); local paths (/, ./, ../) are not modelled: they never yield
   anything but a failure item on this tree *)
Definition fetch_user_input (c : cache) (typed : bytes) : fu_result * cache * list url :=
  match typed with
  | s :: name =>
      if N.eqb s SIGIL_AT || N.eqb s SIGIL_BANG then
        match resolve_webfinger W is_https resolve cap mk_url c name with
        | (WFLink href, c1, log1) =>
            let '(r, c2, log2) := open_ref c1 (JStr href) in (r, c2, log1 ++ log2)
        | (_, c1, log1) => (FUErr FUBadInput, c1, log1)
        end
      else open_ref c (JStr typed)
  | [] => open_ref c (JStr typed)
  end.

(* the page a feed source starts from (from a cold cache: results do not depend on the cache) and, for an actor,
   the id its entries must be activities of *)
Definition source_page (v : jv) : option (option (option url) * page pref pref) :=
  match fetch_unknown W is_https resolve cap parse_ref url_parse host_of [] v None with
  | (FUOk o id, _, _) =>
      if kind_in actor_kinds o then
        match get_any o s_outbox with
        | Present ob =>
            match load_page W is_https resolve cap parse_ref url_parse host_of (ob, id) with
            | Some pg => Some (Some id, pg)
            | None => None
            end
        | _ => None
        end
      else match coll_page o id with Some pg => Some (None, pg) | None => None end
  | (FUErr _, _, _) => None
  end.
(* ---- what an opened reference turns into (pub.New), as far as provenance goes: the kind of item and, for the post or actor
   that bears the content - for an activity its target, pub.getPostOrActor - the id it is shown under and its "name".
   An activity's object that is an inline Create is unwrapped first (Lemmy); the reference found is resolved against the
   ACTIVITY's id, never against anything the inline wrapper claims. *)
Definition s_object : text := [111;98;106;101;99;116]%N.
Definition s_name : text := [110;97;109;101]%N.
Definition s_Create : text := [67;114;101;97;116;101]%N.
Definition s_Tombstone : text := [84;111;109;98;115;116;111;110;101]%N.
Definition t_failure : text := [102;97;105;108;117;114;101]%N.
Definition t_post : text := [112;111;115;116]%N.
Definition t_actor : text := [97;99;116;111;114]%N.
Definition t_activity : text := [97;99;116;105;118;105;116;121]%N.
Definition t_other : text := [111;116;104;101;114]%N.
Definition BAR : N := 124.

Definition field_text (o : obj) (k : text) : text := match get_string o k with Present s => s | _ => [] end.
Definition id_text (id : option url) : text := match id with Some u => u | None => [] end.

(* a post or an actor, or nothing (Tombstone, another type, no type) *)
Definition leaf_summary (o : obj) (id : option url) : option text :=
  match get_string o k_type with
  | Present k =>
      if existsb (text_eqb k) actor_kinds then Some (t_actor ++ [BAR] ++ id_text id ++ [BAR] ++ field_text o s_name)
      else if existsb (text_eqb k) post_kinds then Some (t_post ++ [BAR] ++ id_text id ++ [BAR] ++ field_text o s_name)
      else None
  | _ => None
  end.

(* pub.getPostOrActor(activity, "object", activity id): the reference that is resolved *)
Definition target_ref (act : obj) : option jv :=
  match get_any act s_object with
  | Present (JObj m) =>
      match get_string m k_type with
      | Present k =>
          if text_eqb k s_Create then match get_any m s_object with Present r => Some r | _ => None end
          else Some (JObj m)
      | _ => None
      end
  | Present r => Some r
  | _ => None
  end.

Definition activity_target (c : cache) (act : obj) (act_id : option url) : option text * cache * list url :=
  match target_ref act with
  | Some r =>
      match fetch_unknown W is_https resolve cap parse_ref url_parse host_of c r act_id with
      | (FUOk o id, c', log) => (leaf_summary o id, c', log)
      | (FUErr _, c', log) => (None, c', log)
      end
  | None => (None, c, [])
  end.

(* what pub.New makes of a resolved reference; posts with authors, parents or replies and actors with outboxes (further
   fetches) are outside this summary: the generator does not make them *)
Definition opened_summary (c : cache) (r : fu_result) : text * cache * list url :=
  match r with
  | FUErr _ => (t_failure, c, [])
  | FUOk o id =>
      match leaf_summary o id with
      | Some t => (t, c, [])
      | None =>
          if kind_in activity_kinds o then
            match activity_target c o id with
            | (Some t, c', log) => (t_activity ++ [62%N] ++ t, c', log)
            | (None, c', log) => (t_activity ++ [62%N] ++ t_failure, c', log)
            end
          else match coll_page o id with Some _ => (t_other, c, []) | None => (t_failure, c, []) end
      end
  end.
End Open.
