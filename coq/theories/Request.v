(* What servitor writes on a connection (jtp.Get): exactly
     GET <uri> HTTP/1.0 CRLF Host: <host> CRLF Accept: <accept> CRLF CRLF
   and a recogniser for "this byte stream is exactly one such request". *)
From Servitor Require Import Base Jtp.
Local Open Scope N_scope.

Definition CRLF : bytes := [13; 10].
Definition b_get : bytes := [71; 69; 84; 32].                                   (* "GET " *)
Definition b_http10 : bytes := [32; 72; 84; 84; 80; 47; 49; 46; 48].            (* " HTTP/1.0" *)
Definition b_host : bytes := [72; 111; 115; 116; 58; 32].                       (* "Host: " *)
Definition b_accept : bytes := [65; 99; 99; 101; 112; 116; 58; 32].             (* "Accept: " *)

Definition request_bytes (uri host accept : bytes) : bytes :=
  b_get ++ uri ++ b_http10 ++ CRLF ++ b_host ++ host ++ CRLF ++ b_accept ++ accept ++ CRLF ++ CRLF.

Fixpoint strip (p l : bytes) : option bytes :=
  match p, l with
  | [], _ => Some l
  | a :: p', b :: l' => if N.eqb a b then strip p' l' else None
  | _ :: _, [] => None
  end.

(* maximal run of bytes that are not CR, LF (and, when [sp], not space) *)
Fixpoint span_field (sp : bool) (l : bytes) : bytes * bytes :=
  match l with
  | c :: r => if N.eqb c 13 || N.eqb c 10 || (sp && N.eqb c 32) then ([], l)
              else let (a, b) := span_field sp r in (c :: a, b)
  | [] => ([], [])
  end.

(* Some (uri, host, accept) iff the stream is exactly one well-formed request *)
Definition parse_request (l : bytes) : option (bytes * bytes * bytes) :=
  match strip b_get l with
  | None => None
  | Some r1 =>
      let (uri, r2) := span_field true r1 in
      match uri, strip (b_http10 ++ CRLF ++ b_host) r2 with
      | _ :: _, Some r3 =>
          let (host, r4) := span_field false r3 in
          match strip (CRLF ++ b_accept) r4 with
          | Some r5 =>
              let (acc, r6) := span_field false r5 in
              match strip (CRLF ++ CRLF) r6 with
              | Some [] => Some (uri, host, acc)
              | _ => None
              end
          | None => None
          end
      | _, _ => None
      end
  end.

Definition no_crlf (l : bytes) : bool := forallb (fun c => negb (N.eqb c 13 || N.eqb c 10)) l.
Definition no_crlf_sp (l : bytes) : bool := forallb (fun c => negb (N.eqb c 13 || N.eqb c 10 || N.eqb c 32)) l.
