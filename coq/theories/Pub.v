(* Model of how pub renders items (pub/post.go, actor.go, failure.go, link.go): String, Preview,
   Name, header/center/supplement/footer, SelectLink, Media / ProfilePic / Banner.  The model
   starts from the FIELDS a constructor stored (value / absent / error with its message): error
   message texts, ago(published) and the formatted join date are library- and clock-produced
   strings and are inputs (universally quantified in the theorems); the body is any rendering
   function width -> text (in correspondence runs: the markup models on the parsed body). *)
From Servitor Require Import Base Unicode Ansi Style Mime.
Local Open Scope Z_scope.

Inductive fval (A : Type) := FOk (a : A) | FAbsent | FErr (msg : text).
Arguments FOk {A} a. Arguments FAbsent {A}. Arguments FErr {A} msg.

Record link := mklink {
  l_kind : text; l_mt : fval media_type; l_uri : fval text; l_alt : fval text; l_height : fval Z; l_width : fval Z }.

(* Link.Alt() *)
Definition link_alt (l : link) : text + text :=   (* inl alt | inr error message *)
  match l_alt l with
  | FOk a => inl a
  | FAbsent => match l_uri l with FOk u => inl u | FAbsent => inr [] | FErr m => inr m end
  | FErr m => inr m
  end.

Definition s_audio : text := [65;117;100;105;111]%N.
Definition s_video : text := [86;105;100;101;111]%N.
Definition s_image : text := [73;109;97;103;101]%N.
Definition lower_ascii (t : text) : text := map (fun c => if (N.leb 65 c && N.leb c 90)%bool then (c + 32)%N else c) t.

(* Link.SelectWithDefaultMediaType: (link, media type) when a link is present *)
Definition link_select (l : link) (default : media_type) : option (text * media_type) :=
  match l_uri l with
  | FOk u =>
      match l_mt l with
      | FOk m => Some (u, m)
      | _ => if text_eqb (l_kind l) s_audio || text_eqb (l_kind l) s_video || text_eqb (l_kind l) s_image
             then Some (u, mt_unknown_subtype (lower_ascii (l_kind l)))
             else Some (u, default)
      end
  | _ => None
  end.

Inductive comments_state := CAbsent | CErr | COk (size : fval Z).

Record post := mkpost {
  p_kind : text;
  p_title : fval text;
  p_title_msg : text;                  (* the message of titleErr when there is no title (Name shows it) *)
  p_body : fval (Z -> text);           (* Markup.Render *)
  p_body_links : list text;
  p_created : fval text;               (* FOk (ago text) *)
  p_parent_absent : bool;
  p_creators : list text;              (* Name() of every creator *)
  p_recipients : list text;
  p_attachments : fval (list link);
  p_media : fval link;
  p_comments : comments_state }.

Section WithColors.
Variable col : colors.

Definition t (s : list Z) : text := map Z.to_N s.
Definition s_comment := t [99;111;109;109;101;110;116].
Definition s_by := t [32;98;121;32].
Definition s_to := t [32;116;111;32].
Definition s_comma := t [44;32].
Definition s_at := t [32;97;116;32].
Definition s_bullet := [32; 8226; 32]%N.                 (* " • " *)
Definition s_failed_title := t [102;97;105;108;101;100;32;116;111;32;103;101;116;32;116;105;116;108;101;58;32].          (* "failed to get title: " *)
Definition s_failed_attach := t [102;97;105;108;101;100;32;116;111;32;108;111;97;100;32;97;116;116;97;99;104;109;101;110;116;115;58;32].
Definition s_comments_disabled := t [99;111;109;109;101;110;116;115;32;100;105;115;97;98;108;101;100].
Definition s_comments_enabled := t [99;111;109;109;101;110;116;115;32;101;110;97;98;108;101;100].
Definition s_one_comment := t [49;32;99;111;109;109;101;110;116].
Definition s_comments_suffix := t [32;99;111;109;109;101;110;116;115].
Definition ELL : text := [8230]%N.

Fixpoint join_names (names : list text) : text :=
  match names with
  | [] => []
  | [n] => color col n
  | n :: r => color col n ++ s_comma ++ join_names r
  end.

(* fmt.Sprintf("%d", uint64) *)
Definition dec (z : Z) : text := digits z.

Definition post_header (p : post) (w : Z) : text :=
  let title := match p_title p with
               | FOk s => bold s ++ [NL]
               | FAbsent => []
               | FErr m => problem col (s_failed_title ++ m) ++ [NL]
               end in
  let kind := if p_parent_absent p then color col (lower_ascii (p_kind p)) else color col s_comment in
  let by_ := match p_creators p with [] => [] | l => s_by ++ join_names l end in
  let to_ := match p_recipients p with [] => [] | l => s_to ++ join_names l end in
  let when := match p_created p with
              | FErr m => s_at ++ problem col m
              | FOk ago => s_bullet ++ color col ago
              | FAbsent => s_bullet ++ color col []          (* ago of the zero time: supplied as FOk by the harness *)
              end in
  wrap (title ++ kind ++ by_ ++ to_ ++ when) w.

Definition post_center (p : post) (w : Z) : option text :=
  match p_body p with
  | FAbsent => None
  | FErr m => Some (wrap (problem col m) w)
  | FOk render => Some (render w)
  end.

Fixpoint supplement_lines (base : nat) (i : nat) (atts : list link) (w : Z) (acc : text) : text :=
  match atts with
  | [] => acc
  | a :: r =>
      let acc1 := match acc with [] => [] | _ => acc ++ [NL] end in
      let number := Z.of_nat (base + i + 1) in
      let line := match link_alt a with
                  | inr m => match link_block col (problem col m) number with Ok x => x | Panic => [] end
                  | inl alt => match link_block col (wrap alt (w - 2)) number with Ok x => x | Panic => [] end
                  end in
      supplement_lines base (S i) r w (acc1 ++ line)
  end.

Definition post_supplement (p : post) (w : Z) : option text :=
  match p_attachments p with
  | FAbsent => None
  | FErr m => Some (wrap (problem col (s_failed_attach ++ m)) w)
  | FOk [] => None
  | FOk atts => Some (supplement_lines (length (p_body_links p)) 0 atts w [])
  end.

Definition post_footer (p : post) : text :=
  match p_comments p with
  | CAbsent => color col s_comments_disabled
  | CErr => color col s_comments_enabled
  | COk FAbsent => color col s_comments_enabled
  | COk (FErr m) => problem col m
  | COk (FOk n) => if Z.eqb n 1 then color col s_one_comment else color col (dec n ++ s_comments_suffix)
  end.

Definition post_string (p : post) (w : Z) : text :=
  post_header p w
  ++ (match post_center p (w - 4) with Some b => [NL; NL] ++ indent b [SP; SP] true | None => [] end)
  ++ (match post_supplement p (w - 4) with Some a => [NL; NL] ++ indent a [SP; SP] true | None => [] end)
  ++ [NL; NL] ++ post_footer p.

Definition post_preview (p : post) (w : Z) : res text :=
  let body := post_center p w in
  let out := post_header p w
             ++ (match body with Some b => [NL] ++ b | None => [] end)
             ++ (match post_supplement p w with
                 | Some a => (match body with Some _ => [NL] | None => [] end) ++ [NL] ++ a
                 | None => []
                 end) in
  snip out w 4 (color col ELL).

Definition post_name (p : post) : text :=
  match p_title p with
  | FOk s => s
  | _ => problem col (p_title_msg p)
  end.

(* SelectLink(input) with the repaired lower bound *)
Definition post_select_link (p : post) (k : Z) : option (text * media_type) :=
  let i := k - 1 in
  if Z.ltb i 0 then None
  else match nth_error (p_body_links p) (Z.to_nat i) with
       | Some l => Some (l, mt_unknown)
       | None =>
           match p_attachments p with
           | FOk atts => match nth_error atts (Z.to_nat i - length (p_body_links p)) with
                         | Some a => link_select a mt_unknown
                         | None => None
                         end
           | _ => None
           end
       end.

Definition is_av_kind (k : text) : bool := text_eqb k s_audio || text_eqb k s_video || text_eqb k s_image.

Definition post_media (p : post) : option (text * media_type) :=
  match p_media p with
  | FOk l => if is_av_kind (p_kind p) then link_select l (mt_unknown_subtype (lower_ascii (p_kind p)))
             else link_select l mt_unknown
  | _ => None
  end.

(* ---------------------------------------------------------------- actors *)
Record actor := mkactor {
  a_kind : text; a_name : fval text; a_handle : fval text; a_host : option text;   (* a.id.Host *)
  a_bio : fval (Z -> text); a_bio_links : list text;
  a_joined : fval text;                (* FOk (formatted date) *)
  a_pfp : fval link; a_banner : fval link;
  a_posts : fval (fval Z) }.           (* postsErr (any error, message) / Size() *)

Definition s_person := t [80;101;114;115;111;110].
Definition AT : rune := 64%N.

Definition actor_name (a : actor) : text :=
  let o1 := match a_name a with FOk n => n | FAbsent => [] | FErr m => problem col m end in
  let o2 :=
    match a_host a, a_handle a with
    | Some h, FOk u => (match o1 with [] => [] | _ => o1 ++ [SP] end) ++ italic ([AT] ++ u ++ [AT] ++ h)
    | Some h, FErr m => (match o1 with [] => [] | _ => o1 ++ [SP] end) ++ problem col m
    | _, _ => o1
    end in
  let o3 :=
    if negb (text_eqb (a_kind a) s_person)
    then (match o2 with [] => [] | _ => o2 ++ [SP] end) ++ [40%N] ++ lower_ascii (a_kind a) ++ [41%N]
    else match o2 with [] => lower_ascii (a_kind a) | _ => o2 end in
  color col o3.

Definition s_joined := [10; 106; 111; 105; 110; 101; 100; 32]%N.     (* "\njoined " *)

Definition actor_header (a : actor) (w : Z) : text :=
  wrap (actor_name a ++ match a_joined a with
                        | FAbsent => []
                        | FErr m => s_joined ++ problem col m
                        | FOk d => s_joined ++ color col d
                        end) w.

Definition actor_center (a : actor) (w : Z) : option text :=
  match a_bio a with
  | FAbsent => None
  | FErr m => Some (wrap (problem col m) w)
  | FOk render => Some (render w)
  end.

Definition s_one_post := t [49;32;112;111;115;116].
Definition s_posts_suffix := t [32;112;111;115;116;115].

Definition actor_footer (a : actor) : option text :=
  match a_posts a with
  | FErr m => Some (problem col m)
  | FAbsent => Some (problem col [])       (* not produced by the constructor *)
  | FOk FAbsent => None
  | FOk (FErr m) => Some (problem col m)
  | FOk (FOk n) => Some (if Z.eqb n 1 then color col s_one_post else color col (dec n ++ s_posts_suffix))
  end.

Definition actor_string (a : actor) (w : Z) : text :=
  let body := actor_center a (w - 4) in
  actor_header a w
  ++ (match body with Some b => [NL; NL] ++ indent b [SP; SP] true | None => [] end)
  ++ (match actor_footer a with
      | Some f => (match body with Some _ => [NL] | None => [] end) ++ [NL] ++ f
      | None => []
      end).

Definition actor_preview (a : actor) (w : Z) : res text :=
  match actor_center a w with
  | Some b =>
      match snip b w 4 (color col ELL) with
      | Ok sn => Ok (actor_header a w ++ [NL] ++ sn ++ match actor_footer a with Some f => [NL] ++ f | None => [] end)
      | Panic => Panic
      end
  | None => Ok (actor_header a w ++ match actor_footer a with Some f => [NL] ++ f | None => [] end)
  end.

Definition actor_select_link (a : actor) (k : Z) : option (text * media_type) :=
  let i := k - 1 in
  if Z.ltb i 0 then None
  else match nth_error (a_bio_links a) (Z.to_nat i) with Some l => Some (l, mt_unknown) | None => None end.

Definition actor_pfp (a : actor) : option (text * media_type) :=
  match a_pfp a with FOk l => link_select l (mt_unknown_subtype (lower_ascii s_image)) | _ => None end.
Definition actor_banner (a : actor) : option (text * media_type) :=
  match a_banner a with FOk l => link_select l (mt_unknown_subtype (lower_ascii s_image)) | _ => None end.

(* ---------------------------------------------------------------- activities *)
(* an activity shows who did what above its target; the target's own texts (a post's, an actor's or an
   error item's - all modelled above) are inputs here *)
Record activity := mkactivity {
  v_kind : text;
  v_actor : fval text;                 (* FOk (actor.Name()) | FErr / FAbsent with the message of actorErr *)
  v_actor_msg : text;
  v_target_name : text;
  v_target_string : Z -> text;
  v_target_preview : Z -> text }.

Definition s_create := t [67;114;101;97;116;101].
Definition s_announce := t [65;110;110;111;117;110;99;101].
Definition s_like := t [76;105;107;101].
Definition s_dislike := t [68;105;115;108;105;107;101].
Definition s_retweeted := t [114;101;116;119;101;101;116;101;100].
Definition s_upvoted := t [117;112;118;111;116;101;100].
Definition s_downvoted := t [100;111;119;110;118;111;116;101;100].

Definition activity_header (a : activity) (w : Z) : res text :=
  if text_eqb (v_kind a) s_create then Ok []
  else
    let who := match v_actor a with FOk n => n | _ => problem col (v_actor_msg a) end in
    let verb := if text_eqb (v_kind a) s_announce then Some s_retweeted
                else if text_eqb (v_kind a) s_like then Some s_upvoted
                else if text_eqb (v_kind a) s_dislike then Some s_downvoted
                else None in                                  (* panic("encountered unrecognized Activity type") *)
    match verb with
    | Some v => Ok (wrap (who ++ [SP] ++ v ++ [58%N; NL]) w)
    | None => Panic
    end.

Definition activity_string (a : activity) (w : Z) : res text :=
  match activity_header a w with Ok h => Ok (h ++ v_target_string a w) | Panic => Panic end.
Definition activity_preview (a : activity) (w : Z) : res text :=
  match activity_header a w with Ok h => Ok (h ++ v_target_preview a w) | Panic => Panic end.
Definition activity_name (a : activity) : text := v_target_name a.
(* NewActivityFromObject accepts these four kinds only *)
Definition activity_kind_ok (k : text) : bool :=
  text_eqb k s_create || text_eqb k s_announce || text_eqb k s_like || text_eqb k s_dislike.

(* ---------------------------------------------------------------- timestamps *)
(* Tangible.Timestamp() - what a feed orders by.  Times are Unix seconds; Go's zero time.Time is ZERO_TIME. *)
Definition ZERO_TIME : Z := -62135596800.
Definition post_timestamp (created : fval Z) : Z := match created with FOk t => t | _ => ZERO_TIME end.
Definition actor_timestamp (joined : fval Z) : Z := match joined with FOk t => t | _ => ZERO_TIME end.
(* an activity without its own date borrows its target's; with an unreadable one it has none *)
Definition activity_timestamp (created : fval Z) (target : Z) : Z :=
  match created with FOk t => t | FAbsent => target | FErr _ => ZERO_TIME end.

(* ---------------------------------------------------------------- failures *)
Definition failure_name (msg : text) : text := problem col msg.
Definition failure_string (msg : text) (w : Z) : text := wrap (problem col msg) w.

End WithColors.
