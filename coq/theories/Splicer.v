(* Model of splicer/splicer.go.  A source is (buffer, page, basepoint); pages are abstract
   containers queried through the oracle [charvest] (Container.Harvest), which returns the items,
   the continuation and the new basepoint.  Items carry a timestamp (time.Time as Z; the zero
   time for "missing").  The model is purely functional: the Go code's clone()/slice aliasing is
   what the correspondence check has to confirm behaves this way. *)
From Servitor Require Import Base.
Local Open Scope Z_scope.

Section Spl.
Variable I : Type.             (* item *)
Variable C : Type.             (* container (page) *)
Variable stamp : I -> Z.       (* Timestamp() *)
(* Harvest(quantity, startingAt) of a container: items, continuation, new basepoint *)
Variable charvest : C -> nat -> nat -> list I * option C * nat.

Record source := mksrc { s_buf : list I; s_page : option C; s_base : nat }.
Definition splicer := list source.

(* replenish: every source whose buffer is shorter than [amount] and whose page is live asks
   its page for the difference *)
Definition replenish1 (amount : nat) (s : source) : source :=
  match s_page s with
  | Some pg =>
      if Nat.ltb (length (s_buf s)) amount then
        let '(items, k, b) := charvest pg (amount - length (s_buf s)) (s_base s) in
        mksrc (s_buf s ++ items) k b
      else s
  | None => s
  end.
Definition replenish (amount : nat) (sp : splicer) : splicer := map (replenish1 amount) sp.

(* microharvest: scan the sources in order; the candidate is replaced only by a STRICTLY later
   head; pop the winner *)
Fixpoint best (sp : splicer) (i : nat) (cur : option (nat * I)) : option (nat * I) :=
  match sp with
  | [] => cur
  | s :: rest =>
      match s_buf s with
      | [] => best rest (S i) cur
      | x :: _ =>
          match cur with
          | None => best rest (S i) (Some (i, x))
          | Some (j, y) => if Z.ltb (stamp y) (stamp x) then best rest (S i) (Some (i, x))
                           else best rest (S i) cur
          end
      end
  end.

Fixpoint pop_at (sp : splicer) (i : nat) : splicer :=
  match sp, i with
  | [], _ => []
  | s :: rest, O => mksrc (tl (s_buf s)) (s_page s) (s_base s) :: rest
  | s :: rest, S j => s :: pop_at rest j
  end.

Definition micro (sp : splicer) : option (I * splicer) :=
  match best sp 0 None with
  | None => None
  | Some (i, x) => Some (x, pop_at sp i)
  end.

Fixpoint drop_n (n : nat) (sp : splicer) : splicer :=
  match n with
  | O => sp
  | S k => match micro sp with Some (_, sp') => drop_n k sp' | None => sp end
  end.

(* collect q items; the continuation is None ("the feed simply ends") as soon as a pop finds
   nothing *)
Fixpoint collect (q : nat) (sp : splicer) : list I * option splicer :=
  match q with
  | O => ([], Some sp)
  | S k => match micro sp with
           | None => ([], None)
           | Some (x, sp') => let (xs, r) := collect k sp' in (x :: xs, r)
           end
  end.

Definition sp_harvest (sp : splicer) (q start : nat) : list I * option splicer :=
  collect q (drop_n start (replenish (q + start) sp)).

End Spl.

Arguments mksrc {I C}. Arguments s_buf {I C}. Arguments s_page {I C}. Arguments s_base {I C}.
Arguments replenish {I C}. Arguments best {I C}. Arguments pop_at {I C}. Arguments micro {I C}.
Arguments drop_n {I C}. Arguments collect {I C}. Arguments sp_harvest {I C}. Arguments replenish1 {I C}.
