(* Model of plaintext/plaintext.go.  The URL regex
     [A-Za-z][A-Za-z0-9+\-.]*://[hier]+
   is a deterministic scanner: at a letter, take the maximal run of scheme characters (':' is not
   one, so no shorter run can be followed by "://"), require "://" and at least one hierarchy
   character, then take the maximal run of those; otherwise try the next position. *)
From Servitor Require Import Base Unicode Ansi Style.
Local Open Scope Z_scope.

Definition is_alpha (c : rune) : bool := (N.leb 65 c && N.leb c 90) || (N.leb 97 c && N.leb c 122).
Definition is_digit_c (c : rune) : bool := N.leb 48 c && N.leb c 57.
Definition is_scheme (c : rune) : bool := is_alpha c || is_digit_c c || N.eqb c 43 || N.eqb c 45 || N.eqb c 46.
(* A-Za-z0-9 . ? # / @ : % _ ~ ! $ & ' ( ) * + , ; = [ ] - *)
Definition is_hier (c : rune) : bool :=
  is_alpha c || is_digit_c c || N.eqb c 46 || N.eqb c 63 || N.eqb c 35 || N.eqb c 47 || N.eqb c 64 || N.eqb c 58 ||
  N.eqb c 37 || N.eqb c 95 || N.eqb c 126 || N.eqb c 33 || N.eqb c 36 || N.eqb c 38 || N.eqb c 39 || N.eqb c 40 ||
  N.eqb c 41 || N.eqb c 42 || N.eqb c 43 || N.eqb c 44 || N.eqb c 59 || N.eqb c 61 || N.eqb c 91 || N.eqb c 93 || N.eqb c 45.

Fixpoint span_p (f : rune -> bool) (l : text) : text * text :=
  match l with
  | c :: l' => if f c then let (a, b) := span_p f l' in (c :: a, b) else ([], l)
  | [] => ([], [])
  end.

(* a URL match starting exactly at the head of l: (matched, rest) *)
Definition url_at (l : text) : option (text * text) :=
  match l with
  | c :: l' =>
      if is_alpha c then
        let (sch, r) := span_p is_scheme l' in
        match r with
        | a :: b :: d :: r' =>
            if N.eqb a 58 && N.eqb b 47 && N.eqb d 47 then
              let (h, rest) := span_p is_hier r' in
              match h with
              | [] => None
              | _ => Some (c :: sch ++ [a; b; d] ++ h, rest)
              end
            else None
        | _ => None
        end
      else None
  | [] => None
  end.

Section P.
Variable col : colors.

Definition plink (t : text) (n : nat) : text :=
  match link col t (Z.of_nat n) with Ok x => x | Panic => [] end.

Fixpoint linkify (fuel : nat) (l : text) (links : list text) : text * list text :=
  match fuel with
  | O => (l, links)
  | S f =>
      match l with
      | [] => ([], links)
      | c :: l' =>
          match url_at l with
          | Some (u, rest) =>
              let links' := links ++ [u] in
              let (out, ls) := linkify f rest links' in
              (plink u (length links') ++ out, ls)
          | None => let (out, ls) := linkify f l' links in (c :: out, ls)
          end
      end
  end.

Definition is_nl_p (c : rune) : bool := N.eqb c NL.
Fixpoint skip_nl (l : text) : text := match l with c :: l' => if is_nl_p c then skip_nl l' else l | [] => [] end.
Definition trim_nl_p (t : text) : text := rev_fast (skip_nl (rev_fast (skip_nl t))).

Definition plain_render_with_links (t : text) (w : Z) : text * list text :=
  let (rendered, links) := linkify (S (length t)) t [] in
  (trim_nl_p (wrap rendered w), links).
End P.
