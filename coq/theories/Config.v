(* Model of config/config.go: decoding of the documented keys from typed TOML values, colour
   conversion and (repaired) range validation.  TOML syntax itself is the library's: the model
   starts from the typed value table the generator also serialises to the file.  Go strings are
   byte strings here (hexToAnsi slices bytes). *)
From Servitor Require Import Base.
Local Open Scope Z_scope.

Definition bytes := list N.

Inductive tv :=
| TInt (z : Z) | TFloat | TBool | TDatetime | TStr (s : bytes) | TArr (l : list tv) | TTable (kvs : list (bytes * tv)).

(* ---- hexToAnsi ---- *)
Definition hex_val (c : N) : option Z :=
  if (N.leb 48 c && N.leb c 57)%bool then Some (Z.of_N c - 48)
  else if (N.leb 97 c && N.leb c 102)%bool then Some (Z.of_N c - 87)
  else if (N.leb 65 c && N.leb c 70)%bool then Some (Z.of_N c - 55)
  else None.

(* strconv.ParseUint(two bytes, 16, 0) *)
Definition hex_pair (a b : N) : option Z :=
  match hex_val a, hex_val b with
  | Some x, Some y => Some (16 * x + y)
  | _, _ => None
  end.

Fixpoint dec_fuel (fuel : nat) (n : Z) (acc : bytes) : bytes :=
  match fuel with
  | O => acc
  | S f => let acc' := Z.to_N (48 + n mod 10) :: acc in
           if Z.ltb n 10 then acc' else dec_fuel f (n / 10) acc'
  end.
Definition itoa (n : Z) : bytes := dec_fuel (S (Z.to_nat (Z.log2 n))) n [].

Definition SEMI : N := 59%N.
Definition HASH : N := 35%N.

Definition hex_to_ansi (t : bytes) : option bytes :=
  match t with
  | [h; r1; r2; g1; g2; b1; b2] =>
      if N.eqb h HASH then
        match hex_pair r1 r2, hex_pair g1 g2, hex_pair b1 b2 with
        | Some r, Some g, Some b => Some (itoa r ++ [SEMI] ++ itoa g ++ [SEMI] ++ itoa b)
        | _, _, _ => None
        end
      else None
  | _ => None
  end.

(* ---- decoding ---- *)
Record raw_config := mkraw {
  r_hook : option tv; r_primary : option tv; r_error : option tv; r_highlight : option tv; r_code : option tv;
  r_context : option tv; r_timeout : option tv; r_cache : option tv;
  r_feeds_ok : bool;        (* [feeds] absent, or a table of arrays of strings *)
  r_unknown : bool          (* some key or table outside the documented ones *)
}.

Record config := mkconfig {
  hook : list bytes; primary : bytes; error : bytes; highlight : bytes; code : bytes;
  context : Z; timeout_ns : Z; cache_size : Z
}.

Definition as_str (d : bytes) (v : option tv) : option bytes :=
  match v with None => Some d | Some (TStr s) => Some s | Some _ => None end.
Definition as_int (d : Z) (v : option tv) : option Z :=
  match v with None => Some d | Some (TInt z) => Some z | Some _ => None end.
Fixpoint all_str (l : list tv) : option (list bytes) :=
  match l with
  | [] => Some []
  | TStr s :: r => match all_str r with Some x => Some (s :: x) | None => None end
  | _ :: _ => None
  end.
Definition as_strs (d : list bytes) (v : option tv) : option (list bytes) :=
  match v with None => Some d | Some (TArr l) => all_str l | Some _ => None end.

Definition d_hook : list bytes := [[120;100;103;45;111;112;101;110]; [37;117;114;108]]%N.   (* xdg-open %url *)
Definition d_primary : bytes := [35;65;52;102;53;57;98]%N.       (* #A4f59b *)
Definition d_error : bytes := [35;57;99;51;53;51;53]%N.          (* #9c3535 *)
Definition d_highlight : bytes := [35;48;100;55;100;48;48]%N.    (* #0d7d00 *)
Definition d_code : bytes := [35;52;98;52;98;52;98]%N.           (* #4b4b4b *)

Definition max_int64 : Z := 9223372036854775807.
Definition second : Z := 1000000000.

(* int64 wrap-around of timeout * time.Second (what the code computes) *)
Definition wrap64 (z : Z) : Z := ((z + 2 ^ 63) mod 2 ^ 64) - 2 ^ 63.

Definition accept (r : raw_config) : option config :=
  if r_unknown r then None else
  if negb (r_feeds_ok r) then None else
  match as_strs d_hook (r_hook r), as_str d_primary (r_primary r), as_str d_error (r_error r),
        as_str d_highlight (r_highlight r), as_str d_code (r_code r),
        as_int 5 (r_context r), as_int 10 (r_timeout r), as_int 128 (r_cache r) with
  | Some hk, Some p, Some e, Some h, Some c, Some ctx, Some tmo, Some cs =>
      match hex_to_ansi p, hex_to_ansi e, hex_to_ansi h, hex_to_ansi c with
      | Some p', Some e', Some h', Some c' =>
          (* range validation (the repair): non-empty hook, cache >= 1, preload >= 0,
             0 <= timeout and timeout * 1e9 representable *)
          if match hk with [] => true | _ => false end then None
          else if Z.ltb cs 1 then None
          else if Z.ltb ctx 0 then None
          else if Z.ltb tmo 0 || Z.ltb (max_int64 / second) tmo then None
          else Some (mkconfig hk p' e' h' c' ctx (wrap64 (tmo * second)) cs)
      | _, _, _, _ => None
      end
  | _, _, _, _, _, _, _, _ => None
  end.
