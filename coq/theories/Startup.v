(* State.Subcommand(name, argument): what main.go runs on the fresh State.  It fails (and main exits with
   the diagnostic) for an unknown feed and for an unknown subcommand; otherwise it is run_command on
   ui_init (FrameFacts.subcommand_start). *)
From Servitor Require Import Base Ui.

Definition startup_error (feed_known : text -> bool) (name arg : text) : bool :=
  (text_eqb name s_feed && negb (feed_known arg)) || negb (text_eqb name s_open || text_eqb name s_feed).
