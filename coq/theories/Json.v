(* JSON values as encoding/json delivers them into `any`, and IEEE-754 doubles as their 64 bits. *)
From Servitor Require Import Base.
Local Open Scope Z_scope.

Inductive jv :=
| JNull | JBool (b : bool) | JNum (bits : Z) | JStr (s : text) | JArr (l : list jv) | JObj (kvs : list (text * jv)).

Fixpoint jfind (kvs : list (text * jv)) (k : text) : option jv :=
  match kvs with
  | [] => None
  | (k', v) :: r => if text_eqb k k' then Some v else jfind r k
  end.

(* --- doubles.  bits in [0, 2^64): sign(1) exponent(11) mantissa(52). *)
Definition f64_sign (b : Z) : bool := Z.testbit b 63.
Definition f64_exp (b : Z) : Z := Z.land (Z.shiftr b 52) 2047.
Definition f64_man (b : Z) : Z := Z.land b (2 ^ 52 - 1).

(* the value as (m, e) meaning (+/-) m * 2^e; None for infinities and NaN *)
Definition f64_me (b : Z) : option (Z * Z) :=
  let e := f64_exp b in let m := f64_man b in
  if Z.eqb e 2047 then None
  else if Z.eqb e 0 then Some (m, -1074)
  else Some (2 ^ 52 + m, e - 1075).

(* Some z when the double is a (mathematical) integer z; None when it is fractional, inf or NaN *)
Definition f64_to_int (b : Z) : option Z :=
  match f64_me b with
  | None => None
  | Some (m, e) =>
      let mag :=
        if Z.leb 0 e then Some (m * 2 ^ e)
        else if Z.eqb (m mod 2 ^ (- e)) 0 then Some (m / 2 ^ (- e)) else None in
      match mag with
      | None => None
      | Some z => Some (if f64_sign b then - z else z)
      end
  end.
