(* Model of ansi/ansi.go.  Texts are rune lists.  Every function of the package is here, with
   the same case analysis as the Go code; loops are folds over the expanded cell list. *)
From Servitor Require Import Base Unicode.
Local Open Scope Z_scope.

(* ------------------------------------------------------------------ expand / collapse
   The regex  (?s) ( (?: ESC \[ .*? m ) * ) (.) (?: ESC \[ 0 m )?  under Go's leftmost-first semantics is a
   deterministic scanner: a group "ESC [ ... m" is taken iff a first 'm' exists after "ESC ["
   and at least one rune follows it (the '.' needs one); the star is greedy; the lazy .*?
   never needs to extend because the continuation succeeds iff one rune is left; then exactly
   one rune; then "ESC [ 0 m" if present. *)
Record cell := mkcell { pre : text; letter : rune; rst : bool }.

Definition LBR : rune := 91%N.   (* [ *)
Definition CH_m : rune := 109%N.
Definition CH_0 : rune := 48%N.
Definition reset_seq : text := [ESC; LBR; CH_0; CH_m].

(* split after the first 'm': (runes up to and including it, rest) *)
Fixpoint split_m (l : text) : option (text * text) :=
  match l with
  | [] => None
  | c :: l' => if N.eqb c CH_m then Some ([c], l')
               else match split_m l' with
                    | Some (a, b) => Some (c :: a, b)
                    | None => None
                    end
  end.

Fixpoint take_groups (fuel : nat) (l : text) : text * text :=
  match fuel with
  | O => ([], l)
  | S f =>
      match l with
      | a :: b :: l' =>
          if N.eqb a ESC && N.eqb b LBR then
            match split_m l' with
            | Some (body, rest) =>
                match rest with
                | [] => ([], l)
                | _ => let (p, r) := take_groups f rest in (a :: b :: body ++ p, r)
                end
            | None => ([], l)
            end
          else ([], l)
      | _ => ([], l)
      end
  end.

Definition strip_reset (l : text) : bool * text :=
  match l with
  | a :: b :: c :: d :: l' =>
      if N.eqb a ESC && N.eqb b LBR && N.eqb c CH_0 && N.eqb d CH_m then (true, l') else (false, l)
  | _ => (false, l)
  end.

(* [fuel] bounds both the number of cells and (inside take_groups) the number of style groups of
   one cell; any fuel >= length l gives the same result (facts/AnsiFacts.v), and passing it down
   instead of recomputing [length l] keeps the scanner linear like the regex engine. *)
Fixpoint expand_fuel (fuel : nat) (l : text) : list cell :=
  match fuel with
  | O => []
  | S f =>
      match l with
      | [] => []
      | _ =>
          let (p, r) := take_groups fuel l in
          match r with
          | [] => []          (* unreachable: take_groups leaves at least one rune *)
          | c :: r' => let (rs, r'') := strip_reset r' in mkcell p c rs :: expand_fuel f r''
          end
      end
  end.

Definition expand (l : text) : list cell := expand_fuel (length l) l.

Definition full (c : cell) : text := pre c ++ [letter c] ++ (if rst c then reset_seq else []).
Definition collapse (cs : list cell) : text := flat_map full cs.

(* ------------------------------------------------------------------ Apply *)
Definition apply_cells (style : text) (cs : list cell) : text :=
  flat_map (fun c => if N.eqb (letter c) NL then [NL]
                     else [ESC; LBR] ++ style ++ [CH_m] ++ pre c ++ [letter c] ++ reset_seq) cs.
Definition apply (t style : text) : text := apply_cells style (expand t).

(* ------------------------------------------------------------------ Indent *)
Definition indent_cells (prefix : text) (cs : list cell) : text :=
  flat_map (fun c => if N.eqb (letter c) NL then NL :: prefix else full c) cs.
Definition indent (t prefix : text) (include_first : bool) : text :=
  (if include_first then prefix else []) ++ indent_cells prefix (expand t).

(* ------------------------------------------------------------------ Pad *)
Definition spaces (n : Z) : text := repeat_text [SP] (Z.to_nat n).

Fixpoint pad_cells (len : Z) (cs : list cell) (line_len : Z) : text :=
  match cs with
  | [] => if Z.ltb 0 (len - line_len) then spaces (len - line_len) else []
  | c :: cs' =>
      if N.eqb (letter c) NL then
        (if Z.leb (len - line_len) 0 then [NL] else spaces (len - line_len) ++ [NL]) ++ pad_cells len cs' 0
      else full c ++ pad_cells len cs' (line_len + 1)
  end.
Definition pad (t : text) (len : Z) : text := pad_cells len (expand t) 0.

(* ------------------------------------------------------------------ Wrap *)
Record wst := mkwst { w_res : list (list cell); w_line : list cell; w_space : list cell; w_word : list cell }.

Definition clen (l : list cell) : Z := Z.of_nat (length l).

Definition wrap_step (w : Z) (s : wst) (c : cell) : wst :=
  if negb (is_space (letter c)) then
    let s1 := if Z.eqb (clen (w_word s)) w
              then mkwst (w_word s :: w_res s) [] [] [] else s in
    let s2 := if Z.leb w (clen (w_line s1) + clen (w_space s1) + clen (w_word s1))
              then mkwst (w_line s1 :: w_res s1) [] [] (w_word s1) else s1 in
    mkwst (w_res s2) (w_line s2) (w_space s2) (w_word s2 ++ [c])
  else
    let s1 := if Z.ltb 0 (clen (w_word s))
              then mkwst (w_res s) (w_line s ++ w_space s ++ w_word s) [] [] else s in
    if N.eqb (letter c) NL then
      let line' := if Z.leb (clen (w_line s1) + clen (w_space s1)) w
                   then w_line s1 ++ w_space s1 else w_line s1 in
      mkwst (line' :: w_res s1) [] [] []
    else mkwst (w_res s1) (w_line s1) (w_space s1 ++ [c]) (w_word s1).

Definition wrap_finish (cs : list cell) (s : wst) : list (list cell) :=
  let line := if Z.ltb 0 (clen (w_word s)) then w_line s ++ w_space s ++ w_word s else w_line s in
  let final_nl := match last (map Some cs) None with Some c => N.eqb (letter c) NL | None => false end in
  if Z.ltb 0 (clen line) || final_nl then rev (line :: w_res s) else rev (w_res s).

Definition wrap_cells (w : Z) (cs : list cell) : list (list cell) :=
  wrap_finish cs (fold_left (wrap_step w) cs (mkwst [] [] [] [])).

Definition wrap (t : text) (w : Z) : text := join_nl (map collapse (wrap_cells w (expand t))).

(* ------------------------------------------------------------------ DumbWrap *)
Fixpoint dumb_cells (w : Z) (cs : list cell) (cur : Z) : text :=
  match cs with
  | [] => []
  | c :: cs' =>
      if N.eqb (letter c) NL then NL :: dumb_cells w cs' 0
      else if Z.eqb cur w then NL :: full c ++ dumb_cells w cs' 1
      else full c ++ dumb_cells w cs' (cur + 1)
  end.
Definition dumb_wrap (t : text) (w : Z) : text := dumb_cells w (expand t) 0.

(* ------------------------------------------------------------------ Snip *)
Definition only_space (cs : list cell) : bool := forallb (fun c => is_space (letter c)) cs.

(* lines are processed from the last kept one towards the first; [acc] is what has been kept *)
Fixpoint snip_back (width : Z) (rev_lines : list text) (acc : list text) (ell : bool) : list text * bool :=
  match rev_lines with
  | [] => (acc, ell)
  | l :: rest =>
      let cs := expand l in
      match acc with
      | [] =>
          if only_space cs then snip_back width rest [] true
          else
            let cs' := if Z.eqb (clen cs) width && ell then removelast cs else cs in
            snip_back width rest [collapse cs'] ell
      | _ => snip_back width rest (collapse cs :: acc) ell
      end
  end.

Definition snip (t : text) (width height : Z) (ellipsis : text) : res text :=
  if Z.ltb height 0 then Panic     (* make([]string, 0, height) *)
  else
    let lines := split_nl t in
    let n := Z.of_nat (length lines) in
    let h := if Z.leb n height then n else height in
    let ell0 := negb (Z.leb n height) in
    let (kept, ell) := snip_back width (rev (firstn (Z.to_nat h) lines)) [] ell0 in
    Ok (join_nl kept ++ (if ell then ellipsis else [])).

(* ------------------------------------------------------------------ Height / CenterVertically *)
Definition count_nl (t : text) : nat := length (filter (fun c => N.eqb c NL) t).
Definition height (t : text) : Z := Z.of_nat (count_nl t) + 1.

Definition center_vertically (prefix centered suffix : text) (h : Z) : text :=
  let ph := height prefix in let ch := height centered in let sh := height suffix in
  if Z.leb h ch then join_nl (firstn (Z.to_nat h) (split_nl centered))
  else
    let total := h - ch in
    let top := total / 2 in
    let bottom := top + total mod 2 in
    let prefix' := if Z.ltb ph top then repeat_text [NL] (Z.to_nat (top - ph)) ++ prefix
                   else if Z.ltb top ph then join_nl (skipn (Z.to_nat (ph - top)) (split_nl prefix))
                   else prefix in
    let suffix' := if Z.ltb sh bottom then suffix ++ repeat_text [NL] (Z.to_nat (bottom - sh))
                   else if Z.ltb bottom sh then join_nl (firstn (Z.to_nat bottom) (split_nl suffix))
                   else suffix in
    (if Z.eqb top 0 then [] else prefix' ++ [NL]) ++ centered ++ [NL] ++ suffix'.

(* ------------------------------------------------------------------ ReplaceLastLine *)
Definition has_nl (t : text) : bool := existsb (fun c => N.eqb c NL) t.

(* original[:LastIndex(original,"\n")] : everything before the last newline ("" when none) *)
Definition before_last_nl (t : text) : text :=
  match rev (split_nl t) with
  | [] => []
  | _ :: r => join_nl (rev r)
  end.

Definition replace_last_line (original replacement : text) : res text :=
  if has_nl replacement then Panic else Ok (before_last_nl original ++ [NL] ++ replacement).

(* ------------------------------------------------------------------ Scrub / Squash / SetLength *)
Definition scrub (t : text) : text :=
  flat_map (fun c => if N.eqb c 9 then [SP; SP; SP; SP]
                     else if negb (N.eqb c NL) && is_control c then [] else [c]) t.
Definition squash (t : text) : text := map (fun c => if N.eqb c NL then SP else c) t.

Definition set_length (t : text) (len : Z) (ellipsis : text) : res text :=
  let r := squash (scrub t) in
  let n := Z.of_nat (length r) in
  if Z.eqb len 0 then Ok []
  else if Z.ltb len n then (if Z.ltb len 1 then Panic else Ok (firstn (Z.to_nat (len - 1)) r ++ ellipsis))
  else if Z.ltb n len then Ok (r ++ spaces (len - n))
  else Ok r.
