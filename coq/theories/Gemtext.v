(* Model of gemtext/gemtext.go (with the repair: elements and the whole rendering are wrapped).
   The line regexes are deterministic scanners: a link line is "=>", optional spaces/tabs, the uri
   (up to the first space or tab), then optionally spaces/tabs and the alt text (rest of line);
   headers are 1-3 '#' followed by at least one space/tab; bullets "* x"; quotes ">" + optional
   space. *)
From Servitor Require Import Base Unicode Ansi Style.
Local Open Scope Z_scope.

Definition is_sp_tab (c : rune) : bool := N.eqb c 32 || N.eqb c 9.
Definition BACKTICK : rune := 96%N.
Definition EQ_C : rune := 61%N. Definition GT_C : rune := 62%N. Definition HASH_C : rune := 35%N. Definition STAR_C : rune := 42%N.

Fixpoint skip_while (f : rune -> bool) (l : text) : text :=
  match l with c :: l' => if f c then skip_while f l' else l | [] => [] end.
Fixpoint span_until (f : rune -> bool) (l : text) : text * text :=
  match l with
  | c :: l' => if f c then ([], l) else let (a, b) := span_until f l' in (c :: a, b)
  | [] => ([], [])
  end.

Inductive gline :=
| GToggle | GLink (uri alt : text) | GHeader (lvl : nat) (t : text) | GBullet (t : text) | GQuote (t : text) | GPlain (t : text).

(* "#"x n followed by at least one space/tab *)
Definition header_of (l : text) : option (nat * text) :=
  match l with
  | a :: r1 =>
      if N.eqb a HASH_C then
        match r1 with
        | b :: r2 =>
            if is_sp_tab b then Some (1%nat, skip_while is_sp_tab r1)
            else if N.eqb b HASH_C then
              match r2 with
              | c :: r3 =>
                  if is_sp_tab c then Some (2%nat, skip_while is_sp_tab r2)
                  else if N.eqb c HASH_C then
                    match r3 with
                    | d :: _ => if is_sp_tab d then Some (3%nat, skip_while is_sp_tab r3) else None
                    | [] => None
                    end
                  else None
              | [] => None
              end
            else None
        | [] => None
        end
      else None
  | [] => None
  end.

Definition classify (l : text) : gline :=
  match l with
  | a :: b :: c :: _ =>
      if N.eqb a BACKTICK && N.eqb b BACKTICK && N.eqb c BACKTICK then GToggle else
      if N.eqb a EQ_C && N.eqb b GT_C then
        let rest := skip_while is_sp_tab (tl (tl l)) in
        let (uri, r) := span_until is_sp_tab rest in
        GLink uri (skip_while is_sp_tab r)
      else match header_of l with
           | Some (lvl, t) => GHeader lvl t
           | None =>
               if N.eqb a STAR_C && N.eqb b SP then GBullet (tl (tl l))
               else if N.eqb a GT_C then GQuote (if N.eqb b SP then tl (tl l) else tl l)
               else GPlain l
           end
  | [a; b] =>
      if N.eqb a EQ_C && N.eqb b GT_C then GLink [] []
      else match header_of l with
           | Some (lvl, t) => GHeader lvl t
           | None =>
               if N.eqb a STAR_C && N.eqb b SP then GBullet []
               else if N.eqb a GT_C then GQuote (if N.eqb b SP then [] else [b])
               else GPlain l
           end
  | [a] => if N.eqb a GT_C then GQuote [] else GPlain l
  | [] => GPlain []
  end.

Definition trim_suffix_nl (t : text) : text :=
  match rev_fast t with c :: r => if N.eqb c NL then rev_fast r else t | [] => [] end.

Section G.
Variable col : colors.

Definition glink_block (t : text) (n : nat) : text :=
  match link_block col t (Z.of_nat n) with Ok x => x | Panic => [] end.

(* state: result, links, preformatted?, buffer *)
Fixpoint glines (w : Z) (ls : list text) (res : text) (links : list text) (pre : bool) (buf : text)
  : text * list text :=
  match ls with
  | [] =>
      let res' := if pre then res ++ code_block col (dumb_wrap (trim_suffix_nl buf) w) ++ [NL] else res in
      (res', links)
  | l :: rest =>
      match classify l with
      | GToggle =>
          if pre then glines w rest (res ++ code_block col (dumb_wrap (trim_suffix_nl buf) w) ++ [NL]) links false []
          else glines w rest res links true buf
      | g =>
          if pre then glines w rest res links true (buf ++ l ++ [NL])
          else
            match g with
            | GLink uri alt =>
                let alt' := match alt with [] => uri | _ => alt end in
                let links' := links ++ [uri] in
                glines w rest (res ++ glink_block (wrap alt' (w - 2)) (length links') ++ [NL]) links' false buf
            | GHeader lvl t =>
                glines w rest (res ++ header col (wrap t (w - Z.of_nat (lvl + 1))) lvl ++ [NL]) links false buf
            | GBullet t => glines w rest (res ++ bullet (wrap t (w - 2)) ++ [NL]) links false buf
            | GQuote t => glines w rest (res ++ quote_block col (wrap t (w - 1)) ++ [NL]) links false buf
            | GPlain t => glines w rest (res ++ t ++ [NL]) links false buf
            | GToggle => (res, links)
            end
      end
  end.

Definition is_nl (c : rune) : bool := N.eqb c NL.

Definition drop_while_g (f : rune -> bool) (l : text) : text := skip_while f l.
Definition trim_nl (t : text) : text := rev_fast (skip_while is_nl (rev_fast (skip_while is_nl t))).

Definition gem_render_with_links (t : text) (w : Z) : text * list text :=
  let (res, links) := glines w (split_nl t) [] [] false [] in
  (trim_nl (wrap res w), links).
End G.
