(* Model of client/client.go FetchUnknown: the provenance rule.  An object is accepted with an id
   only if its JSON was served by the host named in the id (fetched from it, or embedded in a
   document that came from it); otherwise it is re-fetched from the id or rejected as forged. *)
From Servitor Require Import Base Unicode Ansi Mime Json Object Jtp.

Definition MAX_REDIRECTS : nat := 20.

Definition s_id : text := [105; 100]%N.

Section Client.
Variable W : url -> entry.
Variable is_https : url -> bool.
Variable resolve : url -> bytes -> option url.    (* Location resolution, used by jtp *)
Variable cap : nat.
(* net/url as an oracle *)
Variable parse_ref : option url -> text -> option url.  (* url.Parse(s), resolved against the source when there is one *)
Variable url_parse : text -> option url.                (* url.Parse for "id" (GetURL) : canonical string *)
Variable host_of : url -> text.                         (* u.Host *)

Definition as_tolerated : list text :=
  [[97;112;112;108;105;99;97;116;105;111;110;47;97;99;116;105;118;105;116;121;43;106;115;111;110];
   [97;112;112;108;105;99;97;116;105;111;110;47;108;100;43;106;115;111;110];
   [97;112;112;108;105;99;97;116;105;111;110;47;106;115;111;110]]%N.

Definition fetch_url (c : cache) (u : url) : outcome * cache * list url :=
  get W is_https resolve as_tolerated cap MAX_REDIRECTS c u.

Inductive fu_err := FUBadInput | FUBadRef | FUFetch (e : errclass) | FUBadId | FUForged.

Inductive fu_result :=
| FUOk (o : obj) (id : option url)
| FUErr (e : fu_err).

(* id of an object: Absent -> None ; unparseable -> error *)
Definition obj_id (o : obj) : option (option url) :=
  match get_url url_parse o s_id with
  | Present u => Some (Some u)
  | Absent => Some None
  | Bad => None
  end.

Definition needs_refetch (o : obj) (source : option url) (id : url) : bool :=
  match source with
  | None => true
  | Some s => negb (text_eqb (host_of s) (host_of id)) || Nat.leb (length o) 2
  end.

Definition fetch_unknown (c : cache) (input : jv) (source : option url)
  : fu_result * cache * list url :=
  (* 1. obtain the object and where it came from *)
  let first : option (obj * option url) * option fu_err * cache * list url :=
    match input with
    | JStr s =>
        match parse_ref source s with
        | None => (None, Some FUBadRef, c, [])
        | Some target =>
            match fetch_url c target with
            | (ODoc d src, c', log) => (Some (d, Some src), None, c', log)
            | (OErr e, c', log) => (None, Some (FUFetch e), c', log)
            end
        end
    | JObj o => (Some (o, source), None, c, [])
    | _ => (None, Some FUBadInput, c, [])
    end in
  match first with
  | (None, Some e, c', log) => (FUErr e, c', log)
  | (None, None, c', log) => (FUErr FUBadInput, c', log)
  | (Some (o, src), _, c', log) =>
      match obj_id o with
      | None => (FUErr FUBadId, c', log)
      | Some None => (FUOk o None, c', log)
      | Some (Some id) =>
          if needs_refetch o src id then
            match fetch_url c' id with
            | (OErr e, c'', log') => (FUErr (FUFetch e), c'', log ++ log')
            | (ODoc d src', c'', log') =>
                match obj_id d with
                | None => (FUErr FUBadId, c'', log ++ log')
                | Some None => (FUOk d None, c'', log ++ log')
                | Some (Some id') =>
                    if text_eqb (host_of src') (host_of id') then (FUOk d (Some id'), c'', log ++ log')
                    else (FUErr FUForged, c'', log ++ log')
                end
            end
          else (FUOk o (Some id), c', log)
      end
  end.
End Client.
