(* Model of client.ResolveWebfinger (client/client.go) and of the request it sends: what the user
   typed after '@' / '!' is split at the first '@'; the domain becomes the Host of a hand-built
   url.URL and account and domain go, percent-encoded by url.Values.Encode, into the query.  The
   name is a Go string, i.e. BYTES.  url.QueryEscape is modelled here (not an oracle), so that the
   shape of the request-URI is a theorem for every typed name. *)
From Servitor Require Import Base Unicode Ansi Mime Json Object Jtp Client.
Local Open Scope N_scope.

Definition AT_B : N := 64.

(* strings.SplitN(name, "@", 2) with both halves required *)
Fixpoint split_at (t : bytes) : option (bytes * bytes) :=
  match t with
  | [] => None
  | c :: r => if N.eqb c AT_B then Some ([], r)
              else match split_at r with Some (a, d) => Some (c :: a, d) | None => None end
  end.

(* url.QueryEscape: unreserved bytes stay, space becomes '+', every other byte becomes a percent sign and two upper-case hex digits *)
Definition unreserved (c : N) : bool :=
  (N.leb 65 c && N.leb c 90) || (N.leb 97 c && N.leb c 122) || (N.leb 48 c && N.leb c 57)
  || N.eqb c 45 || N.eqb c 95 || N.eqb c 46 || N.eqb c 126.
Definition hex_digit (n : N) : N := if N.ltb n 10 then 48 + n else 55 + n.
Definition escape_byte (c : N) : bytes :=
  if unreserved c then [c] else if N.eqb c 32 then [43] else [37; hex_digit (c / 16); hex_digit (c mod 16)].
Definition query_escape (bs : bytes) : bytes := flat_map escape_byte bs.

Definition wf_prefix : bytes := [47;46;119;101;108;108;45;107;110;111;119;110;47;119;101;98;102;105;110;103;101;114;63;114;101;115;111;117;114;99;101;61]%N.
Definition s_acct : bytes := [97;99;99;116;58]%N.
Definition wf_uri (acct dom : bytes) : bytes := wf_prefix ++ query_escape (s_acct ++ acct ++ [AT_B] ++ dom).

Definition jrd_tolerated : list text := [[97;112;112;108;105;99;97;116;105;111;110;47;106;114;100;43;106;115;111;110]%N; [97;112;112;108;105;99;97;116;105;111;110;47;106;115;111;110]%N].
Definition wf_types : list text := [[97;112;112;108;105;99;97;116;105;111;110;47;97;99;116;105;118;105;116;121;43;106;115;111;110]%N; [97;112;112;108;105;99;97;116;105;111;110;47;108;100;43;106;115;111;110]%N].
Definition s_links : text := [108;105;110;107;115]%N.
Definition s_rel : text := [114;101;108]%N.
Definition s_self : text := [115;101;108;102]%N.
Definition s_type : text := [116;121;112;101]%N.
Definition s_href : text := [104;114;101;102]%N.
Definition jrd_accept : bytes := [97;112;112;108;105;99;97;116;105;111;110;47;106;114;100;43;106;115;111;110]%N.

Inductive wf_result :=
| WFLink (href : text)
| WFNoAt                       (* "webfinger address must have a separating @ symbol" *)
| WFFetch (e : errclass)
| WFBadListing                 (* links missing, an element that is not an object, rel/type/href unusable *)
| WFNotFound.                  (* "actor not found in webfinger listing" *)

(* the loop over the JRD links: the first rel=self entry whose type is an ActivityPub type wins;
   entries with another rel, without a type or with another type are skipped; anything malformed
   before the winner aborts *)
Fixpoint wf_scan (l : list jv) : wf_result :=
  match l with
  | [] => WFNotFound
  | JObj o :: r =>
      match get_string o s_rel with
      | Present rel =>
          if negb (text_eqb rel s_self) then wf_scan r
          else match get_media_type o s_type with
               | Absent => wf_scan r
               | Bad => WFBadListing
               | Present m =>
                   if mt_matches m wf_types
                   then match get_string o s_href with Present h => WFLink h | _ => WFBadListing end
                   else wf_scan r
               end
      | _ => WFBadListing
      end
  | _ :: _ => WFBadListing
  end.

(* jtp keys its cache by the kind of request (the Accept value) together with the URL, so that a
   response validated against one tolerated list never answers a request with another.  The model
   keeps one cache of (key, outcome) pairs: the keys of ActivityPub requests are the URLs
   themselves and the keys of webfinger requests are the URLs with this tag in front - an
   injective renaming of the implementation's keys.  [get] is run on tagged URLs through servers,
   scheme test and Location resolution that look through the tag. *)
Definition wf_tag : text := jrd_accept ++ [32].
Definition tag (u : url) : url := wf_tag ++ u.
Definition untag (u : url) : url := skipn (length wf_tag) u.

Section Webfinger.
Variable W : url -> entry.
Variable is_https : url -> bool.
Variable resolve : url -> bytes -> option url.
Variable cap : nat.
Variable mk_url : bytes -> bytes -> url.     (* the URL with this Host and this request-URI (scheme https) *)

Definition W_t (u : url) : entry := W (untag u).
Definition is_https_t (u : url) : bool := is_https (untag u).
Definition resolve_t (u : url) (v : bytes) : option url := option_map tag (resolve (untag u) v).

Definition resolve_webfinger (c : cache) (name : bytes) : wf_result * cache * list url :=
  match split_at name with
  | None => (WFNoAt, c, [])
  | Some (acct, dom) =>
      match get W_t is_https_t resolve_t jrd_tolerated cap MAX_REDIRECTS c (tag (mk_url dom (wf_uri acct dom))) with
      | (ODoc d _, c', log) =>
          (match get_list d s_links with Present l => wf_scan l | _ => WFBadListing end, c', map untag log)
      | (OErr e, c', log) => (WFFetch e, c', map untag log)
      end
  end.
End Webfinger.
