(* Model of history/history.go: History[T] = (elements []T, index int). *)
From Servitor Require Import Base.

Section Hist.
Variable A : Type.

Record hist := { h_elems : list A; h_index : nat }.

Definition h_init : hist := {| h_elems := []; h_index := 0 |}.

(* Current(): h.elements[h.index]; index out of range panics -> None *)
Definition h_current (h : hist) : option A := nth_error (h_elems h) (h_index h).

Definition h_back (h : hist) : hist :=
  if Nat.ltb 0 (h_index h) then {| h_elems := h_elems h; h_index := h_index h - 1 |} else h.

Definition h_forward (h : hist) : hist :=
  if Nat.ltb (h_index h + 1) (length (h_elems h))
  then {| h_elems := h_elems h; h_index := h_index h + 1 |} else h.

(* Add: nil slice -> singleton; otherwise append(elements[:index+1], x), index++ *)
Definition h_add (h : hist) (x : A) : hist :=
  match h_elems h with
  | [] => {| h_elems := [x]; h_index := 0 |}
  | _ => {| h_elems := firstn (h_index h + 1) (h_elems h) ++ [x]; h_index := h_index h + 1 |}
  end.

Definition h_is_empty (h : hist) : bool :=
  match h_elems h with [] => true | _ => false end.

Inductive hop := HAdd (x : A) | HBack | HForward.

Definition h_step (h : hist) (o : hop) : hist :=
  match o with HAdd x => h_add h x | HBack => h_back h | HForward => h_forward h end.

(* Reference: a zipper. zb = pages behind the cursor (nearest first), zf = pages ahead. *)
Record zip := { zb : list A; zc : option A; zf : list A }.
Definition z_init : zip := {| zb := []; zc := None; zf := [] |}.

Definition z_step (z : zip) (o : hop) : zip :=
  match o, zc z with
  | HAdd x, None => {| zb := []; zc := Some x; zf := [] |}
  | HAdd x, Some c => {| zb := c :: zb z; zc := Some x; zf := [] |}
  | HBack, Some c =>
      match zb z with
      | [] => z
      | b :: bs => {| zb := bs; zc := Some b; zf := c :: zf z |}
      end
  | HForward, Some c =>
      match zf z with
      | [] => z
      | f :: fs => {| zb := c :: zb z; zc := Some f; zf := fs |}
      end
  | _, None => z
  end.

Definition z_is_empty (z : zip) : bool := match zc z with None => true | Some _ => false end.

(* Observations after every operation *)
Fixpoint h_run (h : hist) (ops : list hop) : list (option A * bool) :=
  match ops with
  | [] => []
  | o :: ops' => let h' := h_step h o in (h_current h', h_is_empty h') :: h_run h' ops'
  end.

Fixpoint z_run (z : zip) (ops : list hop) : list (option A * bool) :=
  match ops with
  | [] => []
  | o :: ops' => let z' := z_step z o in (zc z', z_is_empty z') :: z_run z' ops'
  end.

End Hist.

Arguments h_elems {A}. Arguments h_index {A}. Arguments h_init {A}.
Arguments h_current {A}. Arguments h_back {A}. Arguments h_forward {A}. Arguments h_add {A}.
Arguments h_is_empty {A}. Arguments HAdd {A}. Arguments HBack {A}. Arguments HForward {A}.
Arguments h_step {A}. Arguments h_run {A}. Arguments z_run {A}. Arguments z_init {A}.
Arguments z_step {A}. Arguments zb {A}. Arguments zc {A}. Arguments zf {A}. Arguments z_is_empty {A}.
