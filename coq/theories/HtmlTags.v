(* generated: ASCII constants for tag and attribute names *)
From Servitor Require Import Base.

Definition k_a : text := [97]%N.
Definition k_s : text := [115]%N.
Definition k_del : text := [100;101;108]%N.
Definition k_code : text := [99;111;100;101]%N.
Definition k_i : text := [105]%N.
Definition k_em : text := [101;109]%N.
Definition k_b : text := [98]%N.
Definition k_strong : text := [115;116;114;111;110;103]%N.
Definition k_u : text := [117]%N.
Definition k_ins : text := [105;110;115]%N.
Definition k_mark : text := [109;97;114;107]%N.
Definition k_span : text := [115;112;97;110]%N.
Definition k_li : text := [108;105]%N.
Definition k_br : text := [98;114]%N.
Definition k_p : text := [112]%N.
Definition k_div : text := [100;105;118]%N.
Definition k_pre : text := [112;114;101]%N.
Definition k_blockquote : text := [98;108;111;99;107;113;117;111;116;101]%N.
Definition k_ul : text := [117;108]%N.
Definition k_h1 : text := [104;49]%N.
Definition k_h2 : text := [104;50]%N.
Definition k_h3 : text := [104;51]%N.
Definition k_h4 : text := [104;52]%N.
Definition k_h5 : text := [104;53]%N.
Definition k_h6 : text := [104;54]%N.
Definition k_hr : text := [104;114]%N.
Definition k_img : text := [105;109;103]%N.
Definition k_video : text := [118;105;100;101;111]%N.
Definition k_audio : text := [97;117;100;105;111]%N.
Definition k_iframe : text := [105;102;114;97;109;101]%N.
Definition k_href : text := [104;114;101;102]%N.
Definition k_alt : text := [97;108;116]%N.
Definition k_src : text := [115;114;99]%N.
Definition k_title : text := [116;105;116;108;101]%N.
