(* unicode.IsSpace / unicode.IsControl as explicit range tables (Go 1.23.5).  The harness checks
   them against the real functions over all 0x110000 code points. *)
From Servitor Require Import Base.
Local Open Scope N_scope.

Definition in_range (lo hi c : N) : bool := N.leb lo c && N.leb c hi.

Definition is_space (c : rune) : bool :=
  in_range 9 13 c || N.eqb c 32 || N.eqb c 133 || N.eqb c 160 || N.eqb c 5760 ||
  in_range 8192 8202 c || N.eqb c 8232 || N.eqb c 8233 || N.eqb c 8239 || N.eqb c 8287 || N.eqb c 12288.

Definition is_control (c : rune) : bool := N.leb c 31 || in_range 127 159 c.
