(* Model of mime/mime.go Parse: the regex
     (?s)^(([tok]+)/([tok]+)).*$      tok = RFC 9110 token characters
   is a deterministic scanner: the longest run of token characters, then '/', then the longest
   non-empty run of token characters; anything may follow.  '/' is not a token character, so no
   shorter first run can be followed by '/': greedy and leftmost-first coincide. *)
From Servitor Require Import Base.
Local Open Scope N_scope.

Definition is_tok (c : rune) : bool :=
  (N.leb 97 c && N.leb c 122) || (N.leb 65 c && N.leb c 90) || (N.leb 48 c && N.leb c 57) ||
  N.eqb c 33 || N.eqb c 35 || N.eqb c 36 || N.eqb c 37 || N.eqb c 38 || N.eqb c 39 || N.eqb c 42 ||
  N.eqb c 43 || N.eqb c 45 || N.eqb c 46 || N.eqb c 94 || N.eqb c 95 || N.eqb c 96 || N.eqb c 124 || N.eqb c 126.

Fixpoint span_tok (l : text) : text * text :=
  match l with
  | c :: l' => if is_tok c then let (a, b) := span_tok l' in (c :: a, b) else ([], l)
  | [] => ([], [])
  end.

Record media_type := mkmt { essence : text; supertype : text; subtype : text }.

Definition SLASH : rune := 47.
Definition STAR : rune := 42.

Definition mime_parse (t : text) : option media_type :=
  let (sup, r) := span_tok t in
  match sup, r with
  | _ :: _, c :: r' =>
      if N.eqb c SLASH then
        let (sub, _) := span_tok r' in
        match sub with
        | _ :: _ => Some (mkmt (sup ++ [SLASH] ++ sub) sup sub)
        | [] => None
        end
      else None
  | _, _ => None
  end.

Definition mt_default : media_type :=  (* text/html *)
  mkmt [116;101;120;116;47;104;116;109;108] [116;101;120;116] [104;116;109;108].
Definition mt_unknown : media_type := mkmt [STAR; SLASH; STAR] [STAR] [STAR].
Definition mt_unknown_subtype (sup : text) : media_type := mkmt (sup ++ [SLASH; STAR]) sup [STAR].

Definition mt_matches (m : media_type) (l : list text) : bool := existsb (text_eqb (essence m)) l.
