(* Model of object/object.go: the typed accessors over a decoded JSON object.
   Outcome: Present v | Absent (ErrKeyNotPresent) | Bad (wrong type / unparseable).
   time.Parse(RFC3339) and url.Parse are library oracles (Section variables). *)
From Servitor Require Import Base Unicode Ansi Mime Json.
Local Open Scope Z_scope.

Inductive acc (A : Type) := Present (a : A) | Absent | Bad.
Arguments Present {A} a. Arguments Absent {A}. Arguments Bad {A}.

Definition obj := list (text * jv).

(* getPrimitive[any]: missing key or null -> Absent *)
Definition get_any (o : obj) (k : text) : acc jv :=
  match jfind o k with
  | None | Some JNull => Absent
  | Some v => Present v
  end.

Definition get_string (o : obj) (k : text) : acc text :=
  match get_any o k with
  | Present (JStr s) => let s' := scrub s in match s' with [] => Absent | _ => Present s' end
  | Present _ => Bad
  | Absent => Absent
  | Bad => Bad
  end.

(* with the range check of the fix: a number is accepted only if it is an integer in [0, 2^64) *)
Definition get_number (o : obj) (k : text) : acc Z :=
  match get_any o k with
  | Present (JNum b) =>
      match f64_to_int b with
      | Some z => if Z.leb 0 z && Z.ltb z (2 ^ 64) then Present z else Bad
      | None => Bad
      end
  | Present _ => Bad
  | Absent => Absent
  | Bad => Bad
  end.

Definition get_object (o : obj) (k : text) : acc obj :=
  match get_any o k with
  | Present (JObj kvs) => Present kvs
  | Present _ => Bad
  | Absent => Absent
  | Bad => Bad
  end.

Definition get_list (o : obj) (k : text) : acc (list jv) :=
  match get_any o k with
  | Present (JArr l) => Present l
  | Present v => Present [v]
  | Absent => Absent
  | Bad => Bad
  end.

Section Oracles.
Variable time_parse : text -> option Z.     (* time.Parse(time.RFC3339, s): Some nanoseconds *)
Variable url_parse : text -> option text.   (* url.Parse(s): Some (canonical String()) *)

Definition get_time (o : obj) (k : text) : acc Z :=
  match get_string o k with
  | Present s => match time_parse s with Some t => Present t | None => Bad end
  | Absent => Absent
  | Bad => Bad
  end.

Definition get_url (o : obj) (k : text) : acc text :=
  match get_string o k with
  | Present s => match url_parse s with Some u => Present u | None => Bad end
  | Absent => Absent
  | Bad => Bad
  end.
End Oracles.

Definition get_media_type (o : obj) (k : text) : acc media_type :=
  match get_string o k with
  | Present s => match mime_parse s with Some m => Present m | None => Bad end
  | Absent => Absent
  | Bad => Bad
  end.

(* GetMarkup: which renderer gets the content *)
Inductive markup_kind := MPlain | MHtml | MGemini | MMarkdown.

Definition s_text_plain : text := [116;101;120;116;47;112;108;97;105;110]%N.
Definition s_text_html : text := [116;101;120;116;47;104;116;109;108]%N.
Definition s_text_gemini : text := [116;101;120;116;47;103;101;109;105;110;105]%N.
Definition s_text_markdown : text := [116;101;120;116;47;109;97;114;107;100;111;119;110]%N.

Definition get_markup (o : obj) (content_key mt_key : text) : acc (markup_kind * text) :=
  match get_string o content_key with
  | Present content =>
      let mt := match get_media_type o mt_key with
                | Present m => Some m
                | Absent => Some mt_default
                | Bad => None
                end in
      match mt with
      | None => Bad
      | Some m =>
          if text_eqb (essence m) s_text_plain then Present (MPlain, content)
          else if text_eqb (essence m) s_text_html then Present (MHtml, content)
          else if text_eqb (essence m) s_text_gemini then Present (MGemini, content)
          else if text_eqb (essence m) s_text_markdown then Present (MMarkdown, content)
          else Bad
      end
  | Absent => Absent
  | Bad => Bad
  end.
