(* C08: lock discipline of ui/ui.go.
   The Go source is translated (tools/xlate, on every run) into [cmd] terms, one per method of
   State and per goroutine literal.  [lock_check] is a syntactic abstract interpretation over
   (lock held?, unlock deferred?).  Semantics: a command denotes a set of event traces ([exec]);
   a pool of threads interleaves its traces under a mutex ([step]).  facts/ConcFacts.v proves
   that a program accepted by [lock_check] only has disciplined traces and that every
   interleaving of disciplined traces is free of unprotected accesses, overlapping frames and
   self-deadlock, and can always make progress. *)
From Servitor Require Import Base.

Inductive cmd :=
| CLock | CUnlock | CDeferUnlock
| CTouch                 (* reads or writes a field of State or of a Page *)
| COutput                (* s.output(...): a frame is emitted *)
| CBlock                 (* network, child process, Harvest/Parents: touches no UI state, eventually returns *)
| CCall (f : nat)        (* call of a non-exported State method (index into the program) *)
| CGo (c : cmd)          (* go func() { c }() *)
| CSeq (a b : cmd) | CIf (a b : cmd) | CLoop (c : cmd)
| CReturn                (* return *)
| CErrReturn             (* the documented "hold the lock on error" exit of Subcommand *)
| CSkip
| CUnknown.              (* something the translator could not classify: rejected *)

Record func := mkfunc { fn_public : bool; fn_body : cmd }.
Definition program := list func.

(* ------------------------------------------------------------------ the checker *)
Record ast := mkast { held : bool; deferred : bool }.
Definition ast_eqb (a b : ast) : bool := Bool.eqb (held a) (held b) && Bool.eqb (deferred a) (deferred b).

Inductive policy := PThread | PPrivate | PGo.   (* how a body is entered and must be left; PGo: a goroutine literal *)

(* may the body be left in state st? thread/public: lock released (possibly by the deferred
   unlock); private method: lock still held, nothing deferred; goroutine: as thread, but it has
   no caller to hand the lock to, so CErrReturn is rejected in it *)
Definition exit_ok (pol : policy) (st : ast) : bool :=
  match pol with
  | PThread | PGo => if deferred st then held st else negb (held st)
  | PPrivate => held st && negb (deferred st)
  end.

(* None: violation.  Some None: every path has returned.  Some (Some st): falls through in st *)
Fixpoint check (P : program) (pol : policy) (c : cmd) (st : ast) : option (option ast) :=
  match c with
  | CLock => if held st then None else Some (Some (mkast true (deferred st)))
  | CUnlock => if held st && negb (deferred st) then Some (Some (mkast false false)) else None
  | CDeferUnlock => if held st && negb (deferred st) then Some (Some (mkast true true)) else None
  | CTouch | COutput => if held st then Some (Some st) else None
  | CBlock | CSkip => Some (Some st)
  | CCall f =>
      match nth_error P f with
      | Some fn => if negb (fn_public fn) && held st then Some (Some st) else None
      | None => None
      end
  | CGo c' =>
      match check P PGo c' (mkast false false) with
      | Some None => Some (Some st)
      | Some (Some st') => if exit_ok PGo st' then Some (Some st) else None
      | None => None
      end
  | CSeq a b =>
      match check P pol a st with
      | None => None
      | Some None => Some None
      | Some (Some st1) => check P pol b st1
      end
  | CIf a b =>
      match check P pol a st, check P pol b st with
      | Some None, r | r, Some None => r
      | Some (Some s1), Some (Some s2) => if ast_eqb s1 s2 then Some (Some s1) else None
      | _, _ => None
      end
  | CLoop c' =>
      match check P pol c' st with
      | None => None
      | Some None => Some (Some st)
      | Some (Some st') => if ast_eqb st' st then Some (Some st) else None
      end
  | CReturn => if exit_ok pol st then Some None else None
  | CErrReturn => match pol with PThread => if held st && negb (deferred st) then Some None else None | PPrivate | PGo => None end
  | CUnknown => None
  end.

Definition check_body (P : program) (pol : policy) (c : cmd) (st : ast) : bool :=
  match check P pol c st with
  | None => false
  | Some None => true
  | Some (Some st') => exit_ok pol st'
  end.

Definition check_func (P : program) (fn : func) : bool :=
  if fn_public fn then check_body P PThread (fn_body fn) (mkast false false)
  else check_body P PPrivate (fn_body fn) (mkast true false).

Definition lock_check (P : program) : bool := forallb (check_func P) P.

(* ------------------------------------------------------------------ semantics: traces *)
Inductive event := ELock | EUnlock | ETouch | EOutput | EBlock | ESpawn (c : cmd).

Inductive outcome := ONormal | OReturned | OErrReturned.

(* exec P c tr dfr out dfr': running c can produce the events tr; dfr/dfr' = is an unlock
   deferred before/after; out = how c was left.  Deferred unlocks run when the BODY is left
   (see run_body). *)
Inductive exec (P : program) : cmd -> list event -> bool -> outcome -> bool -> Prop :=
| x_lock d : exec P CLock [ELock] d ONormal d
| x_unlock d : exec P CUnlock [EUnlock] d ONormal d
| x_defer d : exec P CDeferUnlock [] d ONormal true
| x_touch d : exec P CTouch [ETouch] d ONormal d
| x_output d : exec P COutput [EOutput] d ONormal d
| x_block d : exec P CBlock [EBlock] d ONormal d
| x_skip d : exec P CSkip [] d ONormal d
| x_call f fn tr d : nth_error P f = Some fn -> run_body P (fn_body fn) tr false -> exec P (CCall f) tr d ONormal d
| x_go c d : exec P (CGo c) [ESpawn c] d ONormal d
| x_seq_n a b t1 t2 d d1 o d2 : exec P a t1 d ONormal d1 -> exec P b t2 d1 o d2 -> exec P (CSeq a b) (t1 ++ t2) d o d2
| x_seq_r a b t1 d o d1 : exec P a t1 d o d1 -> o <> ONormal -> exec P (CSeq a b) t1 d o d1
| x_if_l a b t d o d1 : exec P a t d o d1 -> exec P (CIf a b) t d o d1
| x_if_r a b t d o d1 : exec P b t d o d1 -> exec P (CIf a b) t d o d1
| x_loop_0 c d : exec P (CLoop c) [] d ONormal d
| x_loop_s c t1 t2 d d1 o d2 : exec P c t1 d ONormal d1 -> exec P (CLoop c) t2 d1 o d2 -> exec P (CLoop c) (t1 ++ t2) d o d2
| x_loop_r c t d o d1 : exec P c t d o d1 -> o <> ONormal -> exec P (CLoop c) t d o d1
| x_return d : exec P CReturn [] d OReturned d
| x_errreturn d : exec P CErrReturn [] d OErrReturned d
(* a whole body: its events, then the deferred unlock if one was registered (not on ErrReturn:
   the translator only emits CErrReturn where nothing is deferred; run_body's last argument says
   whether the body ended through CErrReturn) *)
with run_body (P : program) : cmd -> list event -> bool -> Prop :=
| rb c tr o d : exec P c tr false o d -> run_body P c (tr ++ (if d then [EUnlock] else [])) (match o with OErrReturned => true | _ => false end).

(* ------------------------------------------------------------------ discipline of one trace *)
(* scan with "do I hold the mutex"; the final flag *)
Fixpoint scan (h : bool) (tr : list event) : option bool :=
  match tr with
  | [] => Some h
  | ELock :: r => if h then None else scan true r
  | EUnlock :: r => if h then scan false r else None
  | (ETouch | EOutput) :: r => if h then scan h r else None
  | (EBlock | ESpawn _) :: r => scan h r
  end.

(* ------------------------------------------------------------------ semantics: the pool *)
Record thread := mkthread { t_rest : list event; t_holds : bool }.

(* one step of thread number i of the pool; the mutex is free iff no thread holds it *)
Definition mutex_free (pool : list thread) : bool := forallb (fun t => negb (t_holds t)) pool.

Inductive step (P : program) : list thread -> list thread -> Prop :=
| s_lock pre t post r : t_rest t = ELock :: r -> mutex_free (pre ++ t :: post) = true ->
    step P (pre ++ t :: post) (pre ++ mkthread r true :: post)
| s_unlock pre t post r : t_rest t = EUnlock :: r ->
    step P (pre ++ t :: post) (pre ++ mkthread r false :: post)
| s_plain pre t post e r : t_rest t = e :: r -> (e = ETouch \/ e = EOutput \/ e = EBlock) ->
    step P (pre ++ t :: post) (pre ++ mkthread r (t_holds t) :: post)
| s_spawn pre t post c r tr b : t_rest t = ESpawn c :: r -> run_body P c tr b ->
    step P (pre ++ t :: post) (pre ++ mkthread r (t_holds t) :: post ++ [mkthread tr false]).

Inductive steps (P : program) : list thread -> list thread -> Prop :=
| ss_refl pool : steps P pool pool
| ss_step a b c : step P a b -> steps P b c -> steps P a c.

(* initial pools: any number of invocations of public entry points, each with one of its traces *)
Inductive initial (P : program) : list thread -> Prop :=
| i_nil : initial P []
| i_cons fn tr b pool : In fn P -> fn_public fn = true -> run_body P (fn_body fn) tr b -> initial P pool ->
    initial P (mkthread tr false :: pool).
