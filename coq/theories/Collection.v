(* Model of pub/collection.go Harvest / harvestWithEmptyCount (with the repaired empty-page
   counter: it counts CONSECUTIVE empty pages).  Pages form an arbitrary graph, described by the
   oracle [load] (it stands for NewCollection = fetch + NewCollectionFromObject and may fail);
   recursion over remote data uses fuel, and the theorems supply fuel that is never exhausted. *)
From Servitor Require Import Base.

Section Coll.
Variable E : Type.     (* element of a page (raw JSON value) *)
Variable R : Type.     (* reference to a further page *)

Inductive nextref := NAbsent | NRef (r : R).
Record page := mkpage { p_items : list E; p_next : nextref }.

(* what a request delivers: constructed items, or failure items *)
Inductive delivered :=
| DItem (e : E)              (* construct(element, id) *)
| DLoadFail (r : R)          (* the next page failed to load *)
| DTooManyEmpty              (* refusing: > 3 consecutive empty pages *)
| DOutOfFuel.                (* model artefact; excluded by the theorems *)

Variable load : R -> option page.

(* elements[start .. start+n) *)
Definition slice (l : list E) (start n : nat) : list E := firstn n (skipn start l).

Fixpoint harvest (fuel : nat) (p : page) (amount start empties : nat)
  : list delivered * option (page * nat) :=
  match fuel with
  | O => ([DOutOfFuel], None)
  | S f =>
      let len := length (p_items p) in
      let empties' := if Nat.eqb len 0 then S empties else 0 in
      if Nat.ltb 3 empties' then ([DTooManyEmpty], None)
      else
        let here := if Nat.leb len start then 0
                    else if Nat.ltb (amount + start) len then amount else len - start in
        let from_this := map DItem (slice (p_items p) start here) in
        if Nat.ltb (amount + start) len then (from_this, Some (p, amount + start))
        else
          match p_next p with
          | NAbsent => (from_this, None)
          | NRef r =>
              match load r with
              | None => (from_this ++ [DLoadFail r], None)
              | Some p' =>
                  let (later, k) := harvest f p' (amount - here) 0 empties' in
                  (from_this ++ later, k)
              end
          end
  end.

(* fuel that always suffices for one request *)
Definition harvest_fuel (amount : nat) : nat := 4 * (amount + 2) + 2.

(* a sequence of requests, each continuing where the previous one stopped; every request
   restarts the empty-page counter (Harvest passes 0) *)
Fixpoint requests (k : option (page * nat)) (amounts : list nat) : list delivered * option (page * nat) :=
  match amounts with
  | [] => ([], k)
  | a :: rest =>
      match k with
      | None => ([], None)
      | Some (p, start) =>
          let (d, k') := harvest (harvest_fuel a) p a start 0 in
          let (d', k'') := requests k' rest in
          (d ++ d', k'')
      end
  end.

(* ---- reference: the chain of pages as a (possibly cut) lazy list ---------------------- *)
Inductive chain_end := CEnd | CFailedAt (r : R) | CTooManyEmpty | CUnknown.

(* items of the chain starting at page p / offset start, following next, up to [fuel] pages;
   [empties] = consecutive empty pages seen so far *)
Fixpoint chain (fuel : nat) (p : page) (start empties : nat) : list E * chain_end :=
  match fuel with
  | O => ([], CUnknown)
  | S f =>
      let len := length (p_items p) in
      let empties' := if Nat.eqb len 0 then S empties else 0 in
      if Nat.ltb 3 empties' then ([], CTooManyEmpty)
      else
        let here := skipn start (p_items p) in
        match p_next p with
        | NAbsent => (here, CEnd)
        | NRef r =>
            match load r with
            | None => (here, CFailedAt r)
            | Some p' => let (rest, e) := chain f p' 0 empties' in (here ++ rest, e)
            end
        end
  end.

Definition items_of (d : list delivered) : list E :=
  flat_map (fun x => match x with DItem e => [e] | _ => [] end) d.
Definition is_item (x : delivered) : bool := match x with DItem _ => true | _ => false end.

End Coll.

Arguments NAbsent {R}. Arguments NRef {R} r.
Arguments mkpage {E R}. Arguments p_items {E R}. Arguments p_next {E R}.
Arguments DItem {E R}. Arguments DLoadFail {E R}. Arguments DTooManyEmpty {E R}. Arguments DOutOfFuel {E R}.
Arguments harvest {E R}. Arguments requests {E R}. Arguments chain {E R}. Arguments items_of {E R}.
Arguments is_item {E R}. Arguments slice {E}.
Arguments CEnd {R}. Arguments CFailedAt {R}. Arguments CTooManyEmpty {R}. Arguments CUnknown {R}.
