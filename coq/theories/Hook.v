(* Model of ui.openExternally's argv construction (ui/ui.go): a copy of the configured hook in
   which arguments at index >= 1 that EQUAL a placeholder are replaced.  `range command` reads
   each element before it is overwritten, so a substituted link is never expanded again. *)
From Servitor Require Import Base Mime.

Definition s_url : text := [37;117;114;108]%N.                          (* %url *)
Definition s_mimetype : text := [37;109;105;109;101;116;121;112;101]%N. (* %mimetype *)
Definition s_subtype : text := [37;115;117;98;116;121;112;101]%N.       (* %subtype *)
Definition s_supertype : text := [37;115;117;112;101;114;116;121;112;101]%N. (* %supertype *)

(* one argument at index >= 1; None = nil dereference of the media type *)
Definition subst (link : text) (mt : option media_type) (field : text) : option text :=
  if text_eqb field s_url then Some link
  else if text_eqb field s_mimetype then option_map essence mt
  else if text_eqb field s_subtype then option_map subtype mt
  else if text_eqb field s_supertype then option_map supertype mt
  else Some field.

Fixpoint subst_all (link : text) (mt : option media_type) (fields : list text) : option (list text) :=
  match fields with
  | [] => Some []
  | f :: r => match subst link mt f, subst_all link mt r with
              | Some x, Some xs => Some (x :: xs)
              | _, _ => None
              end
  end.

(* argv and what is fed to stdin *)
Definition hook_command (hook : list text) (link : text) (mt : option media_type)
  : res (list text * option text) :=
  match hook with
  | [] => Panic                       (* command[0] on an empty slice *)
  | prog :: args =>
      match subst_all link mt args with
      | None => Panic
      | Some args' =>
          Ok (prog :: args', if existsb (fun f => text_eqb f s_url) args then None else Some link)
      end
  end.
