(* Specification vocabulary for the ansi theorems (C13, C14, C16): what "visible character",
   "line of cells", "well-formed styled text" mean.  No proofs here. *)
From Servitor Require Import Base Unicode Ansi.
Local Open Scope Z_scope.

Definition nonspace (c : cell) : bool := negb (is_space (letter c)).
Definition is_nl_cell (c : cell) : bool := N.eqb (letter c) NL.

(* the cells of a text split at newline cells (the newline cells themselves are dropped);
   always at least one line, like strings.Split *)
Fixpoint cell_lines_aux (cur : list cell) (cs : list cell) : list (list cell) :=
  match cs with
  | [] => [rev cur]
  | c :: cs' => if is_nl_cell c then rev cur :: cell_lines_aux [] cs' else cell_lines_aux (c :: cur) cs'
  end.
Definition cell_lines (cs : list cell) : list (list cell) := cell_lines_aux [] cs.

(* join lines of text with a separator *)
Fixpoint join_with (sep : text) (ls : list text) : text :=
  match ls with
  | [] => []
  | [l] => l
  | l :: rest => l ++ sep ++ join_with sep rest
  end.

(* hard-wrapping at the level of cells: the lines DumbWrap produces *)
Fixpoint chunk (n : nat) (fuel : nat) (l : list cell) : list (list cell) :=
  match fuel with
  | O => [l]
  | S f => if Nat.leb (length l) n then [l] else firstn n l :: chunk n f (skipn n l)
  end.

(* ---- well-formed styled text ------------------------------------------------------------
   An SGR group is ESC [ params m with params made of digits and ';'.  A well-formed cell has a
   prefix that is a concatenation of SGR groups whose parameter string is not "0" and not
   empty, a letter that is not ESC, a reset iff the prefix is non-empty; newline cells are
   bare.  This is exactly what style.* / ansi.Apply build over ESC-free strings. *)
Definition is_param (c : rune) : bool := (N.leb 48 c && N.leb c 57) || N.eqb c 59.

Inductive sgr_groups : text -> Prop :=
| sg_nil : sgr_groups []
| sg_cons params rest :
    forallb is_param params = true -> params <> [] -> params <> [CH_0] ->
    sgr_groups rest -> sgr_groups (ESC :: LBR :: params ++ CH_m :: rest).

Definition wf_cell (c : cell) : Prop :=
  sgr_groups (pre c) /\ letter c <> ESC /\
  (rst c = true <-> pre c <> []) /\ (letter c = NL -> pre c = []).

Definition wf_cells (cs : list cell) : Prop := Forall wf_cell cs.
