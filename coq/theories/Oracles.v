(* Executable decision procedures ("oracles") that the harness applies to the IMPLEMENTATION's
   outputs.  Each is proved (facts/OracleFacts.v) to hold of the model's output for every input
   the property quantifies over, so a false verdict on the implementation's output is a concrete
   violation, not just a difference between model and code. *)
From Servitor Require Import Base Unicode Ansi AnsiSpec Term.
Local Open Scope Z_scope.

Definition is_nil {A} (l : list A) : bool := match l with [] => true | _ => false end.

Definition cell_eqb (a b : cell) : bool :=
  text_eqb (pre a) (pre b) && N.eqb (letter a) (letter b) && Bool.eqb (rst a) (rst b).

Fixpoint cells_eqb (a b : list cell) : bool :=
  match a, b with
  | [], [] => true
  | x :: a', y :: b' => cell_eqb x y && cells_eqb a' b'
  | _, _ => false
  end.

(* boolean well-formedness (reflects AnsiSpec.wf_cell) *)
Fixpoint sgr_groups_b (fuel : nat) (p : text) : bool :=
  match fuel with
  | O => is_nil p
  | S f =>
      match p with
      | [] => true
      | _ => match sgr_at p with
             | Some (ps, rest) => negb (is_nil ps) && negb (is_clear ps) && sgr_groups_b f rest
             | None => false
             end
      end
  end.

Definition wf_cell_b (c : cell) : bool :=
  sgr_groups_b (length (pre c)) (pre c) && negb (N.eqb (letter c) ESC) &&
  Bool.eqb (rst c) (negb (is_nil (pre c))) && (negb (N.eqb (letter c) NL) || is_nil (pre c)).

Definition wf_text_b (t : text) : bool := forallb wf_cell_b (expand t).

(* ---- C13 ---- *)
Definition out_lines (out : text) : list (list cell) := map expand (split_nl out).

(* Wrap: every line <= w cells; the non-space cells are those of the input, in order *)
Definition wrap_ok (w : Z) (t out : text) : bool :=
  let ls := out_lines out in
  forallb (fun l => Z.leb (clen l) w) ls &&
  cells_eqb (filter nonspace (concat ls)) (filter nonspace (expand t)).

(* DumbWrap: every line <= w cells; all non-newline cells kept in order *)
Definition dumb_ok (w : Z) (t out : text) : bool :=
  let ls := out_lines out in
  forallb (fun l => Z.leb (clen l) w) ls &&
  cells_eqb (concat ls) (filter (fun c => negb (is_nl_cell c)) (expand t)).

(* Pad: same number of lines; each output line = input line ++ plain spaces up to len *)
Fixpoint all_plain_spaces (l : list cell) : bool :=
  match l with
  | [] => true
  | c :: l' => is_nil (pre c) && N.eqb (letter c) SP && negb (rst c) && all_plain_spaces l'
  end.

Fixpoint pad_lines_ok (len : Z) (ins outs : list (list cell)) : bool :=
  match ins, outs with
  | [], [] => true
  | i :: ins', o :: outs' =>
      cells_eqb (firstn (length i) o) i && all_plain_spaces (skipn (length i) o) &&
      Z.eqb (clen o) (Z.max len (clen i)) && pad_lines_ok len ins' outs'
  | _, _ => false
  end.
Definition pad_ok (len : Z) (t out : text) : bool :=
  pad_lines_ok len (cell_lines (expand t)) (out_lines out).

(* Snip: at most h lines; if the input lines fit the width so do the output's (ellipsis = 1 cell) *)
Definition snip_ok (width h : Z) (t ell out : text) : bool :=
  let ls := out_lines out in
  Z.leb (clen (map (fun _ => mkcell [] SP false) ls)) (Z.max h 1) &&
  (negb (forallb (fun l => Z.leb (clen l) width) (out_lines t)) ||
   forallb (fun l => Z.leb (clen l) (Z.max width (clen (expand ell)))) ls).

(* ---- C14 ---- *)
(* what is displayed, restricted to visible (non-space) runes, with their attribute sets *)
Definition visible_disp (t : text) : list (rune * attrs) :=
  filter (fun ca => negb (is_space (fst ca))) (fst (display t)).

Fixpoint attrs_eqb (a b : attrs) : bool :=
  match a, b with
  | [], [] => true
  | x :: a', y :: b' => text_eqb x y && attrs_eqb a' b'
  | _, _ => false
  end.
Fixpoint disp_eqb (a b : list (rune * attrs)) : bool :=
  match a, b with
  | [], [] => true
  | (c, x) :: a', (d, y) :: b' => N.eqb c d && attrs_eqb x y && disp_eqb a' b'
  | _, _ => false
  end.

(* layout keeps the attributes of every visible character it keeps, and the result is neutral *)
Definition layout_attrs_ok (t out : text) : bool :=
  neutral_b out && disp_eqb (visible_disp out) (visible_disp t).

(* ---- C16 ---- *)
Definition height_ok (h : Z) (out : text) : bool := Z.eqb (height out) h.
