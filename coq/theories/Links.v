(* Model of how pub builds and chooses links (pub/link.go NewLink, SelectFirstLink, SelectBestLink;
   pub/common.go getLinks, getLinksShorthand, getBestLink*, getFirstLinkShorthand) and of the link
   fields of posts and actors.  Error MESSAGES are not modelled: a failed field is FErr [] and
   correspondence compares shapes.  url.Parse + String() is an oracle. *)
From Servitor Require Import Base Unicode Ansi Mime Json Object Pub.
Local Open Scope Z_scope.

Definition k_link : text := [76;105;110;107]%N.
Definition k_audio : text := [65;117;100;105;111]%N.
Definition k_document : text := [68;111;99;117;109;101;110;116]%N.
Definition k_image : text := [73;109;97;103;101]%N.
Definition k_video : text := [86;105;100;101;111]%N.
Definition s_ltype : text := [116;121;112;101]%N.
Definition s_lhref : text := [104;114;101;102]%N.
Definition s_lurl : text := [117;114;108]%N.
Definition s_lheight : text := [104;101;105;103;104;116]%N.
Definition s_lwidth : text := [119;105;100;116;104]%N.
Definition s_lmedia_type : text := [109;101;100;105;97;84;121;112;101]%N.
Definition s_lname : text := [110;97;109;101]%N.
Definition s_attachment : text := [97;116;116;97;99;104;109;101;110;116]%N.
Definition s_icon : text := [105;99;111;110]%N.
Definition s_limage : text := [105;109;97;103;101]%N.

Definition fval_of {A : Type} (a : acc A) : fval A :=
  match a with Present x => FOk x | Absent => FAbsent | Bad => FErr [] end.

Section Links.
Variable url_parse : text -> option text.      (* url.Parse(s) then String() *)

Definition is_link_kind (k : text) : bool :=
  text_eqb k k_link || text_eqb k k_audio || text_eqb k k_document || text_eqb k k_image || text_eqb k k_video.

(* NewLink: an error when the value is not an object, has no usable type or is not of a link kind.  An object WITHOUT a type
   fails with ErrKeyNotPresent itself, which callers take for "the key is absent": FAbsent *)
Definition new_link (v : jv) : fval link :=
  match v with
  | JObj o =>
      match get_string o s_ltype with
      | Present k =>
          if is_link_kind k then
            let is_link := text_eqb k k_link in
            FOk (mklink k (fval_of (get_media_type o s_lmedia_type))
                        (fval_of (get_url url_parse o (if is_link then s_lhref else s_lurl)))
                        (fval_of (get_string o s_lname))
                        (if is_link then fval_of (get_number o s_lheight) else FAbsent)
                        (if is_link then fval_of (get_number o s_lwidth) else FAbsent))
          else FErr []
      | Absent => FAbsent
      | Bad => FErr []
      end
  | _ => FErr []
  end.

(* the first element that fails decides the error *)
Fixpoint all_links (l : list jv) : fval (list link) :=
  match l with
  | [] => FOk []
  | v :: r =>
      match new_link v with
      | FOk x => match all_links r with FOk xs => FOk (x :: xs) | e => e end
      | FAbsent => FAbsent
      | FErr m => FErr m
      end
  end.

(* getLinks: Absent stays absent (the caller sees ErrKeyNotPresent) *)
Definition get_links (o : obj) (key : text) : fval (list link) :=
  match get_list o key with
  | Present l => all_links l
  | Absent => FAbsent
  | Bad => FErr []
  end.

(* getLinksShorthand: a string element is meant to become a Link, but NewLink is handed an object.Object, which its
   map[string]any assertion refuses: ON THIS TREE a string element makes the whole list fail *)
Fixpoint all_links_shorthand (l : list jv) : fval (list link) :=
  match l with
  | [] => FOk []
  | JObj o :: r =>
      match new_link (JObj o) with
      | FOk x => match all_links_shorthand r with FOk xs => FOk (x :: xs) | e => e end
      | FAbsent => FAbsent
      | FErr m => FErr m
      end
  | _ :: _ => FErr []
  end.
Definition get_links_shorthand (o : obj) (key : text) : fval (list link) :=
  match get_list o key with
  | Present l => all_links_shorthand l
  | Absent => FAbsent
  | Bad => FErr []
  end.

(* Link.rating: height * width in uint64 arithmetic, a missing dimension counting 1; None = error *)
Definition rating (l : link) : option Z :=
  match (match l_height l with FOk h => Some h | FAbsent => Some 1 | FErr _ => None end),
        (match l_width l with FOk w => Some w | FAbsent => Some 1 | FErr _ => None end) with
  | Some h, Some w => Some ((h * w) mod 2 ^ 64)
  | _, _ => None
  end.

Definition sup_matches (l : link) (sup : text) : option bool :=
  match l_mt l with FAbsent => Some false | FErr _ => None | FOk m => Some (text_eqb (supertype m) sup) end.

(* the loop of SelectBestLink over links[1:] *)
Fixpoint best_loop (best : link) (rest : list link) (sup : text) : option link :=
  match rest with
  | [] => Some best
  | this :: r =>
      match sup_matches best sup with
      | None => None
      | Some bm =>
          match sup_matches this sup with
          | None => None
          | Some tm =>
              if tm && negb bm then best_loop this r sup
              else if negb tm && bm then best_loop best r sup
              else match rating this with
                   | None => None
                   | Some tr => match rating best with
                                | None => None
                                | Some br => if Z.ltb br tr then best_loop this r sup else best_loop best r sup
                                end
                   end
          end
      end
  end.
Definition select_best (links : list link) (sup : text) : option link :=
  match links with [] => None | l :: r => best_loop l r sup end.
Definition select_first (links : list link) : option link :=
  match links with [] => None | l :: _ => Some l end.

Definition lift {A} (f : fval (list link)) (sel : list link -> option A) : fval A :=
  match f with
  | FOk ls => match sel ls with Some x => FOk x | None => FErr [] end
  | FAbsent => FAbsent
  | FErr m => FErr m
  end.

(* the link fields of a post: media (kind-dependent choice among "url") and attachments *)
Definition post_media_of (o : obj) (kind : text) : fval link :=
  if is_av_kind kind then lift (get_links_shorthand o s_lurl) (fun ls => select_best ls (lower_ascii kind))
  else lift (get_links_shorthand o s_lurl) select_first.
Definition post_attachments_of (o : obj) : fval (list link) := get_links o s_attachment.
(* the link fields of an actor *)
Definition actor_pfp_of (o : obj) : fval link := lift (get_links o s_icon) (fun ls => select_best ls (lower_ascii s_image)).
Definition actor_banner_of (o : obj) : fval link := lift (get_links o s_limage) (fun ls => select_best ls (lower_ascii s_image)).
End Links.
