(* Fork-join fan-outs (pub.getActors, NewPostFromObject, NewActivityFromObject, Collection.Harvest,
   Splicer): a parent spawns goroutines and waits for all of them (sync.WaitGroup) before it touches
   what they wrote.  A fan-out is described by the accesses each goroutine makes to memory SHARED
   with its siblings (captured variables, fields, slots of captured slices); tools/xlate extracts
   that description from the current Go source on every run.
   [fj_check] decides that no two goroutines conflict; the theorems (ForkJoinFacts) show that a
   checked fan-out has no data race and computes the same memory under EVERY interleaving. *)
From Coq Require Import List String Bool Arith ZArith.
Import ListNotations.

Definition path := list string.          (* a.b.c *)

(* a captured variable / field path, or one slot of a captured slice (optionally a field of that slot) *)
Inductive loc := LVar (p : path) | LElem (p : path) (i : nat) (f : path).

Fixpoint path_eqb (a b : path) : bool :=
  match a, b with
  | [], [] => true
  | x :: a', y :: b' => String.eqb x y && path_eqb a' b'
  | _, _ => false
  end.
Fixpoint is_prefix (a b : path) : bool :=
  match a, b with
  | [], _ => true
  | x :: a', y :: b' => String.eqb x y && is_prefix a' b'
  | _ :: _, [] => false
  end.

Definition loc_eqb (a b : loc) : bool :=
  match a, b with
  | LVar p, LVar q => path_eqb p q
  | LElem p i f, LElem q j g => path_eqb p q && Nat.eqb i j && path_eqb f g
  | _, _ => false
  end.

Inductive acc := Rd (l : loc) | Wr (l : loc).

(* may the two locations share memory?  the same location; a variable and one of its fields (whole
   versus part); two fields of the same slot where one contains the other *)
Definition overlaps (a b : loc) : bool :=
  match a, b with
  | LVar p, LVar q => is_prefix p q || is_prefix q p
  | LElem p i f, LElem q j g => path_eqb p q && Nat.eqb i j && (is_prefix f g || is_prefix g f)
  | _, _ => false
  end.
(* replacing a whole slice variable while a sibling uses one of its slots *)
Definition replaces (w x : loc) : bool :=
  match w, x with
  | LVar p, LElem q _ _ => is_prefix p q
  | _, _ => false
  end.

Definition conflict (a b : acc) : bool :=
  match a, b with
  | Rd _, Rd _ => false
  | Wr x, Wr y => overlaps x y || replaces x y || replaces y x
  | Wr x, Rd y => overlaps x y || replaces x y
  | Rd y, Wr x => overlaps x y || replaces x y
  end.

Definition accs := list acc.
Definition tasks_conflict (t u : accs) : bool := existsb (fun a => existsb (conflict a) u) t.

(* no two distinct goroutines of the fan-out conflict *)
Fixpoint fj_check (ts : list accs) : bool :=
  match ts with
  | [] => true
  | t :: r => forallb (fun u => negb (tasks_conflict t u)) r && fj_check r
  end.

(* ---------------------------------------------------------------- semantics *)
(* goroutines as deterministic programs over a shared memory: a read appends the value to the
   goroutine's private history, a write stores a value computed from that history *)
Definition value := nat.
Definition mem := loc -> value.
Definition upd (m : mem) (l : loc) (v : value) : mem := fun x => if loc_eqb x l then v else m x.

Inductive op := ORd (l : loc) | OWr (l : loc) (f : list value -> value).
Definition acc_of (o : op) : acc := match o with ORd l => Rd l | OWr l _ => Wr l end.

Record tstate := mkts { todo : list op; seen : list value }.
Definition start (p : list op) : tstate := mkts p [].

Definition step_task (m : mem) (t : tstate) : mem * tstate :=
  match todo t with
  | [] => (m, t)
  | ORd l :: r => (m, mkts r (seen t ++ [m l]))
  | OWr l f :: r => (upd m l (f (seen t)), mkts r (seen t))
  end.

Fixpoint set_nth {A} (l : list A) (k : nat) (x : A) : list A :=
  match l, k with
  | [], _ => []
  | _ :: r, O => x :: r
  | y :: r, S k' => y :: set_nth r k' x
  end.

(* a schedule names the goroutine that moves next (out-of-range names and finished goroutines idle) *)
Fixpoint run (sched : list nat) (m : mem) (ts : list tstate) : mem * list tstate :=
  match sched with
  | [] => (m, ts)
  | k :: rest =>
      match nth_error ts k with
      | None => run rest m ts
      | Some t => let (m', t') := step_task m t in run rest m' (set_nth ts k t')
      end
  end.

Definition finished (ts : list tstate) : Prop := Forall (fun t => todo t = []) ts.

(* a data race: two goroutines, an access of each, conflicting on the SAME cell *)
Definition same_cell_conflict (a b : acc) : bool :=
  match a, b with
  | Rd _, Rd _ => false
  | Wr x, Wr y | Wr x, Rd y | Rd y, Wr x => loc_eqb x y
  end.
Definition has_race (progs : list (list op)) : Prop :=
  exists i j a b, i <> j /\
    (exists p, nth_error progs i = Some p /\ In a (map acc_of p)) /\
    (exists q, nth_error progs j = Some q /\ In b (map acc_of q)) /\
    same_cell_conflict a b = true.

(* ---- the join.  What is Added to the WaitGroup before the Wait, and how often each goroutine calls Done (the translator
   establishes the number per goroutine over all its paths).  The counter after goroutine i has made k_i of its d_i calls is
   added - sum k; Wait returns when it is 0, and Done panics when it would go below 0. *)
Definition wg_counter (added : nat) (ds : list nat) : Z := (Z.of_nat added - Z.of_nat (list_sum ds))%Z.
Definition wg_never_negative (added : nat) (ds : list nat) : Prop :=
  forall ks, Forall2 le ks ds -> (0 <= Z.of_nat added - Z.of_nat (list_sum ks))%Z.
Definition join_ok (added : nat) (ds : list nat) : bool :=
  Nat.eqb added (List.length ds) && forallb (Nat.eqb 1) ds.
