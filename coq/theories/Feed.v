(* Model of feed/feed.go.  Items are abstract (type A).  The Go map[int]Tangible is an
   association list searched newest-binding-first (a later write to the same key wins). *)
From Servitor Require Import Base.

Section FeedSec.
Variable A : Type.

Record feed := { f_map : list (Z * A); f_upper : Z; f_lower : Z; f_index : Z }.

Fixpoint m_get (m : list (Z * A)) (k : Z) : option A :=
  match m with
  | [] => None
  | (k', v) :: m' => if Z.eqb k k' then Some v else m_get m' k
  end.

(* for i, e := range input { m[base + dir*i] = e } *)
Fixpoint m_put_seq (m : list (Z * A)) (base dir : Z) (xs : list A) : list (Z * A) :=
  match xs with
  | [] => m
  | x :: xs' => m_put_seq ((base, x) :: m) (base + dir) dir xs'
  end.

Definition f_create (x : A) : feed :=
  {| f_map := [(0%Z, x)]; f_upper := 1; f_lower := -1; f_index := 0 |}.

Definition f_append (f : feed) (xs : list A) : feed :=
  {| f_map := m_put_seq (f_map f) (f_upper f) 1 xs;
     f_upper := f_upper f + Z.of_nat (length xs);
     f_lower := f_lower f; f_index := f_index f |}.

Definition f_prepend (f : feed) (xs : list A) : feed :=
  {| f_map := m_put_seq (f_map f) (f_lower f) (-1) xs;
     f_upper := f_upper f;
     f_lower := f_lower f - Z.of_nat (length xs); f_index := f_index f |}.

Definition f_create_list (xs : list A) : feed :=
  f_append {| f_map := []; f_upper := 1; f_lower := 0; f_index := 1 |} xs.

Definition f_contains (f : feed) (off : Z) : bool :=
  Z.ltb (f_index f + off) (f_upper f) && Z.ltb (f_lower f) (f_index f + off).

(* Get panics when the offset is outside the bounds *)
Definition f_get (f : feed) (off : Z) : res (option A) :=
  if f_contains f off then Ok (m_get (f_map f) (f_index f + off)) else Panic.

(* Current(): plain map read, nil when absent *)
Definition f_current (f : feed) : option A := m_get (f_map f) (f_index f).

Definition f_set_index (f : feed) (i : Z) : feed :=
  {| f_map := f_map f; f_upper := f_upper f; f_lower := f_lower f; f_index := i |}.

Definition f_move_up (f : feed) : feed :=
  if f_contains f (-1) then f_set_index f (f_index f - 1) else f.
Definition f_move_down (f : feed) : feed :=
  if f_contains f 1 then f_set_index f (f_index f + 1) else f.
Definition f_move_to_center (f : feed) : feed :=
  if f_contains f (- f_index f) then f_set_index f 0 else f.

Definition f_is_parent (f : feed) (off : Z) : bool := Z.ltb (f_index f + off) 0.
Definition f_is_child (f : feed) (off : Z) : bool := Z.ltb 0 (f_index f + off).

Inductive fop :=
| FAppend (xs : list A) | FPrepend (xs : list A) | FUp | FDown | FCenter.

Definition f_step (f : feed) (o : fop) : feed :=
  match o with
  | FAppend xs => f_append f xs
  | FPrepend xs => f_prepend f xs
  | FUp => f_move_up f
  | FDown => f_move_down f
  | FCenter => f_move_to_center f
  end.

Inductive finit := FCreate (x : A) | FCreateList (xs : list A).
Definition f_start (i : finit) : feed :=
  match i with FCreate x => f_create x | FCreateList xs => f_create_list xs end.

(* ---- Reference: a two-sided sequence around the opened item --------------------------
   ups   : items at positions -1, -2, ...   (nearest first)
   mid   : the item at position 0 (the opened item), if any
   downs : items at positions 1, 2, ...
   pos   : position of the cursor *)
Record tsl := { ups : list A; mid : option A; downs : list A; pos : Z }.

Definition t_at (t : tsl) (p : Z) : option A :=
  if Z.eqb p 0 then mid t
  else if Z.ltb p 0 then nth_error (ups t) (Z.to_nat (- p - 1))
  else nth_error (downs t) (Z.to_nat (p - 1)).

Definition t_has (t : tsl) (p : Z) : bool :=
  match t_at t p with Some _ => true | None => false end.

Definition t_start (i : finit) : tsl :=
  match i with
  | FCreate x => {| ups := []; mid := Some x; downs := []; pos := 0 |}
  | FCreateList xs => {| ups := []; mid := None; downs := xs; pos := 1 |}
  end.

(* Prepending to a sequence that has no opened item fills position 0 first. *)
Definition t_step (t : tsl) (o : fop) : tsl :=
  match o with
  | FAppend xs => {| ups := ups t; mid := mid t; downs := downs t ++ xs; pos := pos t |}
  | FPrepend xs =>
      match mid t, xs with
      | None, x :: xs' => {| ups := ups t ++ xs'; mid := Some x; downs := downs t; pos := pos t |}
      | _, _ => {| ups := ups t ++ xs; mid := mid t; downs := downs t; pos := pos t |}
      end
  | FUp => if t_has t (pos t - 1) then {| ups := ups t; mid := mid t; downs := downs t; pos := pos t - 1 |} else t
  | FDown => if t_has t (pos t + 1) then {| ups := ups t; mid := mid t; downs := downs t; pos := pos t + 1 |} else t
  | FCenter => if t_has t 0 then {| ups := ups t; mid := mid t; downs := downs t; pos := 0 |} else t
  end.

(* Observation at one offset: contains, get (Panic when not contained), is_parent, is_child *)
Definition f_obs (f : feed) (off : Z) : bool * res (option A) * bool * bool :=
  (f_contains f off, f_get f off, f_is_parent f off, f_is_child f off).

Definition t_obs (t : tsl) (off : Z) : bool * res (option A) * bool * bool :=
  (t_has t (pos t + off),
   if t_has t (pos t + off) then Ok (t_at t (pos t + off)) else Panic,
   Z.ltb (pos t + off) 0, Z.ltb 0 (pos t + off)).

Definition f_run (i : finit) (ops : list fop) : feed := fold_left f_step ops (f_start i).
Definition t_run (i : finit) (ops : list fop) : tsl := fold_left t_step ops (t_start i).

End FeedSec.

Arguments f_map {A}. Arguments f_upper {A}. Arguments f_lower {A}. Arguments f_index {A}.
Arguments m_get {A}. Arguments m_put_seq {A}. Arguments f_create {A}. Arguments f_append {A}.
Arguments f_prepend {A}. Arguments f_create_list {A}. Arguments f_contains {A}. Arguments f_get {A}.
Arguments f_current {A}. Arguments f_move_up {A}. Arguments f_move_down {A}.
Arguments f_move_to_center {A}. Arguments f_is_parent {A}. Arguments f_is_child {A}.
Arguments FAppend {A}. Arguments FPrepend {A}. Arguments FUp {A}. Arguments FDown {A}. Arguments FCenter {A}.
Arguments f_step {A}. Arguments FCreate {A}. Arguments FCreateList {A}. Arguments f_start {A}.
Arguments ups {A}. Arguments mid {A}. Arguments downs {A}. Arguments pos {A}.
Arguments t_at {A}. Arguments t_has {A}. Arguments t_start {A}. Arguments t_step {A}.
Arguments f_obs {A}. Arguments t_obs {A}. Arguments f_run {A}. Arguments t_run {A}.
Arguments f_set_index {A}.
