(* Model of style/style.go.  The four configured colours are "r;g;b" decimal triples (what
   config.hexToAnsi produces); they are parameters of every definition here. *)
From Servitor Require Import Base Unicode Ansi.
Local Open Scope Z_scope.

Record colors := mkcolors { c_primary : text; c_error : text; c_highlight : text; c_code : text }.

Definition s_bg : text := [52; 56; 59; 50; 59]%N.   (* "48;2;" *)
Definition s_fg : text := [51; 56; 59; 50; 59]%N.   (* "38;2;" *)

(* decimal digits of a non-negative number, most significant first *)
Fixpoint digits_fuel (fuel : nat) (n : Z) (acc : text) : text :=
  match fuel with
  | O => acc
  | S f => let acc' := Z.to_N (48 + n mod 10) :: acc in
           if Z.ltb n 10 then acc' else digits_fuel f (n / 10) acc'
  end.
Definition digits (n : Z) : text := digits_fuel (S (Z.to_nat (Z.log2 n))) n [].

Definition sup_digit (c : rune) : rune :=
  (if N.eqb c 48 then 8304 else if N.eqb c 49 then 185 else if N.eqb c 50 then 178 else if N.eqb c 51 then 179
   else 8308 + (c - 52))%N.

(* strconv.Itoa of a negative number starts with '-', which superscript refuses (panic) *)
Definition superscript (n : Z) : res text :=
  if Z.ltb n 0 then Panic else Ok (map sup_digit (digits n)).

Section WithColors.
Variable col : colors.

Definition background (t rgb : text) : text := apply t (s_bg ++ rgb).
Definition foreground (t rgb : text) : text := apply t (s_fg ++ rgb).
Definition bold (t : text) : text := apply t [49%N].
Definition strikethrough (t : text) : text := apply t [57%N].
Definition underline (t : text) : text := apply t [52%N].
Definition italic (t : text) : text := apply t [51%N].
Definition code (t : text) : text := background t (c_code col).
Definition highlight (t : text) : text := background t (c_highlight col).
Definition color (t : text) : text := foreground t (c_primary col).
Definition red (t : text) : text := foreground t (c_error col).
(* style.Problem scrubs the error text (repair): error messages quote network bytes *)
Definition problem (msg : text) : text := red (scrub msg).

Definition link (t : text) (n : Z) : res text :=
  match superscript n with
  | Ok s => Ok (color (underline t ++ s))
  | Panic => Panic
  end.

Definition code_block (t : text) : text := code t.

Definition QUOTE_BAR : rune := 9612%N.   (* U+258C *)
Definition quote_block (t : text) : text := color (indent t [QUOTE_BAR] true).

Definition LINK_MARK : text := [8227; 32]%N.  (* "‣ " *)
Definition link_block (t : text) (n : Z) : res text :=
  match link t n with
  | Ok l => Ok (LINK_MARK ++ indent l [SP; SP] false)
  | Panic => Panic
  end.

Definition HDR_MARK : rune := 11201%N.   (* U+2BC1 *)
Definition header (t : text) (level : nat) : text :=
  let indented := indent t (repeat_text [SP] (level + 1)) false in
  color (bold (repeat_text [HDR_MARK] level ++ [SP] ++ indented)).

Definition BULLET : text := [8226; 32]%N.   (* "• " *)
Definition bullet (t : text) : text := BULLET ++ indent t [SP; SP] false.

(* ---- styled-text terms: what the program builds by nesting and concatenating style calls ---- *)
Inductive sfun := SBold | SStrike | SUnderline | SItalic | SCode | SHighlight | SColor | SRed.

Definition sfun_param (f : sfun) : text :=
  match f with
  | SBold => [49%N] | SStrike => [57%N] | SUnderline => [52%N] | SItalic => [51%N]
  | SCode => s_bg ++ c_code col | SHighlight => s_bg ++ c_highlight col
  | SColor => s_fg ++ c_primary col | SRed => s_fg ++ c_error col
  end.

Definition sfun_apply (f : sfun) (t : text) : text := apply t (sfun_param f).

Inductive sterm := TPlain (t : text) | TStyled (f : sfun) (x : sterm) | TCat (a b : sterm).

Fixpoint sterm_eval (x : sterm) : text :=
  match x with
  | TPlain t => t
  | TStyled f y => sfun_apply f (sterm_eval y)
  | TCat a b => sterm_eval a ++ sterm_eval b
  end.

(* what must be displayed: every rune with the parameters of the Styled nodes above it,
   outermost first; newlines carry nothing *)
Fixpoint sterm_expect (above : list text) (x : sterm) : list (rune * list text) :=
  match x with
  | TPlain t => map (fun c => (c, if N.eqb c NL then [] else above)) t
  | TStyled f y => sterm_expect (above ++ [sfun_param f]) y
  | TCat a b => sterm_expect above a ++ sterm_expect above b
  end.
End WithColors.
