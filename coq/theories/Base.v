(* Common conventions for the servitor models.
   rune := N (a Unicode code point), text := list rune.  Go [int] values that can be
   negative are Z; lengths / fuel are nat. *)
From Coq Require Export List NArith ZArith Bool Lia.
Export ListNotations.

Definition rune := N.
Definition text := list rune.

(* Outcome of a Go function that may panic. *)
Inductive res (A : Type) := Ok (a : A) | Panic.
Arguments Ok {A} a.
Arguments Panic {A}.

Definition is_ok {A} (r : res A) : bool := match r with Ok _ => true | Panic => false end.

Definition NL : rune := 10%N.
Definition ESC : rune := 27%N.
Definition SP : rune := 32%N.

Fixpoint text_eqb (a b : text) : bool :=
  match a, b with
  | [], [] => true
  | x :: a', y :: b' => N.eqb x y && text_eqb a' b'
  | _, _ => false
  end.

Lemma text_eqb_eq a b : text_eqb a b = true <-> a = b.
Proof.
  revert b; induction a as [|x a IH]; destruct b as [|y b]; simpl; split; try congruence; try reflexivity.
  - intros H. apply andb_true_iff in H as [H1 H2]. apply N.eqb_eq in H1. apply IH in H2. congruence.
  - intros H. inversion H; subst. rewrite N.eqb_refl. simpl. apply IH. reflexivity.
Qed.

(* List.rev is quadratic; the models that reverse whole texts use this linear version
   (rev_fast l = rev l by List.rev_alt). *)
Definition rev_fast {A} (l : list A) : list A := rev_append l [].

(* strings.Repeat with a non-negative count (as nat). *)
Fixpoint repeat_text (t : text) (n : nat) : text :=
  match n with O => [] | S k => t ++ repeat_text t k end.

(* Split on newline: strings.Split(text, "\n") -- always at least one line. *)
Fixpoint split_nl_aux (cur : text) (t : text) : list text :=
  match t with
  | [] => [rev cur]
  | c :: t' => if N.eqb c NL then rev cur :: split_nl_aux [] t' else split_nl_aux (c :: cur) t'
  end.
Definition split_nl (t : text) : list text := split_nl_aux [] t.

(* strings.Join(lines, "\n") *)
Fixpoint join_nl (ls : list text) : text :=
  match ls with
  | [] => []
  | [l] => l
  | l :: rest => l ++ NL :: join_nl rest
  end.
