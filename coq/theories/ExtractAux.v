(* Accessors used only by the OCaml driver, so that it does not depend on how extraction renames
   record fields that clash with other identifiers. *)
From Servitor Require Import Base Config.

Definition config_fields (c : config) : list bytes * (bytes * bytes * bytes * bytes) * (Z * Z * Z) :=
  (hook c, (primary c, error c, highlight c, code c), (context c, timeout_ns c, cache_size c)).
