(* Model of hypertext/hypertext.go (with the repairs: text, attribute values and unknown tag names
   are scrubbed; an anchor remembers its number before rendering its children; <hr> clamps its
   repeat count).  The model starts from the tree html.ParseFragment returns (library oracle). *)
From Servitor Require Import Base Unicode Ansi Style HtmlTags.
Local Open Scope Z_scope.

Inductive node :=
| NText (t : text)
| NElem (tag : text) (attrs : list (text * text)) (kids : list node)
| NOther.                                   (* comments, doctypes: rendered as "" *)

(* strings.Trim(s, " \n") *)
Definition is_sp_nl (c : rune) : bool := N.eqb c SP || N.eqb c NL.
Fixpoint drop_while (f : rune -> bool) (l : text) : text :=
  match l with c :: l' => if f c then drop_while f l' else l | [] => [] end.
Definition trim_left (f : rune -> bool) (l : text) : text := drop_while f l.
Definition trim_right (f : rune -> bool) (l : text) : text := rev_fast (drop_while f (rev_fast l)).
Definition trim (f : rune -> bool) (l : text) : text := trim_right f (trim_left f l).
Fixpoint take_while (f : rune -> bool) (l : text) : text :=
  match l with c :: l' => if f c then c :: take_while f l' else [] | [] => [] end.

(* mergeText *)
Definition merge_text (lhs rhs : text) : text :=
  let l := trim_right is_sp_nl lhs in
  let ws1 := rev_fast (take_while is_sp_nl (rev_fast lhs)) in
  let ws2 := take_while is_sp_nl rhs in
  let r := drop_while is_sp_nl rhs in
  let ws := ws1 ++ ws2 in
  match ws with
  | [] => l ++ r
  | _ => let n := count_nl ws in
         match n with
         | O => l ++ [SP] ++ r
         | S O => l ++ [NL] ++ r
         | _ => l ++ [NL; NL] ++ r
         end
  end.

Definition block (t : text) : text := [NL; NL] ++ trim is_sp_nl t ++ [NL; NL].

(* [ \t\n\r]+ -> " " *)
Definition is_html_ws (c : rune) : bool := N.eqb c 32 || N.eqb c 9 || N.eqb c 10 || N.eqb c 13.
Fixpoint collapse_ws (l : text) (in_ws : bool) : text :=
  match l with
  | [] => []
  | c :: l' => if is_html_ws c then (if in_ws then collapse_ws l' true else SP :: collapse_ws l' true)
               else c :: collapse_ws l' false
  end.

Fixpoint get_attr (name : text) (attrs : list (text * text)) : text :=
  match attrs with
  | [] => []
  | (k, v) :: r => if text_eqb k name then scrub v else get_attr name r
  end.

Definition situational_wrap (t : text) (pre_ws : bool) (w : Z) : text :=
  if pre_ws then dumb_wrap t w else wrap t w.

Definition HR_CHAR : rune := 9135%N.   (* U+23AF *)
Definition LT : rune := 60%N. Definition GT : rune := 62%N. Definition SLASH_C : rune := 47%N.

Definition header_level (tag : text) : option nat :=
  if text_eqb tag k_h1 then Some 1%nat else if text_eqb tag k_h2 then Some 2%nat
  else if text_eqb tag k_h3 then Some 3%nat else if text_eqb tag k_h4 then Some 4%nat
  else if text_eqb tag k_h5 then Some 5%nat else if text_eqb tag k_h6 then Some 6%nat else None.

Definition is_media_tag (tag : text) : bool := text_eqb tag k_img || text_eqb tag k_video || text_eqb tag k_audio.

Section Render.
Variable col : colors.

(* link numbers are list lengths >= 1, for which superscript cannot fail *)
Definition link_ok (t : text) (n : nat) : text :=
  match link col t (Z.of_nat n) with Ok x => x | Panic => [] end.
Definition link_block_ok (t : text) (n : nat) : text :=
  match link_block col t (Z.of_nat n) with Ok x => x | Panic => [] end.

Definition bad_open (tag : text) : text := red col ([LT] ++ scrub tag ++ [GT]).
Definition bad_close (tag : text) : text := red col ([LT; SLASH_C] ++ scrub tag ++ [GT]).

(* The link state threaded through the rendering: the targets appended so far (what the Go code
   keeps behind ctx.links) and, as a GHOST component used only by the C12 theorems, the label
   events (number printed next to a link, its target) in the order the numbers were assigned. *)
Definition lstate := (list text * list (nat * text))%type.
Definition ls_links (s : lstate) : list text := fst s.
Definition ls_events (s : lstate) : list (nat * text) := snd s.
(* append a target; the number that will be printed for it is returned *)
Definition ls_add (s : lstate) (target : text) : lstate * nat :=
  let l := fst s ++ [target] in ((l, snd s), length l).
(* record that [number] was printed for [target] *)
Definition ls_label (s : lstate) (number : nat) (target : text) : lstate := (fst s, snd s ++ [(number, target)]).

(* renderNode.  parent_li: the node's parent element is <li> (only <ul> looks at it). *)
Fixpoint render_node (n : node) (parent_li pre_ws : bool) (w : Z) (links : lstate) {struct n}
  : text * lstate :=
  match n with
  | NOther => ([], links)
  | NText t => (if pre_ws then scrub t else scrub (collapse_ws t false), links)
  | NElem tag attrs kids =>
      let self_li := text_eqb tag k_li in
      let children := fun (pre' : bool) (w' : Z) (ls0 : lstate) =>
        (fix go (ks : list node) (acc : text) (ls : lstate) {struct ks} : text * lstate :=
           match ks with
           | [] => (acc, ls)
           | k :: ks' => let (r, ls') := render_node k self_li pre' w' ls in go ks' (merge_text acc r) ls'
           end) kids [] ls0 in
      let bad := fun (pre' : bool) (w' : Z) (ls0 : lstate) =>
        let (c, ls') := children pre' w' ls0 in (bad_open tag ++ c ++ bad_close tag, ls') in
      if text_eqb tag k_a then
        let href := get_attr k_href attrs in
        match href with
        | [] => children pre_ws w links
        | _ => let (links1, number) := ls_add links href in
               let (c, ls') := children pre_ws w (ls_label links1 number href) in
               (link_ok c number, ls')
        end
      else if text_eqb tag k_s || text_eqb tag k_del then
        let (c, ls') := children pre_ws w links in (strikethrough c, ls')
      else if text_eqb tag k_code then
        let (c, ls') := children true w links in (code col c, ls')
      else if text_eqb tag k_i || text_eqb tag k_em then
        let (c, ls') := children pre_ws w links in (italic c, ls')
      else if text_eqb tag k_b || text_eqb tag k_strong then
        let (c, ls') := children pre_ws w links in (bold c, ls')
      else if text_eqb tag k_u || text_eqb tag k_ins then
        let (c, ls') := children pre_ws w links in (underline c, ls')
      else if text_eqb tag k_mark then
        let (c, ls') := children pre_ws w links in (highlight col c, ls')
      else if text_eqb tag k_span then children pre_ws w links
      else if self_li then
        let (c, ls') := children pre_ws w links in (trim is_sp_nl c, ls')
      else if text_eqb tag k_br then ([NL], links)
      else if text_eqb tag k_p || text_eqb tag k_div then
        let (c, ls') := children pre_ws w links in (block c, ls')
      else if text_eqb tag k_pre then
        let (c, ls') := children true w links in
        (block (code_block col (pad (situational_wrap c true w) w)), ls')
      else if text_eqb tag k_blockquote then
        let (c, ls') := children pre_ws (w - 1) links in
        (block (quote_block col (trim is_sp_nl (situational_wrap c pre_ws (w - 1)))), ls')
      else if text_eqb tag k_ul then
        (* bulletedList *)
        let w' := w - 2 in
        let '(out, ls') :=
          (fix items (ks : list node) (acc : text) (ls : lstate) {struct ks} : text * lstate :=
             match ks with
             | [] => (acc, ls)
             | k :: ks' =>
                 match k with
                 | NElem ktag kattrs kkids =>
                     let '(r, ls1) :=
                       if text_eqb ktag k_li then render_node k false pre_ws w' ls
                       else
                         (* bad(current, ctx): children of the stray element *)
                         let '(c, ls2) :=
                           (fix go2 (gs : list node) (acc2 : text) (lsg : lstate) {struct gs} : text * lstate :=
                              match gs with
                              | [] => (acc2, lsg)
                              | g :: gs' => let (rg, lsg') := render_node g (text_eqb ktag k_li) pre_ws w' lsg in
                                            go2 gs' (merge_text acc2 rg) lsg'
                              end) kkids [] ls in
                         (bad_open ktag ++ c ++ bad_close ktag, ls2) in
                     items ks' (acc ++ [NL] ++ bullet (situational_wrap r pre_ws w')) ls1
                 | _ => items ks' acc ls
                 end
             end) kids [] links in
        if parent_li then (out, ls') else (block out, ls')
      else
        match header_level tag with
        | Some lvl =>
            let w' := w - Z.of_nat (lvl + 1) in
            let (c, ls') := children pre_ws w' links in
            (block (header col (situational_wrap c pre_ws w') lvl), ls')
        | None =>
            if text_eqb tag k_hr then (block (repeat_text [HR_CHAR] (Z.to_nat w)), links)
            else if is_media_tag tag || text_eqb tag k_iframe then
              let alt0 := get_attr (if text_eqb tag k_iframe then k_title else k_alt) attrs in
              let src := get_attr k_src attrs in
              let alt := match alt0 with [] => src | _ => alt0 end in
              match src with
              | [] => (block alt, links)
              | _ => let (links1, number) := ls_add links src in
                     (block (link_block_ok (situational_wrap alt pre_ws (w - 2)) number), ls_label links1 number src)
              end
            else bad pre_ws w links
        end
  end.

Fixpoint render_nodes (ns : list node) (w : Z) (acc : text) (links : lstate) : text * lstate :=
  match ns with
  | [] => (acc, links)
  | n :: ns' => let (r, ls') := render_node n false false w links in render_nodes ns' w (merge_text acc r) ls'
  end.

Definition render_full (ns : list node) (w : Z) : text * lstate :=
  let (out, st) := render_nodes ns w [] ([], []) in
  (trim is_sp_nl (wrap out w), st).

Definition render_with_links (ns : list node) (w : Z) : text * list text :=
  let (out, st) := render_full ns w in (out, ls_links st).

End Render.
