(* What a terminal does with the bytes servitor prints: an SGR state machine.
   ESC [ params m  with params made of digits and ';' changes the attribute state (params ""
   or "0" clears it, any other parameter string is added as one opaque attribute); every other
   rune is displayed with the current attribute set.  An ESC that does not start such a
   sequence is "displayed" too, i.e. it reaches the terminal as a control character - the
   safety predicate of C01 excludes exactly that. *)
From Servitor Require Import Base Unicode Ansi AnsiSpec.

Definition attrs := list text.

Fixpoint take_params (l : text) : option (text * text) :=
  match l with
  | [] => None
  | c :: l' =>
      if N.eqb c CH_m then Some ([], l')
      else if is_param c then
        match take_params l' with Some (p, r) => Some (c :: p, r) | None => None end
      else None
  end.

Definition is_clear (p : text) : bool :=
  match p with [] => true | [c] => N.eqb c CH_0 | _ => false end.

Definition sgr_at (t : text) : option (text * text) :=
  match t with
  | a :: b :: t2 => if N.eqb a ESC && N.eqb b LBR then take_params t2 else None
  | _ => None
  end.

Fixpoint term (fuel : nat) (st : attrs) (t : text) : list (rune * attrs) * attrs :=
  match fuel with
  | O => ([], st)
  | S f =>
      match t with
      | [] => ([], st)
      | a :: t1 =>
          match sgr_at t with
          | Some (p, rest) => term f (if is_clear p then [] else st ++ [p]) rest
          | None => let (out, st') := term f st t1 in ((a, st) :: out, st')
          end
      end
  end.

Definition display (t : text) : list (rune * attrs) * attrs := term (length t) [] t.

(* C01: nothing but printable runes, newlines and SGR sequences reaches the terminal *)
Definition printable (c : rune) : bool := N.eqb c NL || negb (is_control c).
Definition safe_b (t : text) : bool := forallb (fun ca => printable (fst ca)) (fst (display t)).

(* C14: no attribute is active at a line break or at the end of the text *)
Definition neutral_b (t : text) : bool :=
  forallb (fun ca => negb (N.eqb (fst ca) NL) || match snd ca with [] => true | _ => false end) (fst (display t))
  && match snd (display t) with [] => true | _ => false end.

(* the SGR parameter strings of a well-formed prefix, outermost first *)
Fixpoint groups_of (fuel : nat) (p : text) : list text :=
  match fuel with
  | O => []
  | S f => match sgr_at p with
           | Some (ps, rest) => ps :: groups_of f rest
           | None => []
           end
  end.
Definition cell_attrs (c : cell) : attrs := groups_of (length (pre c)) (pre c).
