(* Model of jtp/jtp.go Get (with the repairs: a null body is rejected; the exchange has a
   deadline, so a peer that stalls is the same as one that closes: the bytes received are all
   there is).  URLs are opaque canonical strings; everything net/url does (parsing, resolving a
   Location against the URL that issued it, the https test) is a library oracle, as is the JSON
   decoding of a body.  The cache is the LRU of hashicorp/golang-lru (most recent first). *)
From Servitor Require Import Base Mime Json.
Local Open Scope N_scope.

Definition url := text.
Definition bytes := list N.

(* what encoding/json makes of the body bytes *)
Inductive bodyclass := BObj (d : list (text * jv)) | BNull | BBad.

(* what a server does with one connection *)
Record entry := mkentry {
  e_dial : bool;          (* TCP connect + TLS handshake succeed (within the dial timeout) *)
  e_bytes : bytes;        (* everything the peer sends before it closes, resets or stalls *)
  e_body : bodyclass      (* decoding of what follows the blank line (library oracle) *)
}.

Inductive errclass :=
| EScheme | EDial | EStatusLine | EBadStatus | ELocation | ETooMany | EHeaders | EContentType | EBody.

Inductive outcome := ODoc (d : list (text * jv)) (src : url) | OErr (e : errclass).

(* ---------------------------------------------------------------- byte-level recognisers *)
Definition LF : N := 10. Definition CR : N := 13.

(* bufio.ReadString('\n'): the line including its LF, and the rest; None when no LF arrives *)
Fixpoint read_line (bs : bytes) : option (bytes * bytes) :=
  match bs with
  | [] => None
  | c :: r => if N.eqb c LF then Some ([c], r)
              else match read_line r with Some (l, r') => Some (c :: l, r') | None => None end
  end.

Definition is_dig (c : N) : bool := N.leb 48 c && N.leb c 57.

(* ^HTTP/1\.[0-9] ([0-9]{3}).*\n$  on a line that ends with its only LF *)
Definition parse_status_line (l : bytes) : option (N * N * N) :=
  match l with
  | 72 :: 84 :: 84 :: 80 :: 47 :: 49 :: 46 :: v :: 32 :: a :: b :: c :: _ =>
      if is_dig v && is_dig a && is_dig b && is_dig c then Some (a, b, c) else None
  | _ => None
  end.

Definition lower (c : N) : N := if N.leb 65 c && N.leb c 90 then c + 32 else c.

(* case-insensitive literal prefix (ASCII letters and '-' only; neither header name contains a
   letter with a non-ASCII case fold) *)
Fixpoint strip_prefix_ci (p l : bytes) : option bytes :=
  match p, l with
  | [], _ => Some l
  | a :: p', b :: l' => if N.eqb a (lower b) then strip_prefix_ci p' l' else None
  | _ :: _, [] => None
  end.

Definition is_hws (c : N) : bool := N.eqb c 32 || N.eqb c 9 || N.eqb c CR.
Fixpoint drop_hws (l : bytes) : bytes := match l with c :: r => if is_hws c then drop_hws r else l | [] => [] end.

(* ^(?i:name):[ \t\r]*(.*?)[ \t\r]*\n$ : the value with surrounding space/tab/CR removed *)
Definition header_value (name : bytes) (line : bytes) : option bytes :=
  match strip_prefix_ci (name ++ [58]) line with
  | None => None
  | Some r =>
      match rev_fast r with
      | c :: body => if N.eqb c LF then Some (rev_fast (drop_hws (rev_fast (drop_hws (rev_fast body)))))
                     else None
      | [] => None
      end
  end.

Definition h_content_type : bytes := [99;111;110;116;101;110;116;45;116;121;112;101].
Definition h_location : bytes := [108;111;99;97;116;105;111;110].

Definition is_blank (line : bytes) : bool :=
  match line with [a] => N.eqb a LF | [a; b] => N.eqb a CR && N.eqb b LF | _ => false end.

(* validateHeaders: every Content-Type must parse and be tolerated, at least one present *)
Fixpoint validate_headers (fuel : nat) (tolerated : list text) (bs : bytes) (seen : bool) : option bool :=
  (* Some true: headers end and are valid ; Some false: invalid ; None: stream ended early *)
  match fuel with
  | O => None
  | S f =>
      match read_line bs with
      | None => None
      | Some (line, rest) =>
          if is_blank line then Some seen
          else match header_value h_content_type line with
               | None => validate_headers f tolerated rest seen
               | Some v =>
                   match mime_parse v with
                   | None => Some false
                   | Some m => if mt_matches m tolerated then validate_headers f tolerated rest true else Some false
                   end
               end
      end
  end.

(* findLocation: the value of the first Location header before the blank line *)
Inductive loc_result := LFound (v : bytes) | LMissing | LEarlyEnd.
Fixpoint find_location (fuel : nat) (bs : bytes) : loc_result :=
  match fuel with
  | O => LEarlyEnd
  | S f =>
      match read_line bs with
      | None => LEarlyEnd
      | Some (line, rest) =>
          if is_blank line then LMissing
          else match header_value h_location line with
               | Some v => LFound v
               | None => find_location f rest
               end
      end
  end.

(* ---------------------------------------------------------------- the LRU cache *)
Definition cache := list (url * outcome).    (* most recently used first *)

Fixpoint c_remove (c : cache) (k : url) : cache :=
  match c with [] => [] | (k', v) :: r => if text_eqb k k' then r else (k', v) :: c_remove r k end.
Fixpoint c_find (c : cache) (k : url) : option outcome :=
  match c with [] => None | (k', v) :: r => if text_eqb k k' then Some v else c_find r k end.
Definition c_get (c : cache) (k : url) : option outcome * cache :=
  match c_find c k with
  | Some v => (Some v, (k, v) :: c_remove c k)
  | None => (None, c)
  end.
Definition c_add (cap : nat) (c : cache) (k : url) (v : outcome) : cache :=
  firstn cap ((k, v) :: c_remove c k).

(* ---------------------------------------------------------------- Get *)
Section Get.
Variable W : url -> entry.                       (* the servers *)
Variable is_https : url -> bool.                 (* link.Scheme == "https" *)
Variable resolve : url -> bytes -> option url.   (* base.ResolveReference(url.Parse(value)) *)
Variable tolerated : list text.
Variable cap : nat.

(* one hop: classification of the response bytes *)
Inductive hop := HDoc (d : list (text * jv)) | HRedirect (v : bytes) | HErr (e : errclass).

Definition classify_response (e : entry) : hop :=
  match read_line (e_bytes e) with
  | None => HErr EStatusLine
  | Some (sl, rest) =>
      match parse_status_line sl with
      | None => HErr EStatusLine
      | Some (a, b, c) =>
          if N.eqb a 51 then   (* '3' *)
            match find_location (S (length rest)) rest with
            | LFound v => HRedirect v
            | LMissing => HErr ELocation
            | LEarlyEnd => HErr EHeaders
            end
          else if N.eqb a 50 && N.eqb b 48 && (N.leb 48 c && N.leb c 51) then   (* 200..203 *)
            match validate_headers (S (length rest)) tolerated rest false with
            | None => HErr EHeaders
            | Some false => HErr EContentType
            | Some true =>
                match e_body e with
                | BObj d => HDoc d
                | BNull | BBad => HErr EBody
                end
            end
          else HErr EBadStatus
      end
  end.

(* the result, the cache afterwards, and the requests received by servers, in order *)
Fixpoint get (budget : nat) (c : cache) (u : url) : outcome * cache * list url :=
  match c_get c u with
  | (Some o, c') => (o, c', [])
  | (None, _) =>
      if negb (is_https u) then (OErr EScheme, c, [])
      else
        let e := W u in
        if negb (e_dial e) then (OErr EDial, c, [])
        else
          match classify_response e with
          | HErr err => (OErr err, c, [u])
          | HDoc d => (ODoc d u, c_add cap c u (ODoc d u), [u])
          | HRedirect v =>
              match resolve u v with
              | None => (OErr ELocation, c, [u])
              | Some loc =>
                  match budget with
                  | O => (OErr ETooMany, c, [u])
                  | S b =>
                      let '(o, c', log) := get b c loc in
                      (o, c_add cap c' u o, u :: log)
                  end
              end
          end
  end.
End Get.
