(* C09 - Listings only show items that really belong there.
   Listing.v models the three acceptance rules on top of the provenance rule of C02; the world of
   servers, the cache and net/url are universally quantified.  served W is_https resolve host_of h v:
   v was served (after redirects) by host h, at top level or embedded.  Only property theorems here. *)

From Servitor Require Import Base Json Object Jtp Client Listing.
From Servitor.Facts Require Import JtpFacts ClientFacts ListingFacts.

(* an entry is shown as genuine in an actor's timeline only if it is an activity whose actor - after the re-fetch rule - is an actor document carrying exactly the owner's id, served by the host named in that id *)
Theorem timeline_genuine :
  forall (W : url -> entry) (is_https : url -> bool) (resolve : url -> bytes -> option url)
  (cap : nat) (parse_ref : option url -> text -> option url)
  (url_parse : text -> option url) (host_of : url -> text) (c : cache)
  (owner : option url) (entry : jv) (source : option url) (c' : cache),
  cache_sound W is_https resolve as_tolerated c ->
  source = None \/
  (exists s : url, source = Some s /\ served W is_https resolve host_of (host_of s) entry) ->
  timeline_entry W is_https resolve cap parse_ref url_parse host_of c owner entry source =
  (Genuine, c') ->
  exists (own : url) (act actor_doc : obj),
  owner = Some own /\
  kind_in activity_kinds act = true /\
  kind_in actor_kinds actor_doc = true /\
  obj_id url_parse actor_doc = Some (Some own) /\
  served W is_https resolve host_of (host_of own) (JObj actor_doc) /\
  cache_sound W is_https resolve as_tolerated c'.
Proof. exact timeline_genuine_fact. Qed.
Print Assumptions timeline_genuine.

(* every entry gets a verdict (genuine or error item): nothing is silently dropped *)
Theorem timeline_total :
  forall (W : url -> entry) (is_https : url -> bool) (resolve : url -> bytes -> option url)
  (cap : nat) (parse_ref : option url -> text -> option url)
  (url_parse : text -> option url) (host_of : url -> text) (c : cache)
  (owner : option url) (entry : jv) (source : option url),
  exists (v : verdict) (c' : cache),
  timeline_entry W is_https resolve cap parse_ref url_parse host_of c owner entry source =
  (v, c').
Proof. exact timeline_total_fact. Qed.
Print Assumptions timeline_total.

Theorem timeline_cache_sound :
  forall (W : url -> entry) (is_https : url -> bool) (resolve : url -> bytes -> option url)
  (cap : nat) (parse_ref : option url -> text -> option url)
  (url_parse : text -> option url) (host_of : url -> text) (c : cache)
  (owner : option url) (entry : jv) (source : option url) (v : verdict)
  (c' : cache),
  cache_sound W is_https resolve as_tolerated c ->
  source = None \/
  (exists s : url, source = Some s /\ served W is_https resolve host_of (host_of s) entry) ->
  timeline_entry W is_https resolve cap parse_ref url_parse host_of c owner entry source =
  (v, c') -> cache_sound W is_https resolve as_tolerated c'.
Proof. exact timeline_cache_sound_fact. Qed.
Print Assumptions timeline_cache_sound.

(* an entry is shown as a reply only if it is a post whose resolved parent id is string-equal to this very post's id (and that parent document was served by its id's host) *)
Theorem reply_genuine :
  forall (W : url -> entry) (is_https : url -> bool) (resolve : url -> bytes -> option url)
  (cap : nat) (parse_ref : option url -> text -> option url)
  (url_parse : text -> option url) (host_of : url -> text) (c : cache)
  (this : option url) (entry : jv) (source : option url) (c' : cache),
  cache_sound W is_https resolve as_tolerated c ->
  source = None \/
  (exists s : url, source = Some s /\ served W is_https resolve host_of (host_of s) entry) ->
  reply_entry W is_https resolve cap parse_ref url_parse host_of c this entry source =
  (Genuine, c') ->
  exists (me : url) (cid : option url),
  this = Some me /\
  new_post W is_https resolve cap parse_ref url_parse host_of c entry source =
  (Some (cid, Some me), c') /\
  cache_sound W is_https resolve as_tolerated c' /\
  (exists pdoc : obj,
  obj_id url_parse pdoc = Some (Some me) /\
  served W is_https resolve host_of (host_of me) (JObj pdoc)).
Proof. exact reply_genuine_fact. Qed.
Print Assumptions reply_genuine.

(* a post results only if every creator that resolved to an actor lives on the post's host *)
Theorem new_post_authors :
  forall (W : url -> entry) (is_https : url -> bool) (resolve : url -> bytes -> option url)
  (cap : nat) (parse_ref : option url -> text -> option url)
  (url_parse : text -> option url) (host_of : url -> text) (c : cache)
  (input : jv) (source id parent : option url) (c' : cache),
  cache_sound W is_https resolve as_tolerated c ->
  source = None \/
  (exists s : url, source = Some s /\ served W is_https resolve host_of (host_of s) input) ->
  new_post W is_https resolve cap parse_ref url_parse host_of c input source =
  (Some (id, parent), c') ->
  cache_sound W is_https resolve as_tolerated c' /\
  (exists o : obj,
  kind_in post_kinds o = true /\
  (forall pid : url,
  id = Some pid ->
  served W is_https resolve host_of (host_of pid) (JObj o) /\
  obj_id url_parse o = Some (Some pid)) /\
  (exists c2 : cache,
  creators_trace W is_https resolve cap parse_ref url_parse host_of c2 id
  (attributed o) c') /\
  (forall r : jv,
  In r (attributed o) ->
  exists (ci : cache) (a : option (option url)) (ci' : cache),
  new_actor W is_https resolve cap parse_ref url_parse host_of ci r id = (a, ci') /\
  (forall x : url,
  a = Some (Some x) ->
  exists doc : obj,
  kind_in actor_kinds doc = true /\
  obj_id url_parse doc = Some (Some x) /\
  served W is_https resolve host_of (host_of x) (JObj doc) /\
  (exists p : url, id = Some p /\ host_of x = host_of p)))).
Proof. exact new_post_authors_fact. Qed.
Print Assumptions new_post_authors.

(* both ids absent counts as equal, exactly one absent does not *)
Theorem creators_ok :
  forall (W : url -> entry) (is_https : url -> bool) (resolve : url -> bytes -> option url)
  (cap : nat) (parse_ref : option url -> text -> option url)
  (url_parse : text -> option url) (host_of : url -> text) (refs : list jv)
  (c : cache) (post_id : option url) (c' : cache),
  creators_ok W is_https resolve cap parse_ref url_parse host_of c post_id refs = (true, c') ->
  creators_trace W is_https resolve cap parse_ref url_parse host_of c post_id refs c'.
Proof. exact creators_ok_fact. Qed.
Print Assumptions creators_ok.

Theorem new_post_parent :
  forall (W : url -> entry) (is_https : url -> bool) (resolve : url -> bytes -> option url)
  (cap : nat) (parse_ref : option url -> text -> option url)
  (url_parse : text -> option url) (host_of : url -> text) (c : cache)
  (input : jv) (source id : option url) (pid : url) (c' : cache),
  cache_sound W is_https resolve as_tolerated c ->
  source = None \/
  (exists s : url, source = Some s /\ served W is_https resolve host_of (host_of s) input) ->
  new_post W is_https resolve cap parse_ref url_parse host_of c input source =
  (Some (id, Some pid), c') ->
  exists pdoc : obj,
  obj_id url_parse pdoc = Some (Some pid) /\
  served W is_https resolve host_of (host_of pid) (JObj pdoc).
Proof. exact new_post_parent_fact. Qed.
Print Assumptions new_post_parent.

(* a page with n entries delivers n verdicts *)
Theorem classify_all_length :
  forall (f : cache -> jv -> verdict * cache) (c : cache) (es : list jv),
  length (fst (classify_all f c es)) = length es.
Proof. exact classify_all_length_fact. Qed.
Print Assumptions classify_all_length.

(* in order, the k-th being the verdict of the k-th entry - never fewer, never reordered *)
Theorem classify_all_nth :
  forall (f : cache -> jv -> verdict * cache) (c : cache) (es : list jv) (i : nat) (e : jv),
  nth_error es i = Some e ->
  exists (ci : cache) (v : verdict) (ci' : cache),
  nth_error (fst (classify_all f c es)) i = Some v /\ f ci e = (v, ci').
Proof. exact classify_all_nth_fact. Qed.
Print Assumptions classify_all_nth.
