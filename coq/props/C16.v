(* C16 - Every frame is exactly as tall as the terminal. *)
From Servitor Require Import Base Unicode Ansi.
From Servitor.Facts Require Import CenterFacts.
Local Open Scope Z_scope.
From Servitor.Facts Require Import HtmlFacts FrameFacts.

(* for every prefix / centred / suffix text and every height >= 1 the result has exactly h lines *)
Theorem center_height : forall (p c s : text) (h : Z), 1 <= h -> height (center_vertically p c s h) = h.
Proof. exact center_height_fact. Qed.
Print Assumptions center_height.

(* the highlighted item is vertically centred: it starts after floor((h - c)/2) lines, which are
   the nearest lines of what is above it (or blank padding); below it come the nearest lines of
   what follows (or padding) *)
Theorem centered_position : forall (p c s : text) (h : Z), height c < h ->
  let top := (h - height c) / 2 in
  exists above below,
    split_nl (center_vertically p c s h) = above ++ split_nl c ++ below /\
    Z.of_nat (length above) = top /\
    Z.of_nat (length below) = (h - height c) - top /\
    above = skipn (length (repeat [] (Z.to_nat top) ++ split_nl p) - Z.to_nat top)
                  (repeat ([] : text) (Z.to_nat top) ++ split_nl p) /\
    below = firstn (Z.to_nat ((h - height c) - top))
                   (split_nl s ++ repeat ([] : text) (Z.to_nat ((h - height c) - top))).
Proof. exact centered_position_fact. Qed.
Print Assumptions centered_position.

(* an item taller than the screen shows its first h lines *)
Theorem center_tall : forall p c s h, 1 <= h -> h <= height c ->
  split_nl (center_vertically p c s h) = firstn (Z.to_nat h) (split_nl c).
Proof. exact center_tall_fact. Qed.
Print Assumptions center_tall.

(* the status line replaces the last line and nothing else (frames have >= 2 lines) *)
Theorem replace_last_line_spec : forall (o r x : text), replace_last_line o r = Ok x -> 2 <= height o ->
  height x = height o /\ exists keep, split_nl o = keep ++ [last (split_nl o) []] /\ split_nl x = keep ++ [r].
Proof. exact replace_last_line_fact. Qed.
Print Assumptions replace_last_line_spec.

Theorem replace_last_line_ok : forall o r, has_nl r = false -> exists x, replace_last_line o r = Ok x.
Proof. exact replace_last_line_ok_fact. Qed.
Print Assumptions replace_last_line_ok.

(* the status line is exactly as wide as the terminal and is one line *)
Theorem set_length_len : forall (t e r : text) (len : Z),
  0 <= len -> length e = 1%nat -> set_length t len e = Ok r -> Z.of_nat (length r) = len.
Proof. exact set_length_len_fact. Qed.
Print Assumptions set_length_len.

Theorem set_length_ok : forall t e len, 0 <= len -> exists r, set_length t len e = Ok r.
Proof. exact set_length_ok_fact. Qed.
Print Assumptions set_length_ok.

Theorem set_length_one_line : forall t e r len, has_nl e = false -> set_length t len e = Ok r -> has_nl r = false.
Proof. exact set_length_one_line_fact. Qed.
Print Assumptions set_length_one_line.

From Servitor Require Import Oracles.
From Servitor.Facts Require Import OracleFacts.
(* the oracle applied to the implementation's frames *)
Theorem center_height_ok :
  forall (p c s : text) (h : Z), 1 <= h -> height_ok h (center_vertically p c s h) = true.
Proof. exact center_height_ok_fact. Qed.
Print Assumptions center_height_ok.

(* ---- the UI frame: for EVERY UI state (not only reachable ones), all six modes, with or without
   a status line, and every height >= 2: if the frame is computed at all it has exactly
   u_height lines (that it IS computed in every reachable state is view_no_panic in C07) ---- *)
From Servitor Require Import Style History Feed Ui.
From Servitor.Facts Require Import UiFacts.
Theorem view_height :
  forall (I C : Type) (preload : Z) (col : colors) (full_text preview_text : I -> Z -> text)
  (s : ui I C) (t : text),
  2 <= u_height I C s ->
  view I C preload col full_text preview_text s = Ok t -> height t = u_height I C s.
Proof. exact view_height_fact. Qed.
Print Assumptions view_height.

(* Non-vacuity, and the geometry the pinned tree got wrong: exactly one spare row *)
Example c16_example : height (center_vertically [97;10;98] [99] [100] 2)%N = 2.
Proof. vm_compute. reflexivity. Qed.

(* EVERY frame emitted along EVERY history of keys, resizes and background completions from the start states (C07: start_open_ok, start_feed_ok, subcommand_start) was computed without a panic and has exactly as many lines as the terminal had rows at that moment *)
Theorem every_frame_from :
  forall (I C : Type) (preload : Z) (parents : I -> nat -> list I * option I)
  (children : I -> option C) (harvest : C -> nat -> nat -> list I * option C * nat)
  (select_link : I -> Z -> option text) (creators recipients : I -> option (list I))
  (actor_of : I -> option I) (media pfp banner : I -> option text)
  (open_link open_user : text -> Ui.opened I C) (feed_named : text -> option C)
  (hook_fails : text -> option text) (msg_unknown_feed msg_bad_command : text -> text)
  (col : Style.colors) (full_text preview_text : I -> Z -> text)
  (s0 s : Ui.ui I C) (sh : Ui.shown I C),
  UiFacts.ui_inv I C s0 ->
  frames_inv I C s0 ->
  reachable_from I C preload parents children harvest select_link creators recipients actor_of
  media pfp banner open_link open_user feed_named hook_fails msg_unknown_feed
  msg_bad_command s0 s ->
  In sh (Ui.u_frames I C s) ->
  StyleFacts.colors_ok col ->
  0 <= Ui.u_width I C (ui_of_shown I C sh) ->
  exists t : text,
  Ui.view I C preload col full_text preview_text (ui_of_shown I C sh) = Ok t /\
  (2 <= Ui.u_height I C (ui_of_shown I C sh) ->
  height t = Ui.u_height I C (ui_of_shown I C sh)).
Proof. exact every_frame_from_fact. Qed.
Print Assumptions every_frame_from.

