(* C15 - Rendered markup fits the requested width and depends only on content and width.
   [render_with_links] is the model of hypertext (and, through goldmark's HTML, markdown)
   renderWithLinks over the tree html.ParseFragment returns.  Only property theorems here. *)

From Servitor Require Import Base Unicode Ansi AnsiSpec Term Style Html Gemtext Plaintext.
From Servitor.Facts Require Import StyleFacts HtmlFacts LinkFacts.
Local Open Scope Z_scope.

(* for EVERY tree and every width >= 1, every printed line re-scans to at most w visible characters (from the final whole-output wrap, however the inner blocks behave at exhausted widths) *)
Theorem render_fits :
  forall (col : colors) (ns : list node) (w : Z),
  1 <= w ->
  colors_ok col ->
  Forall (fun l : text => clen (expand l) <= w) (split_nl (fst (render_with_links col ns w))).
Proof. exact render_fits_fact. Qed.
Print Assumptions render_fits.

(* the rendering is a well-formed styled text whose letters are all printable *)
Theorem render_good :
  forall (col : colors) (ns : list node) (w : Z),
  colors_ok col -> good (fst (render_with_links col ns w)).
Proof. exact render_good_fact. Qed.
Print Assumptions render_good.

(* the link list does not depend on the width *)
Theorem labels_width_independent :
  forall (col : colors) (ns : list node) (w1 w2 : Z),
  snd (render_full col ns w1) = snd (render_full col ns w2).
Proof. exact labels_width_independent_fact. Qed.
Print Assumptions labels_width_independent.

Theorem gem_links_width_independent :
  forall (col : colors) (t : text) (w1 w2 : Z),
  snd (gem_render_with_links col t w1) = snd (gem_render_with_links col t w2).
Proof. exact gem_links_width_independent_fact. Qed.
Print Assumptions gem_links_width_independent.

Theorem plain_links_width_independent :
  forall (col : colors) (t : text) (w1 w2 : Z),
  snd (plain_render_with_links col t w1) = snd (plain_render_with_links col t w2).
Proof. exact plain_links_width_independent_fact. Qed.
Print Assumptions plain_links_width_independent.

From Servitor.Facts Require Import MarkupFacts.
(* gemtext (with the repair: the renderer wraps) and plain text, for every scrubbed content *)
Theorem gem_render_fits :
  forall (col : colors) (t : text) (w : Z),
  1 <= w ->
  colors_ok col ->
  clean t ->
  Forall (fun l : text => clen (expand l) <= w)
  (split_nl (fst (gem_render_with_links col t w))).
Proof. exact gem_render_fits_fact. Qed.
Print Assumptions gem_render_fits.

Theorem plain_render_fits :
  forall (col : colors) (t : text) (w : Z),
  1 <= w ->
  colors_ok col ->
  clean t ->
  Forall (fun l : text => clen (expand l) <= w)
  (split_nl (fst (plain_render_with_links col t w))).
Proof. exact plain_render_fits_fact. Qed.
Print Assumptions plain_render_fits.

(* History independence.  The per-markup cache is the two-field state machine (cached text,
   cached width); Render w returns the cached text iff the widths are equal and otherwise
   recomputes and overwrites both.  For ANY pure rendering function f (the three renderers are
   functions of content and width only - they are Gallina functions) and ANY sequence of
   widths, the k-th Render returns f wk. *)
Section Cache.
Variable f : Z -> text.
Definition cache_step (st : text * Z) (w : Z) : (text * Z) * text :=
  if Z.eqb (snd st) w then (st, fst st) else ((f w, w), f w).
Fixpoint cache_run (st : text * Z) (ws : list Z) : list text :=
  match ws with [] => [] | w :: r => let (st', out) := cache_step st w in out :: cache_run st' r end.
Lemma cache_inv st ws : fst st = f (snd st) -> cache_run st ws = map f ws.
Proof.
  revert st; induction ws as [|w r IH]; intros st H; [reflexivity|].
  cbn [cache_run map]. unfold cache_step. destruct (Z.eqb (snd st) w) eqn:E.
  - apply Z.eqb_eq in E. rewrite IH by exact H. rewrite H, E. reflexivity.
  - rewrite IH by reflexivity. reflexivity.
Qed.
End Cache.

Theorem render_cache_pure :
  forall (f : Z -> text) (ws : list Z), cache_run f (f 80, 80) ws = map f ws.
Proof. intros f ws. apply cache_inv. reflexivity. Qed.
Print Assumptions render_cache_pure.
