(* C11 - A feed is the newest-first merge of its sources, each item exactly once.
   Sources are abstract containers obeying the lazy-list contract (hypothesis harvest_spec, which
   C10 establishes for collections): [rest k b] is what a source position still has to give.
   [merged] is the textbook k-way merge: repeatedly take the head with the latest timestamp, the
   first list winning ties.  Only property theorems here. *)

From Coq Require Import Permutation.
From Servitor Require Import Base Splicer.
From Servitor.Facts Require Import SplicerFacts.

(* a request returns exactly the next q items of the merge after skipping start; the continuation denotes the rest of the merge; the feed ends (None) exactly when fewer than q items were left *)
Theorem sp_harvest_correct :
  forall (I C : Type) (stamp : I -> Z) (charvest : C -> nat -> nat -> list I * option C * nat)
  (rest : option C -> nat -> list I),
  (forall b : nat, rest None b = []) ->
  (forall (c : C) (q b : nat) (items : list I) (k : option C) (b' : nat),
  charvest c q b = (items, k, b') ->
  items = firstn q (rest (Some c) b) /\ rest k b' = skipn q (rest (Some c) b)) ->
  forall (sp : splicer I C) (q start : nat) (out : list I) (k : option (splicer I C)),
  sp_harvest stamp charvest sp q start = (out, k) ->
  out = firstn q (skipn start (merged I stamp (map (denote I C rest) sp))) /\
  match k with
  | Some sp' =>
  length out = q /\
  merged I stamp (map (denote I C rest) sp') =
  skipn (start + q) (merged I stamp (map (denote I C rest) sp))
  | None => length out < q
  end.
Proof. exact sp_harvest_correct_fact. Qed.
Print Assumptions sp_harvest_correct.

(* asking an exhausted feed again yields nothing and ends *)
Theorem sp_exhaustion :
  forall (I C : Type) (stamp : I -> Z) (charvest : C -> nat -> nat -> list I * option C * nat)
  (rest : option C -> nat -> list I),
  (forall b : nat, rest None b = []) ->
  (forall (c : C) (q b : nat) (items : list I) (k : option C) (b' : nat),
  charvest c q b = (items, k, b') ->
  items = firstn q (rest (Some c) b) /\ rest k b' = skipn q (rest (Some c) b)) ->
  forall (sp : list (source I C)) (q start : nat),
  0 < q ->
  merged I stamp (map (denote I C rest) sp) = [] ->
  sp_harvest stamp charvest sp q start = ([], None).
Proof. exact sp_exhaustion_fact. Qed.
Print Assumptions sp_exhaustion.

(* every item of every source exactly once *)
Theorem merge_perm :
  forall (I : Type) (stamp : I -> Z) (ls : list (list I)),
  Permutation (merged I stamp ls) (concat ls).
Proof. exact merge_perm_fact. Qed.
Print Assumptions merge_perm.

(* at every step the chosen item has the latest timestamp among the current heads, ties going to the source listed first *)
Theorem merge_step :
  forall (I : Type) (stamp : I -> Z) (ls : list (list I)) (i : nat) (x : I),
  pick I stamp ls 0 None = Some (i, x) ->
  exists r : list I,
  nth_error ls i = Some (x :: r) /\
  (forall (j : nat) (y : I) (r' : list I),
  nth_error ls j = Some (y :: r') ->
  (stamp y <= stamp x)%Z /\ (j < i -> (stamp y < stamp x)%Z)).
Proof. exact merge_step_fact. Qed.
Print Assumptions merge_step.

(* each source's own order is preserved *)
Theorem merge_order :
  forall (I : Type) (stamp : I -> Z) (ls : list (list I)) (i : nat) (l : list I),
  nth_error ls i = Some l -> subseq I l (merged I stamp ls).
Proof. exact merge_order_fact. Qed.
Print Assumptions merge_order.
