(* C06 - Rendering any fetched object at any terminal size neither crashes nor hangs.  (PARTIAL)
   The rendering model (Html/Gemtext/Plaintext/Style/Ansi) consists of total Gallina functions
   over ALL trees, texts and widths in Z; the spots where the Go code could panic are modelled
   explicitly (res/Panic) and shown unreachable or repaired: superscript of a negative number,
   strings.Repeat with a negative count (<hr>), link numbers below 1 (select).  The equality of
   model and code is what the C12/C15/C01 correspondences establish; "promptly" is observed, and
   a polynomial size bound is REFUTED for indenting blocks nested beyond the width (recorded
   finding C06/indent-depth-exceeds-width).  Only property theorems here. *)

From Servitor Require Import Base Unicode Ansi Style Html HtmlTags.
From Servitor.Facts Require Import SizeFacts LinkFacts.
Local Open Scope Z_scope.
From Servitor Require Import Mime Pub.
From Servitor.Facts Require Import HtmlFacts MarkupFacts PubFacts.

(* no tree, width or link state is without a result *)
Theorem render_total :
  forall (col : colors) (ns : list node) (w : Z),
  exists (t : text) (links : list text), render_with_links col ns w = (t, links).
Proof. exact render_total_fact. Qed.
Print Assumptions render_total.

(* link numbers are list lengths, for which superscript cannot panic *)
Theorem superscript_nat_ok :
  forall n : nat, exists t : text, superscript (Z.of_nat n) = Ok t.
Proof. exact superscript_nat_ok_fact. Qed.
Print Assumptions superscript_nat_ok.

(* (it would for a negative number: the case is excluded by construction) *)
Theorem superscript_negative :
  forall z : Z, z < 0 -> superscript z = Panic.
Proof. exact superscript_negative_fact. Qed.
Print Assumptions superscript_negative.

(* <hr> at a non-positive width is an empty block (the repaired negative Repeat count) *)
Theorem hr_clamped :
  forall (col : colors) (p pre : bool) (w : Z) (st : lstate),
  w <= 0 -> render_node col (NElem k_hr [] []) p pre w st = (block [], st).
Proof. exact hr_clamped_fact. Qed.
Print Assumptions hr_clamped.

(* link numbers below 1 or above N select nothing instead of indexing out of range *)
Theorem outside_opens_nothing :
  forall (links : list text) (k : Z),
  k < 1 \/ Z.of_nat (length links) < k -> select links k = None.
Proof. exact outside_opens_nothing_fact. Qed.
Print Assumptions outside_opens_nothing.

(* no polynomial bound: from depth 4 on, every further blockquote level at width 3 more than doubles the line count *)
Theorem render_size_refuted :
  forallb (fun d : nat => (2 * nested_lines d 3 <=? nested_lines (S d) 3)%nat)
  [4%nat; 5%nat; 6%nat; 7%nat] = true.
Proof. exact render_size_refuted_fact. Qed.
Print Assumptions render_size_refuted.

(* Preview of a post never panics (Snip is called with 4 lines): for every post, every field state and every width in Z *)
Theorem post_preview_total :
  forall (col : colors) (p : post) (w : Z), post_preview col p w <> Panic.
Proof. exact post_preview_total_fact. Qed.
Print Assumptions post_preview_total.
