(* C14 - Styling applies to exactly the intended characters and never leaks.
   [display] is what a terminal shows: each rune with the set of SGR attributes active when it
   is printed, plus the state left at the end (Term.v). *)
From Servitor Require Import Base Unicode Ansi AnsiSpec Term.
From Servitor.Facts Require Import TermFacts.

(* a terminal shows each cell's letter with exactly the attributes named in the cell's prefix and
   is back in the neutral state after every cell *)
From Servitor Require Import Mime Pub.
From Servitor.Facts Require Import HtmlFacts MarkupFacts PubFacts.
From Servitor.Facts Require Import HtmlFacts FrameFacts.

Theorem display_wf : forall cs : list cell, wf_cells cs ->
  display (collapse cs) = (map (fun c => (letter c, cell_attrs c)) cs, []).
Proof. exact display_wf_fact. Qed.
Print Assumptions display_wf.

(* styling keeps the text well-formed ... *)
Theorem apply_cells_wf : forall (style : text) (cs : list cell),
  wf_cells cs -> forallb is_param style = true -> style <> [] -> style <> [CH_0] ->
  let cs' := map (fun c => if is_nl_cell c then mkcell [] NL false
                           else mkcell (ESC :: LBR :: style ++ CH_m :: pre c) (letter c) true) cs in
  wf_cells cs' /\ apply_cells style cs = collapse cs'.
Proof. exact apply_cells_wf_fact. Qed.
Print Assumptions apply_cells_wf.

(* ... and adds exactly that attribute to every non-newline character; newlines stay bare and
   the state at the end is neutral, however the calls are nested *)
Theorem apply_attrs : forall style cs,
  wf_cells cs -> forallb is_param style = true -> style <> [] -> style <> [CH_0] ->
  display (apply_cells style cs) =
    (map (fun c => if is_nl_cell c then (NL, []) else (letter c, style :: cell_attrs c)) cs, []).
Proof. exact apply_attrs_fact. Qed.
Print Assumptions apply_attrs.

(* no attribute is ever active across a line break or after the end of a string *)
Theorem neutral_wf : forall cs, wf_cells cs -> neutral_b (collapse cs) = true.
Proof. exact neutral_wf_fact. Qed.
Print Assumptions neutral_wf.

(* unstyled text is well-formed *)
Theorem expand_plain : forall t : text, ~ In ESC t -> expand t = map (fun c => mkcell [] c false) t.
Proof. exact expand_plain_fact. Qed.
Print Assumptions expand_plain.

Theorem plain_wf : forall t, ~ In ESC t -> wf_cells (map (fun c => mkcell [] c false) t).
Proof. exact plain_wf_fact. Qed.
Print Assumptions plain_wf.

(* ---- nesting and concatenation of the style functions, and layout afterwards ---- *)
From Servitor Require Import Oracles Style.
From Servitor.Facts Require Import StyleFacts.

(* on well-formed text Apply acts cell-wise *)
Theorem apply_wf_text :
  forall (cs : list cell) (style : text),
  wf_cells cs -> apply (collapse cs) style = apply_cells style cs.
Proof. exact apply_wf_text_fact. Qed.
Print Assumptions apply_wf_text.

(* every style function contributes a non-clearing parameter string (given validated colours, C19) *)
Theorem sfun_param_ok :
  forall (col : colors) (f : sfun),
  colors_ok col ->
  forallb is_param (sfun_param col f) = true /\
  sfun_param col f <> [] /\ sfun_param col f <> [CH_0].
Proof. exact sfun_param_ok_fact. Qed.
Print Assumptions sfun_param_ok.

Theorem sterm_eval_wf :
  forall (col : colors) (x : sterm),
  colors_ok col ->
  sterm_plain_ok x ->
  exists cs : list cell,
  wf_cells cs /\
  sterm_eval col x = collapse cs /\
  map (fun c : cell => (letter c, cell_attrs c)) cs = sterm_expect col [] x.
Proof. exact sterm_eval_wf_fact. Qed.
Print Assumptions sterm_eval_wf.

(* every visible character carries exactly the attributes of the style functions wrapped around it, however nested or concatenated; nothing is active at the end *)
Theorem style_compose :
  forall (col : colors) (x : sterm),
  colors_ok col ->
  sterm_plain_ok x -> display (sterm_eval col x) = (sterm_expect col [] x, []).
Proof. exact style_compose_fact. Qed.
Print Assumptions style_compose.

Theorem style_neutral :
  forall (col : colors) (x : sterm),
  colors_ok col -> sterm_plain_ok x -> neutral_b (sterm_eval col x) = true.
Proof. exact style_neutral_fact. Qed.
Print Assumptions style_neutral.

(* word-wrapping keeps the attribute set of every visible character it keeps; the result is neutral at every line end *)
Theorem wrap_attrs :
  forall (t : text) (w : Z),
  (1 <= w)%Z -> wf_cells (expand t) -> layout_attrs_ok t (wrap t w) = true.
Proof. exact wrap_attrs_fact. Qed.
Print Assumptions wrap_attrs.

(* ---- documents in the four markups and error items are neutral at every line end ---- *)
From Servitor Require Import Html Gemtext Plaintext.
From Servitor.Facts Require Import HtmlFacts MarkupFacts.

Theorem render_neutral :
  forall (col : colors) (ns : list node) (w : Z),
  colors_ok col -> neutral_b (fst (render_with_links col ns w)) = true.
Proof. exact render_neutral_fact. Qed.
Print Assumptions render_neutral.

Theorem gem_render_neutral :
  forall (col : colors) (t : text) (w : Z),
  colors_ok col -> clean t -> neutral_b (fst (gem_render_with_links col t w)) = true.
Proof. exact gem_render_neutral_fact. Qed.
Print Assumptions gem_render_neutral.

Theorem plain_render_neutral :
  forall (col : colors) (t : text) (w : Z),
  colors_ok col -> clean t -> neutral_b (fst (plain_render_with_links col t w)) = true.
Proof. exact plain_render_neutral_fact. Qed.
Print Assumptions plain_render_neutral.

Theorem problem_neutral :
  forall (col : colors) (msg : text), colors_ok col -> neutral_b (problem col msg) = true.
Proof. exact problem_neutral_fact. Qed.
Print Assumptions problem_neutral.

Example c14_example :
  display (apply (apply [97; 10; 98]%N [49]%N) [52]%N)
  = ([(97, [[52]; [49]]); (10, []); (98, [[52]; [49]])]%N, []).
Proof. vm_compute. reflexivity. Qed.

(* the full text, preview and name of posts, profiles and error items are good (see C01: post_string_good ...), and good text is neutral *)
Theorem item_safe_neutral :
  forall t : text, good t -> safe_b t = true /\ neutral_b t = true.
Proof. exact item_safe_neutral_fact. Qed.
Print Assumptions item_safe_neutral.

(* whole frames are good, hence neutral at every line break (centring cuts at line boundaries, the status line replaces a whole line) *)
Theorem view_good :
  forall (I C : Type) (preload : Z) (col : Style.colors)
  (full_text preview_text : I -> Z -> text) (s : Ui.ui I C) (t : text),
  StyleFacts.colors_ok col ->
  (forall (i : I) (w : Z), good (full_text i w)) ->
  (forall (i : I) (w : Z), good (preview_text i w)) ->
  Ui.view I C preload col full_text preview_text s = Ok t -> good t.
Proof. exact view_good_fact. Qed.
Print Assumptions view_good.
