(* C18 - Browser history and the feed cursor behave as their reference models.
   This file holds only the property theorems; each is closed by [exact <fact>]. *)
From Servitor Require Import Base History Feed.
From Servitor.Facts Require Import HistoryFacts FeedFacts.

(* History = list with a cursor: for every operation sequence the observations (current page,
   emptiness) after every step equal those of the zipper in which add drops the forward
   entries and nothing else, and back/forward saturate. *)

Theorem history_refines_zipper :
  forall (A : Type) (ops : list (hop A)), h_run h_init ops = z_run z_init ops.
Proof. exact history_refines_zipper_fact. Qed.
Print Assumptions history_refines_zipper.

(* the current page is defined (no index panic) in every state reached after some add *)
Theorem history_current_defined :
  forall (A : Type) (ops1 ops2 : list (hop A)) (x : A),
    h_current (fold_left h_step (ops1 ++ HAdd x :: ops2) h_init) <> None.
Proof. exact history_current_defined_fact. Qed.
Print Assumptions history_current_defined.

Theorem history_add_spec :
  forall (A : Type) (z : zip A) (x c : A),
    zc z = Some c -> z_step z (HAdd x) = {| zb := c :: zb z; zc := Some x; zf := [] |}.
Proof. exact history_add_spec_fact. Qed.
Print Assumptions history_add_spec.

(* Feed = two-sided sequence around the opened item: after every sequence of append / prepend /
   moves on a feed created from one item or from a list, contains / get (incl. whether it
   panics) / is_parent / is_child at EVERY offset equal those of the reference. *)
Theorem feed_refines_two_sided_list :
  forall (A : Type) (i : finit A) (ops : list (fop A)) (off : Z),
    f_obs (f_run i ops) off = t_obs (t_run i ops) off.
Proof. exact feed_refines_fact. Qed.
Print Assumptions feed_refines_two_sided_list.

Theorem feed_current :
  forall (A : Type) (i : finit A) (ops : list (fop A)),
    f_current (f_run i ops) = t_at (t_run i ops) (pos (t_run i ops)).
Proof. exact feed_current_fact. Qed.
Print Assumptions feed_current.

(* appending and prepending never move or lose an existing item, nor the cursor *)
Theorem feed_grow_keeps :
  forall (A : Type) (t : tsl A) (xs : list A) (p : Z) (x : A),
    t_at t p = Some x ->
    t_at (t_step t (FAppend xs)) p = Some x /\ t_at (t_step t (FPrepend xs)) p = Some x /\
    pos (t_step t (FAppend xs)) = pos t /\ pos (t_step t (FPrepend xs)) = pos t.
Proof. exact feed_grow_keeps_fact. Qed.
Print Assumptions feed_grow_keeps.

(* moves stay within bounds *)
Theorem feed_moves_in_bounds :
  forall (A : Type) (t : tsl A) (o : fop A),
    t_has t (pos t) = true -> t_has (t_step t o) (pos (t_step t o)) = true.
Proof. exact feed_moves_in_bounds_fact. Qed.
Print Assumptions feed_moves_in_bounds.

(* Non-vacuity: a concrete run exercising every operation. *)
Example c18_example :
  f_obs (f_run (FCreate 7%nat) [FAppend [1;2]%nat; FPrepend [3]%nat; FDown; FDown; FDown; FUp; FCenter; FUp; FUp]) 1
  = (true, Ok (Some 7%nat), false, false).
Proof. vm_compute. reflexivity. Qed.

(* in every reachable state the slice holds exactly the content of the zipper (pages behind, current, pages ahead, in order) and the index is in bounds *)
Theorem history_state_shape :
  forall (A : Type) (ops : list (hop A)),
  let h := fold_left h_step ops h_init in
  let z := fold_left z_step ops z_init in
  h_elems h = z_elems A z /\
  (zc z <> None -> h_index h = length (zb z)) /\
  (h_elems h = [] \/ h_index h < length (h_elems h)).
Proof. exact history_state_shape_fact. Qed.
Print Assumptions history_state_shape.

(* back and forward are mutually inverse away from the ends and the identity at the ends (saturation) *)
Theorem history_back_forward :
  forall (A : Type) (z : zip A) (c : A),
  zc z = Some c ->
  (zb z <> [] -> z_step (z_step z HBack) HForward = z) /\
  (zf z <> [] -> z_step (z_step z HForward) HBack = z) /\
  (zb z = [] -> z_step z HBack = z) /\ (zf z = [] -> z_step z HForward = z).
Proof. exact history_back_forward_fact. Qed.
Print Assumptions history_back_forward.

(* back and forward never change the stored pages *)
Theorem history_moves_keep_elems :
  forall (A : Type) (ops : list (hop A)) (o : hop A),
  o = HBack \/ o = HForward ->
  h_elems (h_step (fold_left h_step ops h_init) o) = h_elems (fold_left h_step ops h_init).
Proof. exact history_moves_keep_elems_fact. Qed.
Print Assumptions history_moves_keep_elems.

(* opening a page keeps every entry up to the current one in place, drops exactly the forward entries, and shows the new page *)
Theorem history_add_keeps_prefix :
  forall (A : Type) (ops : list (hop A)) (x : A),
  let h := fold_left h_step ops h_init in
  h_elems h <> [] ->
  h_elems (h_add h x) = firstn (h_index h + 1) (h_elems h) ++ [x] /\
  length (h_elems (h_add h x)) = h_index h + 2 /\ h_current (h_add h x) = Some x.
Proof. exact history_add_keeps_prefix_fact. Qed.
Print Assumptions history_add_keeps_prefix.

(* append adds exactly the given items at the bottom, prepend exactly the given items at the top (nearest first), and moves change nothing but the cursor *)
Theorem feed_growth_exact :
  forall (A : Type) (t : tsl A) (xs : list A),
  t_items A (t_step t (FAppend xs)) = t_items A t ++ xs /\
  ((mid t = None -> ups t = []) -> t_items A (t_step t (FPrepend xs)) = rev xs ++ t_items A t) /\
  t_items A (t_step t FUp) = t_items A t /\
  t_items A (t_step t FDown) = t_items A t /\ t_items A (t_step t FCenter) = t_items A t.
Proof. exact feed_growth_exact_fact. Qed.
Print Assumptions feed_growth_exact.

(* in every reachable state nothing lies above an empty centre (the side condition of the prepend clause) *)
Theorem feed_mid_ups :
  forall (A : Type) (i : finit A) (ops : list (fop A)),
  mid (t_run i ops) = None -> ups (t_run i ops) = [].
Proof. exact feed_mid_ups_fact. Qed.
Print Assumptions feed_mid_ups.
