(* C18 - Browser history and the feed cursor behave as their reference models.
   This file holds only the property theorems; each is closed by [exact <fact>]. *)
From Servitor Require Import Base History Feed.
From Servitor.Facts Require Import HistoryFacts FeedFacts.

(* History = list with a cursor: for every operation sequence the observations (current page,
   emptiness) after every step equal those of the zipper in which add drops the forward
   entries and nothing else, and back/forward saturate. *)
Theorem history_refines_zipper :
  forall (A : Type) (ops : list (hop A)), h_run h_init ops = z_run z_init ops.
Proof. exact history_refines_zipper_fact. Qed.
Print Assumptions history_refines_zipper.

(* the current page is defined (no index panic) in every state reached after some add *)
Theorem history_current_defined :
  forall (A : Type) (ops1 ops2 : list (hop A)) (x : A),
    h_current (fold_left h_step (ops1 ++ HAdd x :: ops2) h_init) <> None.
Proof. exact history_current_defined_fact. Qed.
Print Assumptions history_current_defined.

Theorem history_add_spec :
  forall (A : Type) (z : zip A) (x c : A),
    zc z = Some c -> z_step z (HAdd x) = {| zb := c :: zb z; zc := Some x; zf := [] |}.
Proof. exact history_add_spec_fact. Qed.
Print Assumptions history_add_spec.

(* Feed = two-sided sequence around the opened item: after every sequence of append / prepend /
   moves on a feed created from one item or from a list, contains / get (incl. whether it
   panics) / is_parent / is_child at EVERY offset equal those of the reference. *)
Theorem feed_refines_two_sided_list :
  forall (A : Type) (i : finit A) (ops : list (fop A)) (off : Z),
    f_obs (f_run i ops) off = t_obs (t_run i ops) off.
Proof. exact feed_refines_fact. Qed.
Print Assumptions feed_refines_two_sided_list.

Theorem feed_current :
  forall (A : Type) (i : finit A) (ops : list (fop A)),
    f_current (f_run i ops) = t_at (t_run i ops) (pos (t_run i ops)).
Proof. exact feed_current_fact. Qed.
Print Assumptions feed_current.

(* appending and prepending never move or lose an existing item, nor the cursor *)
Theorem feed_grow_keeps :
  forall (A : Type) (t : tsl A) (xs : list A) (p : Z) (x : A),
    t_at t p = Some x ->
    t_at (t_step t (FAppend xs)) p = Some x /\ t_at (t_step t (FPrepend xs)) p = Some x /\
    pos (t_step t (FAppend xs)) = pos t /\ pos (t_step t (FPrepend xs)) = pos t.
Proof. exact feed_grow_keeps_fact. Qed.
Print Assumptions feed_grow_keeps.

(* moves stay within bounds *)
Theorem feed_moves_in_bounds :
  forall (A : Type) (t : tsl A) (o : fop A),
    t_has t (pos t) = true -> t_has (t_step t o) (pos (t_step t o)) = true.
Proof. exact feed_moves_in_bounds_fact. Qed.
Print Assumptions feed_moves_in_bounds.

(* Non-vacuity: a concrete run exercising every operation. *)
Example c18_example :
  f_obs (f_run (FCreate 7%nat) [FAppend [1;2]%nat; FPrepend [3]%nat; FDown; FDown; FDown; FUp; FCenter; FUp; FUp]) 1
  = (true, Ok (Some 7%nat), false, false).
Proof. vm_compute. reflexivity. Qed.
