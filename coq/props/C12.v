(* C12 - The number shown next to a link opens exactly that link.
   The renderers thread the list of link targets; ls_events is a ghost list of label events
   (number printed next to a link, its target) recorded where style.Link / LinkBlock is called.
   [numbered 0 links] = [(1,t1); ...; (N,tN)].  [select links k] is what SelectLink does with
   the body links (numbers below 1 open nothing - the repaired lower bound).
   Only property theorems here. *)

From Servitor Require Import Base Unicode Ansi Style Html Gemtext Plaintext.
From Servitor.Facts Require Import LinkFacts.
Local Open Scope Z_scope.

(* rendering ANY tree only appends targets, and every appended target is labelled with exactly its 1-based position: no repeats, no gaps, document order - anchors inside anchors, images inside anchors, media without src, anchors without href included *)
Theorem render_node_labels :
  forall (col : colors) (n : node) (parent_li pre_ws : bool) (w : Z) (st : lstate),
  exists new : list text,
  ls_links (snd (render_node col n parent_li pre_ws w st)) = ls_links st ++ new /\
  ls_events (snd (render_node col n parent_li pre_ws w st)) =
  ls_events st ++ numbered (length (ls_links st)) new.
Proof. exact render_node_labels_fact. Qed.
Print Assumptions render_node_labels.

(* the labels shown are (1,t1) ... (N,tN) where [t1..tN] is the returned link list *)
Theorem render_labels :
  forall (col : colors) (ns : list node) (w : Z),
  ls_events (snd (render_full col ns w)) = numbered 0 (ls_links (snd (render_full col ns w))).
Proof. exact render_labels_fact. Qed.
Print Assumptions render_labels.

(* typing number k opens precisely the target labelled k *)
Theorem label_opens_target :
  forall (col : colors) (ns : list node) (w : Z) (k : nat) (t : text),
  In (k, t) (ls_events (snd (render_full col ns w))) ->
  select (ls_links (snd (render_full col ns w))) (Z.of_nat k) = Some t.
Proof. exact label_opens_target_fact. Qed.
Print Assumptions label_opens_target.

(* every number in 1..N is shown and opens its target *)
Theorem inside_opens_labelled :
  forall (col : colors) (ns : list node) (w : Z) (k : nat),
  (1 <= k <= length (ls_links (snd (render_full col ns w))))%nat ->
  exists t : text,
  select (ls_links (snd (render_full col ns w))) (Z.of_nat k) = Some t /\
  In (k, t) (ls_events (snd (render_full col ns w))).
Proof. exact inside_opens_labelled_fact. Qed.
Print Assumptions inside_opens_labelled.

(* numbers outside 1..N open nothing *)
Theorem outside_opens_nothing :
  forall (links : list text) (k : Z),
  k < 1 \/ Z.of_nat (length links) < k -> select links k = None.
Proof. exact outside_opens_nothing_fact. Qed.
Print Assumptions outside_opens_nothing.

(* numbering is the same at every width *)
Theorem labels_width_independent :
  forall (col : colors) (ns : list node) (w1 w2 : Z),
  snd (render_full col ns w1) = snd (render_full col ns w2).
Proof. exact labels_width_independent_fact. Qed.
Print Assumptions labels_width_independent.

(* gemtext: the instrumented renderer is the renderer *)
Theorem gem_render_ev_erase :
  forall (col : colors) (t : text) (w : Z),
  fst (gem_render_ev col t w) = gem_render_with_links col t w.
Proof. exact gem_render_ev_erase_fact. Qed.
Print Assumptions gem_render_ev_erase.

Theorem gem_render_labels :
  forall (col : colors) (t : text) (w : Z),
  snd (gem_render_ev col t w) = numbered 0 (snd (gem_render_with_links col t w)).
Proof. exact gem_render_labels_fact. Qed.
Print Assumptions gem_render_labels.

Theorem gem_label_opens_target :
  forall (col : colors) (t : text) (w : Z) (k : nat) (u : text),
  In (k, u) (snd (gem_render_ev col t w)) ->
  select (snd (gem_render_with_links col t w)) (Z.of_nat k) = Some u.
Proof. exact gem_label_opens_target_fact. Qed.
Print Assumptions gem_label_opens_target.

(* plain text likewise *)
Theorem plain_render_ev_erase :
  forall (col : colors) (t : text) (w : Z),
  fst (plain_render_ev col t w) = plain_render_with_links col t w.
Proof. exact plain_render_ev_erase_fact. Qed.
Print Assumptions plain_render_ev_erase.

Theorem plain_render_labels :
  forall (col : colors) (t : text) (w : Z),
  snd (plain_render_ev col t w) = numbered 0 (snd (plain_render_with_links col t w)).
Proof. exact plain_render_labels_fact. Qed.
Print Assumptions plain_render_labels.

Theorem plain_label_opens_target :
  forall (col : colors) (t : text) (w : Z) (k : nat) (u : text),
  In (k, u) (snd (plain_render_ev col t w)) ->
  select (snd (plain_render_with_links col t w)) (Z.of_nat k) = Some u.
Proof. exact plain_label_opens_target_fact. Qed.
Print Assumptions plain_label_opens_target.
