(* C12 - The number shown next to a link opens exactly that link.
   The renderers thread the list of link targets; ls_events is a ghost list of label events
   (number printed next to a link, its target) recorded where style.Link / LinkBlock is called.
   [numbered 0 links] = [(1,t1); ...; (N,tN)].  [select links k] is what SelectLink does with
   the body links (numbers below 1 open nothing - the repaired lower bound).
   Only property theorems here. *)

From Servitor Require Import Base Unicode Ansi Style Html Gemtext Plaintext.
From Servitor.Facts Require Import LinkFacts.
Local Open Scope Z_scope.
From Servitor Require Import Mime Pub.
From Servitor.Facts Require Import HtmlFacts MarkupFacts PubFacts.
From Servitor Require Import Json Object Links.
From Servitor.Facts Require Import LinksFacts.

(* rendering ANY tree only appends targets, and every appended target is labelled with exactly its 1-based position: no repeats, no gaps, document order - anchors inside anchors, images inside anchors, media without src, anchors without href included *)
Theorem render_node_labels :
  forall (col : colors) (n : node) (parent_li pre_ws : bool) (w : Z) (st : lstate),
  exists new : list text,
  ls_links (snd (render_node col n parent_li pre_ws w st)) = ls_links st ++ new /\
  ls_events (snd (render_node col n parent_li pre_ws w st)) =
  ls_events st ++ numbered (length (ls_links st)) new.
Proof. exact render_node_labels_fact. Qed.
Print Assumptions render_node_labels.

(* the labels shown are (1,t1) ... (N,tN) where [t1..tN] is the returned link list *)
Theorem render_labels :
  forall (col : colors) (ns : list node) (w : Z),
  ls_events (snd (render_full col ns w)) = numbered 0 (ls_links (snd (render_full col ns w))).
Proof. exact render_labels_fact. Qed.
Print Assumptions render_labels.

(* typing number k opens precisely the target labelled k *)
Theorem label_opens_target :
  forall (col : colors) (ns : list node) (w : Z) (k : nat) (t : text),
  In (k, t) (ls_events (snd (render_full col ns w))) ->
  select (ls_links (snd (render_full col ns w))) (Z.of_nat k) = Some t.
Proof. exact label_opens_target_fact. Qed.
Print Assumptions label_opens_target.

(* every number in 1..N is shown and opens its target *)
Theorem inside_opens_labelled :
  forall (col : colors) (ns : list node) (w : Z) (k : nat),
  (1 <= k <= length (ls_links (snd (render_full col ns w))))%nat ->
  exists t : text,
  select (ls_links (snd (render_full col ns w))) (Z.of_nat k) = Some t /\
  In (k, t) (ls_events (snd (render_full col ns w))).
Proof. exact inside_opens_labelled_fact. Qed.
Print Assumptions inside_opens_labelled.

(* numbers outside 1..N open nothing *)
Theorem outside_opens_nothing :
  forall (links : list text) (k : Z),
  k < 1 \/ Z.of_nat (length links) < k -> select links k = None.
Proof. exact outside_opens_nothing_fact. Qed.
Print Assumptions outside_opens_nothing.

(* numbering is the same at every width *)
Theorem labels_width_independent :
  forall (col : colors) (ns : list node) (w1 w2 : Z),
  snd (render_full col ns w1) = snd (render_full col ns w2).
Proof. exact labels_width_independent_fact. Qed.
Print Assumptions labels_width_independent.

(* gemtext: the instrumented renderer is the renderer *)
Theorem gem_render_ev_erase :
  forall (col : colors) (t : text) (w : Z),
  fst (gem_render_ev col t w) = gem_render_with_links col t w.
Proof. exact gem_render_ev_erase_fact. Qed.
Print Assumptions gem_render_ev_erase.

Theorem gem_render_labels :
  forall (col : colors) (t : text) (w : Z),
  snd (gem_render_ev col t w) = numbered 0 (snd (gem_render_with_links col t w)).
Proof. exact gem_render_labels_fact. Qed.
Print Assumptions gem_render_labels.

Theorem gem_label_opens_target :
  forall (col : colors) (t : text) (w : Z) (k : nat) (u : text),
  In (k, u) (snd (gem_render_ev col t w)) ->
  select (snd (gem_render_with_links col t w)) (Z.of_nat k) = Some u.
Proof. exact gem_label_opens_target_fact. Qed.
Print Assumptions gem_label_opens_target.

(* plain text likewise *)
Theorem plain_render_ev_erase :
  forall (col : colors) (t : text) (w : Z),
  fst (plain_render_ev col t w) = plain_render_with_links col t w.
Proof. exact plain_render_ev_erase_fact. Qed.
Print Assumptions plain_render_ev_erase.

Theorem plain_render_labels :
  forall (col : colors) (t : text) (w : Z),
  snd (plain_render_ev col t w) = numbered 0 (snd (plain_render_with_links col t w)).
Proof. exact plain_render_labels_fact. Qed.
Print Assumptions plain_render_labels.

Theorem plain_label_opens_target :
  forall (col : colors) (t : text) (w : Z) (k : nat) (u : text),
  In (k, u) (snd (plain_render_ev col t w)) ->
  select (snd (plain_render_with_links col t w)) (Z.of_nat k) = Some u.
Proof. exact plain_label_opens_target_fact. Qed.
Print Assumptions plain_label_opens_target.

(* the attachments of a post are printed as one link block per attachment, the j-th carrying the number (body links + j): post_events is the list of (number, attachment) pairs *)
Theorem post_supplement_spec :
  forall (col : colors) (p : post) (w : Z) (atts : list link),
  p_attachments p = FOk atts ->
  atts <> [] ->
  post_supplement col p w = Some (join_nl (map (att_line col w) (post_events p))).
Proof. exact post_supplement_spec_fact. Qed.
Print Assumptions post_supplement_spec.

(* those numbers continue the body's numbering without repeats or gaps *)
Theorem att_events_numbers :
  forall (n : nat) (atts : list link), map fst (att_events n atts) = seq n (length atts).
Proof. exact att_events_numbers_fact. Qed.
Print Assumptions att_events_numbers.

(* typing a number within the body's links opens that body link *)
Theorem post_select_body :
  forall (p : post) (k : Z) (t : text),
  select (p_body_links p) k = Some t -> post_select_link p k = Some (t, mt_unknown).
Proof. exact post_select_body_fact. Qed.
Print Assumptions post_select_body.

(* typing the number printed next to an attachment selects exactly that attachment's link (nothing when it has no URL) *)
Theorem post_select_attachment :
  forall (p : post) (k : nat) (a : link),
  In (k, a) (post_events p) -> post_select_link p (Z.of_nat k) = link_select a mt_unknown.
Proof. exact post_select_attachment_fact. Qed.
Print Assumptions post_select_attachment.

(* numbers outside 1..N open nothing *)
Theorem post_select_outside :
  forall (p : post) (k : Z),
  k < 1 \/ Z.of_nat (length (p_body_links p) + length (post_events p)) < k ->
  post_select_link p k = None.
Proof. exact post_select_outside_fact. Qed.
Print Assumptions post_select_outside.

(* every number in 1..N is either a body link's or an attachment's label *)
Theorem post_select_inside :
  forall (p : post) (k : Z),
  1 <= k <= Z.of_nat (length (p_body_links p) + length (post_events p)) ->
  (exists t : text, select (p_body_links p) k = Some t) \/
  (exists a : link, In (Z.to_nat k, a) (post_events p)).
Proof. exact post_select_inside_fact. Qed.
Print Assumptions post_select_inside.

(* profiles - the numbers are those of the bio's links *)
Theorem actor_select :
  forall (a : actor) (k : Z),
  actor_select_link a k =
  match select (a_bio_links a) k with
  | Some t => Some (t, mt_unknown)
  | None => None
  end.
Proof. exact actor_select_fact. Qed.
Print Assumptions actor_select.

(* selecting a link yields its own URL *)
Theorem link_select_uri :
  forall (l : link) (d : media_type) (u : text) (m : media_type),
  link_select l d = Some (u, m) -> l_uri l = FOk u.
Proof. exact link_select_uri_fact. Qed.
Print Assumptions link_select_uri.

Theorem link_select_none :
  forall (l : link) (d : media_type),
  link_select l d = None <-> (forall u : text, l_uri l <> FOk u).
Proof. exact link_select_none_fact. Qed.
Print Assumptions link_select_none.

(* FROM THE JSON: the number printed next to the j-th attachment selects the link built from the j-th element of the document's attachment list *)
Theorem attachment_opens_json_link :
  forall (url_parse : text -> option text) (o : obj) (p : post) (ls : list link) 
  (j : nat) (l : link),
  p_attachments p = post_attachments_of url_parse o ->
  post_attachments_of url_parse o = FOk ls ->
  nth_error ls j = Some l ->
  post_select_link p (Z.of_nat (length (p_body_links p) + j + 1)) = link_select l mt_unknown /\
  (exists (vs : list jv) (v : jv),
  get_list o s_attachment = Present vs /\
  nth_error vs j = Some v /\ new_link url_parse v = FOk l).
Proof. exact attachment_opens_json_link_fact. Qed.
Print Assumptions attachment_opens_json_link.

(* links are built element by element, same length, same order *)
Theorem all_links_spec :
  forall (url_parse : text -> option text) (vs : list jv) (ls : list link),
  all_links url_parse vs = FOk ls <->
  Forall2 (fun (v : jv) (l : link) => new_link url_parse v = FOk l) vs ls.
Proof. exact all_links_spec_fact. Qed.
Print Assumptions all_links_spec.

(* the address of a Link is its href, of every other kind its url *)
Theorem new_link_uri :
  forall (url_parse : text -> option text) (o : list (text * jv)) (l : link),
  new_link url_parse (JObj o) = FOk l ->
  l_uri l =
  fval_of (get_url url_parse o (if text_eqb (l_kind l) k_link then s_lhref else s_lurl)).
Proof. exact new_link_uri_fact. Qed.
Print Assumptions new_link_uri.

(* choosing among candidates (media of audio/video/image posts, profile picture, banner) never invents a link *)
Theorem select_best_in :
  forall (ls : list link) (sup : text) (l : link), select_best ls sup = Some l -> In l ls.
Proof. exact select_best_in_fact. Qed.
Print Assumptions select_best_in.

(* a candidate of the wanted supertype beats every other, and among candidates of equal standing the larger area wins *)
Theorem select_best_optimal :
  forall (ls : list link) (sup : text) (l : link),
  links_wf sup ls ->
  select_best ls sup = Some l ->
  forall l' : link,
  In l' ls ->
  (sup_matches l' sup = Some true -> sup_matches l sup = Some true) /\
  (sup_matches l' sup = sup_matches l sup ->
  exists r r' : Z, rating l = Some r /\ rating l' = Some r' /\ r' <= r).
Proof. exact select_best_optimal_fact. Qed.
Print Assumptions select_best_optimal.

(* the chosen link is the FIRST optimal one *)
Theorem select_best_first_of_ties :
  forall (ls : list link) (sup : text) (l : link),
  links_wf sup ls ->
  select_best ls sup = Some l ->
  exists pre post : list link,
  ls = pre ++ l :: post /\
  (forall y : link,
  In y pre -> ~ (sup_matches y sup = sup_matches l sup /\ rating y = rating l)) /\
  (forall y : link,
  In y pre ->
  ~
  ((sup_matches l sup = Some true -> sup_matches y sup = Some true) /\
  (sup_matches l sup = sup_matches y sup ->
  exists r r' : Z, rating y = Some r /\ rating l = Some r' /\ r' <= r))).
Proof. exact select_best_first_of_ties_fact. Qed.
Print Assumptions select_best_first_of_ties.
