(* C10 - Paging a collection yields every item exactly once, in order, and terminates.
   [load] is an arbitrary oracle for "fetch and parse the next page": any page graph, cycles and
   failing pages included.  [requests] chains successive Harvest calls through the continuation;
   [chain] is the true sequence: the items of the page chain in order, cut at a page that fails to
   load or at a 4th consecutive empty page.  Only property theorems here. *)

From Servitor Require Import Base Collection.
From Servitor.Facts Require Import CollectionFacts.
From Servitor Require Import Unicode Ansi Mime Json Object Jtp Client Paging.
From Servitor.Facts Require Import PagingFacts.

(* every request returns after visiting a bounded number of pages - the fuel supplied is never exhausted, also on cyclic and endlessly empty chains *)
Theorem harvest_bounded :
  forall (E R : Type) (load : R -> option (page E R)) (p : page E R)
  (amount start empties : nat),
  ~ In DOutOfFuel (fst (harvest load (harvest_fuel amount) p amount start empties)).
Proof. exact harvest_bounded_fact. Qed.
Print Assumptions harvest_bounded.

Theorem harvest_fuel_mono :
  forall (E R : Type) (load : R -> option (page E R)) (fuel fuel' : nat) 
  (p : page E R) (amount start empties : nat),
  ~ In DOutOfFuel (fst (harvest load fuel p amount start empties)) ->
  fuel <= fuel' ->
  harvest load fuel' p amount start empties = harvest load fuel p amount start empties.
Proof. exact harvest_fuel_mono_fact. Qed.
Print Assumptions harvest_fuel_mono.

(* a continuation always points at an item that exists; a request that returns one delivered exactly what was asked *)
Theorem harvest_cont :
  forall (E R : Type) (load : R -> option (page E R)) (fuel : nat) 
  (p : page E R) (amount start empties : nat) (d : list (delivered E R))
  (p' : page E R) (s' : nat),
  harvest load fuel p amount start empties = (d, Some (p', s')) ->
  s' < length (p_items p') /\
  Forall (fun x : delivered E R => is_item x = true) d /\ length d = amount.
Proof. exact harvest_cont_fact. Qed.
Print Assumptions harvest_cont.

(* for every page layout and every chunking into requests, what has been delivered is a prefix of the true sequence followed by at most one error item, which appears only for a page that fails to load or > 3 consecutive empty pages and ends the stream *)
Theorem harvest_prefix :
  forall (E R : Type) (load : R -> option (page E R)) (amounts : list nat) 
  (p : page E R) (start : nat) (d : list (delivered E R)) (k : option (page E R * nat))
  (n : nat) (xs : list E) (e : chain_end R),
  requests load (Some (p, start)) amounts = (d, k) ->
  fold_right (fun a acc : nat => harvest_fuel a + acc) 0 amounts <= n ->
  chain load n p start 0 = (xs, e) ->
  exists (m : nat) (tail : list (delivered E R)),
  d = map DItem (firstn m xs) ++ tail /\
  m <= length xs /\
  m <= fold_right Init.Nat.add 0 amounts /\
  (tail = [] \/
  k = None /\
  m = length xs /\
  ((exists r : R, tail = [DLoadFail r] /\ e = CFailedAt r) \/
  tail = [DTooManyEmpty] /\ e = CTooManyEmpty)).
Proof. exact harvest_prefix_fact. Qed.
Print Assumptions harvest_prefix.

(* on a chain that ends normally every item is delivered exactly once, in order, and the stream ends with an empty continuation *)
Theorem harvest_exact :
  forall (E R : Type) (load : R -> option (page E R)) (amounts : list nat) 
  (p : page E R) (start : nat) (d : list (delivered E R)) (k : option (page E R * nat))
  (n : nat) (xs : list E),
  amounts <> [] ->
  requests load (Some (p, start)) amounts = (d, k) ->
  fold_right (fun a acc : nat => harvest_fuel a + acc) 0 amounts <= n ->
  chain load n p start 0 = (xs, CEnd) ->
  let total := fold_right Init.Nat.add 0 amounts in
  (length xs <= total -> d = map DItem xs /\ k = None) /\
  (total < length xs -> d = map DItem (firstn total xs) /\ k <> None).
Proof. exact harvest_exact_fact. Qed.
Print Assumptions harvest_exact.

(* Non-vacuity: the page layout that the pinned tree got wrong (empty a empty c empty empty f) *)
Example c10_example :
  let pg := fun i => match i with
    | 0 => mkpage ([] : list nat) (NRef 1) | 1 => mkpage [10] (NRef 2) | 2 => mkpage [] (NRef 3)
    | 3 => mkpage [30] (NRef 4) | 4 => mkpage [] (NRef 5) | 5 => mkpage [] (NRef 6) | _ => mkpage [60] NAbsent end%nat in
  requests (fun r => Some (pg r)) (Some (pg 0%nat, 0%nat)) [10%nat] = ([DItem 10; DItem 30; DItem 60]%nat, None).
Proof. vm_compute. reflexivity. Qed.

(* REMOTE collections (pages fetched by URL): a fetched object is paged only if it is one of the four collection kinds *)
Theorem coll_page_kind :
  forall (o : obj) (id : option url) (pg : page pref pref),
  coll_page o id = Some pg ->
  exists k : text,
  get_string o s_ptype = Present k /\ In k [k_collection; k_ordered; k_page; k_ordered_page].
Proof. exact coll_page_kind_fact. Qed.
Print Assumptions coll_page_kind.

(* every element and the continuation travel with the id of the page that holds them (they are fetched/constructed relative to it) *)
Theorem coll_page_source :
  forall (o : obj) (id : option url) (pg : page pref pref),
  coll_page o id = Some pg ->
  Forall (fun e : jv * option url => snd e = id) (p_items pg) /\
  match p_next pg with
  | NAbsent => True
  | NRef r => snd r = id
  end.
Proof. exact coll_page_source_fact. Qed.
Print Assumptions coll_page_source.

(* what is not a collection, or cannot be fetched, is not paged at all *)
Theorem remote_none :
  forall (W : url -> entry) (is_https : url -> bool) (resolve : url -> bytes -> option url)
  (cap : nat) (parse_ref : option url -> text -> option url)
  (url_parse : text -> option url) (host_of : url -> text) (root : jv)
  (amounts : list nat),
  load_page W is_https resolve cap parse_ref url_parse host_of (root, None) = None ->
  remote_requests W is_https resolve cap parse_ref url_parse host_of root amounts = None.
Proof. exact remote_none_fact. Qed.
Print Assumptions remote_none.

(* the deliveries of pub.New(url) + successive Harvest calls are exactly Collection.requests over the page graph the servers define - so harvest_bounded, harvest_prefix and harvest_exact above (stated for EVERY load function, cyclic and broken graphs included) hold of them *)
Theorem remote_requests_spec :
  forall (W : url -> entry) (is_https : url -> bool) (resolve : url -> bytes -> option url)
  (cap : nat) (parse_ref : option url -> text -> option url)
  (url_parse : text -> option url) (host_of : url -> text) (root : jv)
  (amounts : list nat) (p : page pref pref),
  load_page W is_https resolve cap parse_ref url_parse host_of (root, None) = Some p ->
  exists reqs : list (list (delivered pref pref) * bool),
  remote_requests W is_https resolve cap parse_ref url_parse host_of root amounts =
  Some reqs /\
  concat (map fst reqs) =
  fst
  (requests (load_page W is_https resolve cap parse_ref url_parse host_of)
  (Some (p, 0)) amounts) /\ length reqs <= length amounts.
Proof. exact remote_requests_spec_fact. Qed.
Print Assumptions remote_requests_spec.
