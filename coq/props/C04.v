(* C04 - Requests are anonymous, well-formed https GETs that content cannot tamper with.
   [request_bytes uri host accept] is what jtp.Get writes; [parse_request] recognises a byte
   stream that is exactly one request line, one Host and one Accept header and nothing else (the
   harness applies it to every byte stream the simulator records).  Only property theorems here. *)

From Servitor Require Import Base Jtp Request.
From Servitor.Facts Require Import RequestFacts.
From Servitor Require Import Mime Json Object Webfinger.
From Servitor.Facts Require Import WebfingerFacts.
From Servitor Require Import Open.
From Servitor.Facts Require Import OpenFacts.

(* what is written parses as exactly one request with exactly these fields (components of a parsed URL contain no CR/LF: net/url rejects control characters) *)
Theorem request_shape :
  forall (uri : list N) (host accept : bytes),
  uri <> [] ->
  no_crlf_sp uri = true ->
  no_crlf host = true ->
  no_crlf accept = true ->
  parse_request (request_bytes uri host accept) = Some (uri, host, accept).
Proof. exact request_shape_fact. Qed.
Print Assumptions request_shape.

(* a recognised stream is exactly one request line, a Host header and an Accept header: no further header line, no body, no second request *)
Theorem request_single :
  forall l uri host accept : bytes,
  parse_request l = Some (uri, host, accept) ->
  l = request_bytes uri host accept /\
  uri <> [] /\ no_crlf_sp uri = true /\ no_crlf host = true /\ no_crlf accept = true.
Proof. exact request_single_fact. Qed.
Print Assumptions request_single.

(* had a component contained CR or LF, the stream would not be recognised - the oracle catches header injection *)
Theorem injection_refused :
  forall uri host accept : list N,
  existsb (fun c : N => (c =? 13)%N || (c =? 10)%N) (uri ++ host ++ accept) = true \/
  In 32%N uri \/ uri = [] ->
  parse_request (request_bytes uri host accept) <> Some (uri, host, accept).
Proof. exact injection_refused_fact. Qed.
Print Assumptions injection_refused.

(* a request is only ever sent for an https URL, on every hop of every redirect chain, whatever the cache holds *)
Theorem no_plaintext :
  forall (W : url -> entry) (is_https : url -> bool) (resolve : url -> bytes -> option url)
  (tolerated : list text) (cap b : nat) (c : cache) (u : url),
  Forall (fun r : url => is_https r = true) (snd (get W is_https resolve tolerated cap b c u)).
Proof. exact no_plaintext_fact. Qed.
Print Assumptions no_plaintext.

(* and only after the TLS connection to that URL's host was established *)
Theorem request_needs_dial :
  forall (W : url -> entry) (is_https : url -> bool) (resolve : url -> bytes -> option url)
  (tolerated : list text) (cap b : nat) (c : cache) (u : url),
  Forall (fun r : url => e_dial (W r) = true)
  (snd (get W is_https resolve tolerated cap b c u)).
Proof. exact request_needs_dial_fact. Qed.
Print Assumptions request_needs_dial.

(* WEBFINGER (what the user types after @): the name is split at its first @ *)
Theorem split_at_spec :
  forall t a d : bytes, split_at t = Some (a, d) <-> t = a ++ AT_B :: d /\ ~ In AT_B a.
Proof. exact split_at_spec_fact. Qed.
Print Assumptions split_at_spec.

Theorem split_at_none :
  forall t : bytes, split_at t = None <-> ~ In AT_B t.
Proof. exact split_at_none_fact. Qed.
Print Assumptions split_at_none.

(* the account and domain enter the query through QueryEscape, which emits only unreserved characters, + and percent escapes *)
Theorem query_escape_chars :
  forall bs : list N, Forall is_byte bs -> forallb uri_char (query_escape bs) = true.
Proof. exact query_escape_chars_fact. Qed.
Print Assumptions query_escape_chars.

Theorem query_escape_no_crlf_sp :
  forall bs : list N, Forall is_byte bs -> no_crlf_sp (query_escape bs) = true.
Proof. exact query_escape_no_crlf_sp_fact. Qed.
Print Assumptions query_escape_no_crlf_sp.

(* what was typed cannot add a parameter, a fragment or a path segment *)
Theorem query_escape_no_delims :
  forall (bs : list N) (c : N),
  Forall is_byte bs ->
  In c (query_escape bs) -> c <> 38%N /\ c <> 35%N /\ c <> 61%N /\ c <> 63%N /\ c <> 47%N.
Proof. exact query_escape_no_delims_fact. Qed.
Print Assumptions query_escape_no_delims.

(* and the server decodes exactly what was typed *)
Theorem query_escape_roundtrip :
  forall bs : list N, Forall is_byte bs -> query_unescape (query_escape bs) = Some bs.
Proof. exact query_escape_roundtrip_fact. Qed.
Print Assumptions query_escape_roundtrip.

Theorem query_escape_injective :
  forall a b : list N,
  Forall is_byte a -> Forall is_byte b -> query_escape a = query_escape b -> a = b.
Proof. exact query_escape_injective_fact. Qed.
Print Assumptions query_escape_injective.

Theorem wf_uri_shape :
  forall acct dom : list N,
  Forall is_byte acct ->
  Forall is_byte dom ->
  wf_uri acct dom <> [] /\
  no_crlf_sp (wf_uri acct dom) = true /\
  (exists q : list N,
  wf_uri acct dom = wf_prefix ++ q /\
  query_unescape q = Some (s_acct ++ acct ++ AT_B :: dom)).
Proof. exact wf_uri_shape_fact. Qed.
Print Assumptions wf_uri_shape.

(* the bytes written for a lookup are exactly one request line, one Host and one Accept header whatever account was typed (a domain containing CR or LF never resolves, so nothing is sent for it: request_needs_dial) *)
Theorem wf_request_shape :
  forall acct dom : list N,
  Forall is_byte acct ->
  Forall is_byte dom ->
  no_crlf dom = true ->
  parse_request (request_bytes (wf_uri acct dom) dom jrd_accept) =
  Some (wf_uri acct dom, dom, jrd_accept).
Proof. exact wf_request_shape_fact. Qed.
Print Assumptions wf_request_shape.

(* without an @ nothing is sent *)
Theorem wf_no_at :
  forall (W : url -> entry) (is_https : url -> bool) (resolve : url -> bytes -> option url)
  (cap : nat) (mk_url : bytes -> bytes -> url) (c : cache) (name : list N),
  ~ In AT_B name -> resolve_webfinger W is_https resolve cap mk_url c name = (WFNoAt, c, []).
Proof. exact wf_no_at_fact. Qed.
Print Assumptions wf_no_at.

(* every request of a lookup is https, needs a successful dial, and there are at most MAX_REDIRECTS+1 of them *)
Theorem wf_requests :
  forall (W : url -> entry) (is_https : url -> bool) (resolve : url -> bytes -> option url)
  (cap : nat) (mk_url : bytes -> bytes -> url) (c : cache) (name : bytes),
  let
  '(_, _, log) := resolve_webfinger W is_https resolve cap mk_url c name in
  Forall (fun r : url => is_https r = true /\ e_dial (W r) = true) log /\
  length log <= S Client.MAX_REDIRECTS.
Proof. exact wf_requests_fact. Qed.
Print Assumptions wf_requests.

Theorem wf_first_request :
  forall (W : url -> entry) (is_https : url -> bool) (resolve : url -> bytes -> option url)
  (cap : nat) (mk_url : bytes -> bytes -> url) (c : cache) (name acct dom : bytes)
  (r : url) (log' : list url),
  split_at name = Some (acct, dom) ->
  snd (resolve_webfinger W is_https resolve cap mk_url c name) = r :: log' ->
  r = mk_url dom (wf_uri acct dom).
Proof. exact wf_first_request_fact. Qed.
Print Assumptions wf_first_request.

(* everything requested for a piece of typed input is https and needs a successful dial *)
Theorem fetch_user_input_requests :
  forall (W : url -> entry) (is_https : url -> bool) (resolve : url -> bytes -> option url)
  (cap : nat) (parse_ref : option url -> text -> option url)
  (url_parse : text -> option url) (host_of : url -> text) (mk_url : bytes -> bytes -> url)
  (c : cache) (typed : bytes),
  Forall (fun r : url => is_https r = true /\ e_dial (W r) = true)
  (snd (fetch_user_input W is_https resolve cap parse_ref url_parse host_of mk_url c typed)).
Proof. exact fetch_user_input_requests_fact. Qed.
Print Assumptions fetch_user_input_requests.
