(* C04 - Requests are anonymous, well-formed https GETs that content cannot tamper with.
   [request_bytes uri host accept] is what jtp.Get writes; [parse_request] recognises a byte
   stream that is exactly one request line, one Host and one Accept header and nothing else (the
   harness applies it to every byte stream the simulator records).  Only property theorems here. *)

From Servitor Require Import Base Jtp Request.
From Servitor.Facts Require Import RequestFacts.

(* what is written parses as exactly one request with exactly these fields (components of a parsed URL contain no CR/LF: net/url rejects control characters) *)
Theorem request_shape :
  forall (uri : list N) (host accept : bytes),
  uri <> [] ->
  no_crlf_sp uri = true ->
  no_crlf host = true ->
  no_crlf accept = true ->
  parse_request (request_bytes uri host accept) = Some (uri, host, accept).
Proof. exact request_shape_fact. Qed.
Print Assumptions request_shape.

(* a recognised stream is exactly one request line, a Host header and an Accept header: no further header line, no body, no second request *)
Theorem request_single :
  forall l uri host accept : bytes,
  parse_request l = Some (uri, host, accept) ->
  l = request_bytes uri host accept /\
  uri <> [] /\ no_crlf_sp uri = true /\ no_crlf host = true /\ no_crlf accept = true.
Proof. exact request_single_fact. Qed.
Print Assumptions request_single.

(* had a component contained CR or LF, the stream would not be recognised - the oracle catches header injection *)
Theorem injection_refused :
  forall uri host accept : list N,
  existsb (fun c : N => (c =? 13)%N || (c =? 10)%N) (uri ++ host ++ accept) = true \/
  In 32%N uri \/ uri = [] ->
  parse_request (request_bytes uri host accept) <> Some (uri, host, accept).
Proof. exact injection_refused_fact. Qed.
Print Assumptions injection_refused.

(* a request is only ever sent for an https URL, on every hop of every redirect chain, whatever the cache holds *)
Theorem no_plaintext :
  forall (W : url -> entry) (is_https : url -> bool) (resolve : url -> bytes -> option url)
  (tolerated : list text) (cap b : nat) (c : cache) (u : url),
  Forall (fun r : url => is_https r = true) (snd (get W is_https resolve tolerated cap b c u)).
Proof. exact no_plaintext_fact. Qed.
Print Assumptions no_plaintext.

(* and only after the TLS connection to that URL's host was established *)
Theorem request_needs_dial :
  forall (W : url -> entry) (is_https : url -> bool) (resolve : url -> bytes -> option url)
  (tolerated : list text) (cap b : nat) (c : cache) (u : url),
  Forall (fun r : url => e_dial (W r) = true)
  (snd (get W is_https resolve tolerated cap b c u)).
Proof. exact request_needs_dial_fact. Qed.
Print Assumptions request_needs_dial.
