(* C20 - The media hook receives exactly the configured argv, substituted argument-wise.
   [hook_command] models ui.openExternally's construction of argv and stdin.  Only property
   theorems here. *)

From Servitor Require Import Base Mime Hook.
From Servitor.Facts Require Import HookFacts.

(* same length; the program name is never substituted; every later argument is replaced iff it EQUALS a placeholder; the link goes to stdin iff no argument equals %url *)
Theorem argv_spec :
  forall (hook : list text) (link : text) (mt : media_type) (argv : list text)
  (stdin : option text),
  hook_command hook link (Some mt) = Ok (argv, stdin) ->
  length argv = length hook /\
  hd_error argv = hd_error hook /\
  (forall (i : nat) (f : text),
  nth_error (tl hook) i = Some f -> nth_error (tl argv) i = subst link (Some mt) f) /\
  (stdin = None <-> In s_url (tl hook)) /\ (stdin = Some link \/ stdin = None).
Proof. exact argv_spec_fact. Qed.
Print Assumptions argv_spec.

Theorem subst_spec :
  forall (link : text) (mt : media_type) (f : text),
  subst link (Some mt) f =
  Some
  (if text_eqb f s_url
  then link
  else
  if text_eqb f s_mimetype
  then essence mt
  else
  if text_eqb f s_subtype
  then subtype mt
  else if text_eqb f s_supertype then supertype mt else f).
Proof. exact subst_spec_fact. Qed.
Print Assumptions subst_spec.

(* placeholders embedded in longer arguments are left alone *)
Theorem embedded_placeholder_untouched :
  forall (link : text) (mt : media_type) (f : text),
  f <> s_url ->
  f <> s_mimetype -> f <> s_subtype -> f <> s_supertype -> subst link (Some mt) f = Some f.
Proof. exact embedded_placeholder_untouched_fact. Qed.
Print Assumptions embedded_placeholder_untouched.

(* the link arrives verbatim as one whole argument, never split or expanded again *)
Theorem link_verbatim :
  forall (hook : list text) (link : text) (mt : media_type) (argv : list text)
  (stdin : option text) (i : nat),
  hook_command hook link (Some mt) = Ok (argv, stdin) ->
  nth_error (tl hook) i = Some s_url -> nth_error (tl argv) i = Some link.
Proof. exact link_verbatim_fact. Qed.
Print Assumptions link_verbatim.

(* with a non-empty hook (C19) and a media type the construction cannot fail *)
Theorem hook_total :
  forall (hook : list text) (link : text) (mt : media_type),
  hook <> [] -> exists r : list text * option text, hook_command hook link (Some mt) = Ok r.
Proof. exact hook_total_fact. Qed.
Print Assumptions hook_total.
