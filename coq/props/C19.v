(* C19 - A configuration is either rejected at startup or safe to run with.
   [accept] models decoding of the documented keys from typed TOML values (TOML syntax itself is
   the library's), colour conversion and range validation.  Only property theorems here. *)

From Servitor Require Import Base AnsiSpec Config.
From Servitor.Facts Require Import ConfigFacts.
Local Open Scope Z_scope.

(* a colour is accepted iff it is '#' followed by exactly six hex digits (for ALL byte strings) *)
Theorem hex_to_ansi_accepts :
  forall t : bytes,
  (exists out : bytes, hex_to_ansi t = Some out) <->
  (exists r1 r2 g1 g2 b1 b2 : N,
  t = [HASH; r1; r2; g1; g2; b1; b2] /\ forallb is_hex [r1; r2; g1; g2; b1; b2] = true).
Proof. exact hex_to_ansi_accepts_fact. Qed.
Print Assumptions hex_to_ansi_accepts.

(* and then the result is r;g;b with each component the value of its digit pair *)
Theorem hex_to_ansi_spec :
  forall t out : bytes,
  hex_to_ansi t = Some out <->
  (exists (r1 r2 g1 g2 b1 b2 : N) (r g b : Z),
  t = [HASH; r1; r2; g1; g2; b1; b2] /\
  hex_pair r1 r2 = Some r /\
  hex_pair g1 g2 = Some g /\
  hex_pair b1 b2 = Some b /\ out = itoa r ++ [SEMI] ++ itoa g ++ [SEMI] ++ itoa b).
Proof. exact hex_to_ansi_spec_fact. Qed.
Print Assumptions hex_to_ansi_spec.

(* each component is between 0 and 255 *)
Theorem hex_pair_spec :
  forall (a b : N) (v : Z),
  hex_pair a b = Some v -> is_hex a = true /\ is_hex b = true /\ 0 <= v <= 255.
Proof. exact hex_pair_spec_fact. Qed.
Print Assumptions hex_pair_spec.

Theorem hex_pair_total :
  forall a b : N, is_hex a = true -> is_hex b = true -> exists v : Z, hex_pair a b = Some v.
Proof. exact hex_pair_total_fact. Qed.
Print Assumptions hex_pair_total.

(* printed in decimal, no sign, no padding *)
Theorem itoa_spec :
  forall n : Z,
  0 <= n <= 255 ->
  forallb is_digit (itoa n) = true /\
  itoa n <> [] /\
  dec_value 0 (itoa n) = n /\
  (1 <= n -> hd 0%N (itoa n) <> 48%N) /\ (length (itoa n) <= 3)%nat.
Proof. exact itoa_spec_fact. Qed.
Print Assumptions itoa_spec.

(* accepted colours can only contribute digits and ';' to an SGR sequence (precondition of C01/C14) *)
Theorem colour_is_param :
  forall t out : bytes, hex_to_ansi t = Some out -> forallb is_param out = true /\ out <> [].
Proof. exact colour_is_param_fact. Qed.
Print Assumptions colour_is_param.

(* an accepted configuration has a non-empty hook, cache size >= 1, preload >= 0, a timeout without wrap-around and well-formed colours - exactly the preconditions under which the other properties were proved *)
Theorem accepted_config_safe :
  forall (r : raw_config) (c : config),
  accept r = Some c ->
  hook c <> [] /\
  1 <= cache_size c /\
  0 <= context c /\
  (exists tmo : Z, r_timeout r = Some (TInt tmo) \/ r_timeout r = None /\ tmo = 10) /\
  0 <= timeout_ns c /\
  (exists tmo : Z, 0 <= tmo /\ timeout_ns c = tmo * second /\ tmo * second <= max_int64) /\
  (forall col : bytes,
  In col [primary c; error c; highlight c; code c] ->
  forallb is_param col = true /\ col <> []).
Proof. exact accepted_config_safe_fact. Qed.
Print Assumptions accepted_config_safe.

(* empty hook, non-positive cache size, negative preload or timeout, unknown keys are rejected *)
Theorem rejects :
  forall r : raw_config,
  r_unknown r = true \/
  r_feeds_ok r = false \/
  r_hook r = Some (TArr []) \/
  (exists z : Z, r_cache r = Some (TInt z) /\ z < 1) \/
  (exists z : Z, r_context r = Some (TInt z) /\ z < 0) \/
  (exists z : Z, r_timeout r = Some (TInt z) /\ z < 0) -> accept r = None.
Proof. exact rejects_fact. Qed.
Print Assumptions rejects.

(* missing files and keys fall back to the built-in defaults, which are accepted *)
Theorem defaults_accepted :
  accept
  {|
  r_hook := None;
  r_primary := None;
  r_error := None;
  r_highlight := None;
  r_code := None;
  r_context := None;
  r_timeout := None;
  r_cache := None;
  r_feeds_ok := true;
  r_unknown := false
  |} =
  Some
  {|
  hook := d_hook;
  primary := [49%N; 54%N; 52%N; 59%N; 50%N; 52%N; 53%N; 59%N; 49%N; 53%N; 53%N];
  error := [49%N; 53%N; 54%N; 59%N; 53%N; 51%N; 59%N; 53%N; 51%N];
  highlight := [49%N; 51%N; 59%N; 49%N; 50%N; 53%N; 59%N; 48%N];
  code := [55%N; 53%N; 59%N; 55%N; 53%N; 59%N; 55%N; 53%N];
  context := 5;
  timeout_ns := 10000000000;
  cache_size := 128
  |}.
Proof. exact defaults_accepted_fact. Qed.
Print Assumptions defaults_accepted.
