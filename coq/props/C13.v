(* C13 - placeholder until the theorems land; see facts/AnsiFacts.v *)
From Servitor Require Import Base Ansi.
