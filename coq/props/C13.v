(* C13 - Wrapping, padding, indenting and snipping preserve content and honour the width.
   Only property theorems here, each closed by [exact <fact>].  A "cell" is what ansi.expand
   yields: (style prefix, one rune, reset?) - every length in ansi.go counts cells.  The theorems
   quantify over ALL cell lists (hostile ESC placements included) and all widths >= 1. *)
From Servitor Require Import Base Unicode Ansi AnsiSpec.
From Servitor.Facts Require Import AnsiFacts WrapFacts.
Local Open Scope Z_scope.

(* expand tiles the text: nothing is lost or reordered by cutting it into cells *)
Theorem expand_tiles : forall t : text, collapse (expand t) = t.
Proof. exact expand_tiles_fact. Qed.
Print Assumptions expand_tiles.

(* ... and for well-formed styled text the printed text re-expands to the same cells, so the
   cell-level statements below are statements about what is printed *)
Theorem expand_collapse_wf : forall cs : list cell, wf_cells cs -> expand (collapse cs) = cs.
Proof. exact expand_collapse_wf_fact. Qed.
Print Assumptions expand_collapse_wf.

(* word-wrapping yields lines of at most w visible characters *)
Theorem wrap_width : forall (cs : list cell) (w : Z),
  1 <= w -> Forall (fun l => clen l <= w) (wrap_cells w cs).
Proof. exact wrap_width_fact. Qed.
Print Assumptions wrap_width.

(* ... keeps every non-whitespace character with its styling in the original order *)
Theorem wrap_keeps_nonspace : forall (cs : list cell) (w : Z),
  1 <= w -> filter nonspace (concat (wrap_cells w cs)) = filter nonspace cs.
Proof. exact wrap_keeps_nonspace_fact. Qed.
Print Assumptions wrap_keeps_nonspace.

(* ... never removes a line break that separates two visible characters: everything before a
   newline cell ends up on earlier lines than everything after it *)
Theorem wrap_keeps_breaks : forall (w : Z) (a : list cell) (nl : cell) (b : list cell),
  1 <= w -> is_nl_cell nl = true -> b <> [] ->
  exists la, la <> [] /\ wrap_cells w (a ++ nl :: b) = la ++ wrap_cells w b /\
             filter nonspace (concat la) = filter nonspace a.
Proof. exact wrap_keeps_breaks_fact. Qed.
Print Assumptions wrap_keeps_breaks.

(* ... and breaks inside a word only if the word is longer than a line *)
Theorem wrap_word_intact : forall (w : Z) (a word b : list cell),
  1 <= w -> word <> [] -> forallb nonspace word = true -> clen word <= w ->
  (a = [] \/ exists a' s, a = a' ++ [s] /\ nonspace s = false) ->
  (b = [] \/ exists s b', b = s :: b' /\ nonspace s = false) ->
  exists before l1 l2 after, wrap_cells w (a ++ word ++ b) = before ++ (l1 ++ word ++ l2) :: after.
Proof. exact wrap_word_intact_fact. Qed.
Print Assumptions wrap_word_intact.

(* the width >= 1 hypothesis is necessary: at width 0 content IS lost (refutation by computation) *)
Theorem wrap_keeps_nonspace_refuted_at_width_0 :
  exists cs, filter nonspace (concat (wrap_cells 0 cs)) <> filter nonspace cs.
Proof.
  exists [mkcell [] 65%N false; mkcell [] 32%N false; mkcell [] 66%N false]. vm_compute. discriminate.
Qed.
Print Assumptions wrap_keeps_nonspace_refuted_at_width_0.

(* hard wrapping: each line of cells is cut into pieces of exactly w cells (the last one possibly
   shorter); nothing else changes *)
Theorem dumb_wrap_shape : forall (w : Z) (cs : list cell), 1 <= w ->
  dumb_cells w cs 0 =
  join_with [NL] (map collapse (flat_map (fun l => chunk (Z.to_nat w) (length l) l) (cell_lines cs))).
Proof. exact dumb_shape_fact. Qed.
Print Assumptions dumb_wrap_shape.

Theorem chunk_spec : forall (n : nat) (l : list cell), (1 <= n)%nat ->
  concat (chunk n (length l) l) = l /\
  Forall (fun x => (length x <= n)%nat) (chunk n (length l) l) /\
  (forall pre0 lastc, chunk n (length l) l = pre0 ++ [lastc] -> Forall (fun x => length x = n) pre0).
Proof. exact chunk_spec_fact. Qed.
Print Assumptions chunk_spec.

(* padding: every line gets exactly max(0, len - |line|) plain spaces at its end *)
Theorem pad_shape : forall (len : Z) (cs : list cell),
  pad_cells len cs 0 =
  join_with [NL] (map (fun l => collapse l ++ spaces (Z.max 0 (len - clen l))) (cell_lines cs)).
Proof. exact pad_shape_fact. Qed.
Print Assumptions pad_shape.

(* indenting: the prefix is inserted after every newline and nothing else changes *)
Theorem indent_shape : forall (prefix : text) (cs : list cell),
  indent_cells prefix cs = join_with (NL :: prefix) (map collapse (cell_lines cs)).
Proof. exact indent_shape_fact. Qed.
Print Assumptions indent_shape.

(* snipping keeps a prefix of the lines minus trailing blank lines, removes at most the last
   cell of the last kept line, and the ellipsis flag is set iff something was cut *)
Theorem snip_shape : forall (width : Z) (lines : list text) (ell0 : bool),
  exists body trailing,
    lines = body ++ trailing /\
    forallb (fun l => only_space (expand l)) trailing = true /\
    (body = [] \/ exists b x, body = b ++ [x] /\ only_space (expand x) = false) /\
    let ell := ell0 || negb (match trailing with [] => true | _ => false end) in
    snip_back width (rev lines) [] ell0 =
      (match rev body with
       | [] => []
       | x :: rb => rev rb ++ [collapse (if Z.eqb (clen (expand x)) width && ell
                                         then removelast (expand x) else expand x)]
       end, ell).
Proof. exact snip_back_shape_fact. Qed.
Print Assumptions snip_shape.

(* ... and returns at most the requested number of lines *)
Theorem snip_lines : forall (t : text) (width h : Z) (e r : text),
  1 <= h -> has_nl e = false -> snip t width h e = Ok r ->
  (length (split_nl r) <= Z.to_nat h)%nat.
Proof. exact snip_lines_fact. Qed.
Print Assumptions snip_lines.

(* ---- the oracles the harness applies to the IMPLEMENTATION's output hold of the model's output
   for every well-formed styled text, so a false verdict on the code's output is a violation ---- *)
From Servitor Require Import Term Oracles.
From Servitor.Facts Require Import OracleFacts.

(* the boolean well-formedness test used to select oracle inputs is sound *)
Theorem wf_text_b_sound :
  forall t : text, wf_text_b t = true -> wf_cells (expand t).
Proof. exact wf_text_b_sound_fact. Qed.
Print Assumptions wf_text_b_sound.

(* printed-text level: every printed line re-scans to at most w cells and the visible cells are the input's *)
Theorem wrap_ok_model :
  forall (t : text) (w : Z), 1 <= w -> wf_cells (expand t) -> wrap_ok w t (wrap t w) = true.
Proof. exact wrap_ok_model_fact. Qed.
Print Assumptions wrap_ok_model.

Theorem dumb_ok_model :
  forall (t : text) (w : Z),
  1 <= w -> wf_cells (expand t) -> dumb_ok w t (dumb_wrap t w) = true.
Proof. exact dumb_ok_model_fact. Qed.
Print Assumptions dumb_ok_model.

Theorem pad_ok_model :
  forall (t : text) (len : Z), wf_cells (expand t) -> pad_ok len t (pad t len) = true.
Proof. exact pad_ok_model_fact. Qed.
Print Assumptions pad_ok_model.

(* Non-vacuity: a styled text that is actually wrapped *)
Example c13_example :
  map (map letter) (wrap_cells 3 (expand [97;98;32;99;100;101;102;10;103]%N))
  = [[97;98]; [99;100;101]; [102]; [103]]%N.
Proof. vm_compute. reflexivity. Qed.
