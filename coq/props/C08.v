(* C08 - UI state is race-free and deadlock-free under concurrent keys, resizes and loads. (PARTIAL)
   General theorems about the lock-discipline checker of Conc.v.  The instance for the CURRENT
   ui/ui.go - lock_check ui_prog = true, calls_terminate ui_prog, and the corollaries ui_safety
   and ui_progress - is re-derived on every run in gen/UiProg.v, which tools/xlate regenerates
   from the source.  Outside the model: Go's memory model, scheduler and runtime; the ownership
   protocol of page.frontier/children/basepoint (observed by the race detector); the fan-outs in
   pub and splicer (observed by the race detector).  Only property theorems here. *)

From Servitor Require Import Base Conc.
From Servitor.Facts Require Import ConcFacts.

(* an accepted program only has disciplined traces: public entry points start and end without the lock (or end holding it exactly through the documented error exit), private methods keep it, goroutines are disciplined threads *)
Theorem check_sound :
  forall P : program,
  lock_check P = true ->
  (forall (fn : func) (tr : list event) (b : bool),
  In fn P -> fn_public fn = true -> run_body P (fn_body fn) tr b -> wf_trace P false tr b) /\
  (forall (fn : func) (tr : list event) (b : bool),
  In fn P ->
  fn_public fn = false ->
  run_body P (fn_body fn) tr b -> b = false /\ wf_trace P true tr true).
Proof. exact check_sound_fact. Qed.
Print Assumptions check_sound.

(* goroutine literals, to any depth *)
Theorem go_sound :
  forall (P : program) (c : cmd),
  lock_check P = true ->
  check_body P PGo c {| held := false; deferred := false |} = true ->
  forall (tr : list event) (b : bool),
  run_body P c tr b -> b = false /\ wf_trace P false tr false.
Proof. exact go_sound_fact. Qed.
Print Assumptions go_sound.

(* in EVERY reachable state of EVERY interleaving, each state access and each frame is performed by the thread that owns the mutex, no thread locks a mutex it holds, and at most one thread is inside (frames are emitted one at a time) *)
Theorem safety :
  forall (P : program) (pool pool' : list thread),
  lock_check P = true ->
  initial P pool ->
  steps P pool pool' ->
  (forall t : thread,
  In t pool' ->
  forall (e : event) (r : list event),
  t_rest t = e :: r -> e = ETouch \/ e = EOutput \/ e = EUnlock -> t_holds t = true) /\
  (forall t : thread,
  In t pool' -> forall r : list event, t_rest t = ELock :: r -> t_holds t = false) /\
  (forall (pre : list thread) (t : thread) (post : list thread),
  pool' = pre ++ t :: post ->
  t_holds t = true -> forallb (fun u : thread => negb (t_holds u)) (pre ++ post) = true).
Proof. exact safety_fact. Qed.
Print Assumptions safety.

(* no deadlock while commands succeed: if nobody exited through the error path holding the lock, some thread can always step *)
Theorem progress :
  forall (P : program) (pool pool' : list thread),
  lock_check P = true ->
  initial P pool ->
  steps P pool pool' ->
  (forall fn : func,
  In fn P -> fn_public fn = false -> exists tr : list event, run_body P (fn_body fn) tr false) ->
  (exists t : thread, In t pool' /\ t_rest t <> []) ->
  (forall t : thread, In t pool' -> t_rest t = [] -> t_holds t = false) ->
  exists pool'' : list thread, step P pool' pool''.
Proof. exact progress_fact. Qed.
Print Assumptions progress.

(* the termination side condition of progress is decidable and is re-decided on the translated program *)
Theorem calls_terminate :
  forall (P : program) (fuel : nat),
  lock_check P = true ->
  calls_terminate P fuel = true ->
  forall fn : func,
  In fn P -> fn_public fn = false -> exists tr : list event, run_body P (fn_body fn) tr false.
Proof. exact calls_terminate_fact. Qed.
Print Assumptions calls_terminate.

Theorem initial_ok :
  forall (P : program) (pool : list thread),
  lock_check P = true -> initial P pool -> pool_ok P pool.
Proof. exact initial_ok_fact. Qed.
Print Assumptions initial_ok.

Theorem step_ok :
  forall (P : program) (a b : list thread),
  lock_check P = true -> pool_ok P a -> step P a b -> pool_ok P b.
Proof. exact step_ok_fact. Qed.
Print Assumptions step_ok.

(* The two statements that had to be corrected while proving (kept as theorems in ConcFacts.v):
   wf_trace_sem_counterexample - the naive semantic goroutine rule is not derivable for accepted
   programs; progress_counterexample - without termination of private methods progress fails. *)
Theorem naive_goroutine_rule_refuted :
  lock_check cx_P = true /\ ~ wf_trace_sem cx_P true [ESpawn cx_g] true.
Proof. destruct wf_trace_sem_counterexample as (H1 & _ & _ & H4). split; assumption. Qed.
Print Assumptions naive_goroutine_rule_refuted.

(* ---- fork-join fan-outs: a separate model (ForkJoin.v); imported here so that its names do not shadow Conc's above ---- *)
From Servitor Require Import ForkJoin.
From Servitor.Facts Require Import ForkJoinFacts.

(* FAN-OUTS (pub, splicer, client): the static conflict relation covers every pair of accesses to the same cell of which one is a write *)
Theorem conflict_covers :
  forall a b : acc, same_cell_conflict a b = true -> conflict a b = true.
Proof. exact conflict_covers_fact. Qed.
Print Assumptions conflict_covers.

(* a checked fan-out has no two goroutines with conflicting accesses *)
Theorem fj_check_pairs :
  forall ts : list accs,
  fj_check ts = true ->
  forall (i j : nat) (t u : accs),
  i <> j -> nth_error ts i = Some t -> nth_error ts j = Some u -> tasks_conflict t u = false.
Proof. exact fj_check_pairs_fact. Qed.
Print Assumptions fj_check_pairs.

(* hence no data race: no two goroutines access the same cell with a write among the two *)
Theorem fj_no_race :
  forall progs : list (list op), fj_check (map (map acc_of) progs) = true -> ~ has_race progs.
Proof. exact fj_no_race_fact. Qed.
Print Assumptions fj_no_race.

(* and EVERY interleaving that runs all goroutines to completion ends in the same memory, each goroutine having read the same values (the fan-out behaves as its sequential reading) *)
Theorem fj_deterministic :
  forall (progs : list (list op)) (s1 s2 : list nat) (m : mem),
  fj_check (map (map acc_of) progs) = true ->
  finished (snd (run s1 m (map start progs))) ->
  finished (snd (run s2 m (map start progs))) ->
  (forall l : loc, fst (run s1 m (map start progs)) l = fst (run s2 m (map start progs)) l) /\
  map seen (snd (run s1 m (map start progs))) = map seen (snd (run s2 m (map start progs))).
Proof. exact fj_deterministic_fact. Qed.
Print Assumptions fj_deterministic.

(* the JOIN of a fan-out: when every goroutine calls Done exactly once (on every path; the translator establishes the count per
   goroutine from the current source) and as many were Added, the WaitGroup counter is 0 once all have finished - Wait returns -
   and never negative at any point of any interleaving - Done never panics.  gen/FanOut.v instantiates it on the current
   source (fanouts_join, fanouts_join_completes) *)
Theorem join_ok_completes :
  forall (added : nat) (ds : list nat),
  join_ok added ds = true -> wg_counter added ds = 0%Z /\ wg_never_negative added ds.
Proof. exact join_ok_completes_fact. Qed.
Print Assumptions join_ok_completes.
