(* C17 - Typed accessors classify every JSON value correctly and never crash.
   Outcome of an accessor: Present v | Absent ("key is not present": missing, null, or - for
   strings - empty after scrubbing) | Bad ("wrong type / unparseable").  f64_is b z says that the
   IEEE-754 double with bit pattern b has exactly the integer value z.  The accessors are total
   functions in the model; "never panics" for the code is what the correspondence run observes.
   Only property theorems here, each closed by [exact <fact>]. *)

From Servitor Require Import Base Unicode Ansi Mime Json Object.
From Servitor.Facts Require Import ObjectFacts.
Local Open Scope Z_scope.

(* a double is accepted as an integer exactly when its value is that integer *)
Theorem f64_to_int_spec :
  forall b z : Z, f64_to_int b = Some z <-> f64_is b z.
Proof. exact f64_to_int_spec_fact. Qed.
Print Assumptions f64_to_int_spec.

Theorem f64_is_functional :
  forall b z1 z2 : Z, f64_is b z1 -> f64_is b z2 -> z1 = z2.
Proof. exact f64_is_functional_fact. Qed.
Print Assumptions f64_is_functional.

(* absent = missing key or null *)
Theorem absent_iff :
  forall (o : obj) (k : text), get_any o k = Absent <-> jabsent o k.
Proof. exact absent_iff_fact. Qed.
Print Assumptions absent_iff.

Theorem get_any_never_bad :
  forall (o : obj) (k : text), get_any o k <> Bad.
Proof. exact get_any_never_bad_fact. Qed.
Print Assumptions get_any_never_bad.

(* numbers only if non-negative integers within range, and then exactly the JSON number's value *)
Theorem get_number_spec :
  forall (o : obj) (k : text) (n : Z),
  get_number o k = Present n <->
  (exists b : Z, jfind o k = Some (JNum b) /\ f64_is b n /\ 0 <= n < 2 ^ 64).
Proof. exact get_number_spec_fact. Qed.
Print Assumptions get_number_spec.

(* every other number is reported as wrong type / unparseable *)
Theorem get_number_bad :
  forall (o : list (text * jv)) (k : text) (b : Z),
  jfind o k = Some (JNum b) ->
  (forall n : Z, f64_is b n -> ~ 0 <= n < 2 ^ 64) -> get_number o k = Bad.
Proof. exact get_number_bad_fact. Qed.
Print Assumptions get_number_bad.

(* strings sanitised and non-empty *)
Theorem get_string_spec :
  forall (o : obj) (k s : text),
  get_string o k = Present s <->
  (exists raw : text, jfind o k = Some (JStr raw) /\ s = scrub raw /\ s <> []).
Proof. exact get_string_spec_fact. Qed.
Print Assumptions get_string_spec.

Theorem get_string_absent :
  forall (o : obj) (k : text),
  get_string o k = Absent <->
  jabsent o k \/ (exists raw : text, jfind o k = Some (JStr raw) /\ scrub raw = []).
Proof. exact get_string_absent_fact. Qed.
Print Assumptions get_string_absent.

Theorem get_string_bad :
  forall (o : obj) (k : text),
  get_string o k = Bad <->
  (exists v : jv, jfind o k = Some v /\ v <> JNull /\ (forall s : text, v <> JStr s)).
Proof. exact get_string_bad_fact. Qed.
Print Assumptions get_string_bad.

(* single values promoted to one-element lists *)
Theorem get_list_spec :
  forall (o : obj) (k : text) (l : list jv),
  get_list o k = Present l <->
  jfind o k = Some (JArr l) \/
  (exists v : jv,
  jfind o k = Some v /\ v <> JNull /\ (forall x : list jv, v <> JArr x) /\ l = [v]).
Proof. exact get_list_spec_fact. Qed.
Print Assumptions get_list_spec.

Theorem get_list_never_bad :
  forall (o : obj) (k : text), get_list o k <> Bad.
Proof. exact get_list_never_bad_fact. Qed.
Print Assumptions get_list_never_bad.

Theorem get_object_spec :
  forall (o : obj) (k : text) (kvs : obj),
  get_object o k = Present kvs <-> jfind o k = Some (JObj kvs).
Proof. exact get_object_spec_fact. Qed.
Print Assumptions get_object_spec.

Theorem get_time_spec :
  forall time_parse : text -> option Z,
  (text -> option text) ->
  forall (o : obj) (k : text) (t : Z),
  get_time time_parse o k = Present t <->
  (exists s : text, get_string o k = Present s /\ time_parse s = Some t).
Proof. exact get_time_spec_fact. Qed.
Print Assumptions get_time_spec.

Theorem get_url_spec :
  (text -> option Z) ->
  forall (url_parse : text -> option text) (o : obj) (k u : text),
  get_url url_parse o k = Present u <->
  (exists s : text, get_string o k = Present s /\ url_parse s = Some u).
Proof. exact get_url_spec_fact. Qed.
Print Assumptions get_url_spec.

Theorem typed_absent_iff :
  forall (time_parse : text -> option Z) (url_parse : text -> option text) 
  (o : obj) (k : text),
  (get_time time_parse o k = Absent <-> get_string o k = Absent) /\
  (get_url url_parse o k = Absent <-> get_string o k = Absent) /\
  (get_media_type o k = Absent <-> get_string o k = Absent).
Proof. exact typed_absent_iff_fact. Qed.
Print Assumptions typed_absent_iff.

Theorem get_media_type_spec :
  forall (o : obj) (k : text) (m : media_type),
  get_media_type o k = Present m <->
  (exists s : text, get_string o k = Present s /\ mime_parse s = Some m).
Proof. exact get_media_type_spec_fact. Qed.
Print Assumptions get_media_type_spec.

(* media types: token / token prefix, maximal runs *)
Theorem mime_parse_spec :
  forall (t : text) (m : media_type),
  mime_parse t = Some m ->
  exists rest : list rune,
  t = supertype m ++ [SLASH] ++ subtype m ++ rest /\
  supertype m <> [] /\
  subtype m <> [] /\
  forallb is_tok (supertype m) = true /\
  forallb is_tok (subtype m) = true /\
  essence m = supertype m ++ [SLASH] ++ subtype m /\
  match rest with
  | [] => True
  | c :: _ => is_tok c = false
  end.
Proof. exact mime_parse_spec_fact. Qed.
Print Assumptions mime_parse_spec.

Theorem mime_parse_complete :
  forall sup sub rest : text,
  sup <> [] ->
  sub <> [] ->
  forallb is_tok sup = true ->
  forallb is_tok sub = true ->
  match rest with
  | [] => True
  | c :: _ => is_tok c = false
  end ->
  mime_parse (sup ++ [SLASH] ++ sub ++ rest) =
  Some {| essence := sup ++ [SLASH] ++ sub; supertype := sup; subtype := sub |}.
Proof. exact mime_parse_complete_fact. Qed.
Print Assumptions mime_parse_complete.

(* default text/html, four essences, everything else unparseable *)
Theorem markup_dispatch :
  forall (o : obj) (ck mk : text) (kind : markup_kind) (content : text),
  get_markup o ck mk = Present (kind, content) <->
  get_string o ck = Present content /\
  (exists m : media_type,
  (get_media_type o mk = Present m \/ get_media_type o mk = Absent /\ m = mt_default) /\
  (kind = MPlain /\ essence m = s_text_plain \/
  kind = MHtml /\ essence m = s_text_html \/
  kind = MGemini /\ essence m = s_text_gemini \/
  kind = MMarkdown /\ essence m = s_text_markdown)).
Proof. exact markup_dispatch_fact. Qed.
Print Assumptions markup_dispatch.

(* Non-vacuity: -5, 1e300 and 0.5 are rejected, 2^53 is returned exactly *)
Example c17_example :
  let o := [([107]%N, JNum 13826050856027422720)] in   (* {"k": -5} *)
  get_number o [107]%N = Bad /\
  get_number [([107]%N, JNum 4845873199050653696)] [107]%N = Present 9007199254740992.
Proof. vm_compute. split; reflexivity. Qed.
