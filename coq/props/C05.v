(* C05 - Network faults end in a timely error, never in partial data, a hang or a crash.  (PARTIAL)
   Proved: the logic - a response cut at ANY byte is an error, never a document (the decoder's
   verdict on the truncated body being "not an object"); classification is total; the number of
   connection attempts of a fetch is bounded by budget+1, so with every blocking step bounded by
   its deadline a fetch takes at most (budget+1) * 2T.  Observed by the harness, not proved:
   that Go's net/tls honours the deadlines (wall-clock).  Only property theorems here. *)

From Servitor Require Import Base Jtp.
From Servitor.Facts Require Import JtpFacts FaultFacts.
From Servitor Require Import Collection.
From Servitor.Facts Require Import CollectionFacts.

(* cut a valid response at any byte: the result is an error, never a document *)
Theorem prefix_error :
  forall (tolerated : list text) (full : entry) (k : nat) (d : list (text * Json.jv)),
  classify_response tolerated full = HDoc d ->
  let cut := {| e_dial := e_dial full; e_bytes := firstn k (e_bytes full); e_body := BBad |}
  in
  exists err : errclass, classify_response tolerated cut = HErr err.
Proof. exact prefix_error_fact. Qed.
Print Assumptions prefix_error.

(* any cut before the end of the blank line is a status-line or header error, whatever the decoder says about the body *)
Theorem header_cut :
  forall (tolerated : list text) (full : entry) (d : list (text * Json.jv)),
  classify_response tolerated full = HDoc d ->
  exists (sl : list N) (lines : list (list N)) (blank body : list N),
  e_bytes full = sl ++ concat lines ++ blank ++ body /\
  is_line sl /\
  Forall is_line lines /\
  Forall (fun l : bytes => is_blank l = false) lines /\
  is_blank blank = true /\
  (forall (k : nat) (bd : bodyclass),
  k < length (sl ++ concat lines ++ blank) ->
  let cut := {| e_dial := e_dial full; e_bytes := firstn k (e_bytes full); e_body := bd |}
  in
  classify_response tolerated cut = HErr EStatusLine \/
  classify_response tolerated cut = HErr EHeaders).
Proof. exact header_cut_fact. Qed.
Print Assumptions header_cut.

(* a document requires the body to decode to an object *)
Theorem no_doc_without_object :
  forall (tolerated : list text) (e : entry) (d : list (text * Json.jv)),
  classify_response tolerated e = HDoc d -> e_body e = BObj d.
Proof. exact no_doc_without_object_fact. Qed.
Print Assumptions no_doc_without_object.

Theorem status_truncated :
  forall (tolerated : list text) (e : entry),
  read_line (e_bytes e) = None ->
  exists err : errclass, classify_response tolerated e = HErr err.
Proof. exact status_truncated_fact. Qed.
Print Assumptions status_truncated.

(* no fault outcome is a crash: every byte stream is classified *)
Theorem fault_total :
  forall (tolerated : list text) (e : entry),
  (exists d : list (text * Json.jv), classify_response tolerated e = HDoc d) \/
  (exists v : bytes, classify_response tolerated e = HRedirect v) \/
  (exists err : errclass, classify_response tolerated e = HErr err).
Proof. exact fault_total_fact. Qed.
Print Assumptions fault_total.

(* connection attempts per fetch <= budget + 1 *)
Theorem hops_bounded :
  forall (tolerated : list text) (W : url -> entry) (is_https : url -> bool)
  (resolve : url -> bytes -> option url) (cap b : nat) (c : cache)
  (u : url) (o : outcome) (c' : cache) (log : list url),
  get W is_https resolve tolerated cap b c u = (o, c', log) ->
  length log + match o with
  | OErr EDial => 1
  | _ => 0
  end <= b + 1.
Proof. exact hops_bounded_fact. Qed.
Print Assumptions hops_bounded.

(* hence at most (budget+1) * 2T when every attempt is bounded by dial timeout + exchange deadline *)
Theorem fetch_time :
  forall (tolerated : list text) (W : url -> entry) (is_https : url -> bool)
  (resolve : url -> bytes -> option url) (cap T b : nat) (c : cache)
  (u : url) (o : outcome) (c' : cache) (log : list url),
  get W is_https resolve tolerated cap b c u = (o, c', log) ->
  (length log + match o with
  | OErr EDial => 1
  | _ => 0
  end) * (2 * T) <= (b + 1) * (2 * T).
Proof. exact fetch_time_fact. Qed.
Print Assumptions fetch_time.

(* a page of a collection that fails to load ENDS the listing - the failure item is the last thing delivered and no continuation is handed out (nothing can be asked of a page that does not exist) *)
Theorem harvest_fail_ends :
  forall (E R : Type) (load : R -> option (page E R)) (fuel : nat) 
  (p : page E R) (amount start empties : nat) (d : list (delivered E R))
  (k : option (page E R * nat)) (r : R),
  harvest load fuel p amount start empties = (d, k) ->
  In (DLoadFail r) d ->
  k = None /\ (exists d0 : list (delivered E R), d = d0 ++ [DLoadFail r]).
Proof. exact harvest_fail_ends_fact. Qed.
Print Assumptions harvest_fail_ends.

(* every request after the end delivers nothing *)
Theorem requests_after_end :
  forall (E R : Type) (load : R -> option (page E R)) (amounts : list nat),
  requests load None amounts = ([], None).
Proof. exact requests_after_end_fact. Qed.
Print Assumptions requests_after_end.
