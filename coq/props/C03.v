(* C03 - Documents are accepted only from successful JSON responses via bounded redirects.
   [get W is_https resolve tolerated cap budget cache u] models jtp.Get: result, cache afterwards,
   requests received by the servers.  W (the servers), net/url (is_https, resolve) and the JSON
   decoding of bodies (e_body) are universally quantified.  [cold b u] is the fetch against the
   servers alone (capacity 0: nothing is ever cached); [path u log src] is a chain of redirects
   from u to src, every hop https, every Location resolved against the URL that issued it.
   Only property theorems here. *)

From Servitor Require Import Base Mime Json Jtp.
From Servitor.Facts Require Import JtpFacts.
From Servitor Require Import Mime Json Object Webfinger.
From Servitor.Facts Require Import WebfingerFacts.

(* a document is returned only via at most b redirects, each to an https URL, the final response classified as a document, and the reported source is the URL of that final response *)
Theorem cold_sound :
  forall (W : url -> entry) (is_https : url -> bool) (resolve : url -> bytes -> option url)
  (tolerated : list text) (b : nat) (u : url) (d : list (text * jv))
  (src : url) (log : list url),
  cold W is_https resolve tolerated b u = (ODoc d src, log) ->
  path W is_https resolve tolerated u log src /\
  length log <= b + 1 /\
  is_https src = true /\ e_dial (W src) = true /\ classify_response tolerated (W src) = HDoc d.
Proof. exact cold_sound_fact. Qed.
Print Assumptions cold_sound.

(* conversely every such chain yields exactly that document, source and request sequence *)
Theorem cold_complete :
  forall (W : url -> entry) (is_https : url -> bool) (resolve : url -> bytes -> option url)
  (tolerated : list text) (b : nat) (u : url) (d : list (text * jv))
  (src : url) (log : list url),
  path W is_https resolve tolerated u log src ->
  length log <= b + 1 ->
  is_https src = true ->
  e_dial (W src) = true ->
  classify_response tolerated (W src) = HDoc d ->
  cold W is_https resolve tolerated b u = (ODoc d src, log).
Proof. exact cold_complete_fact. Qed.
Print Assumptions cold_complete.

(* a response is a document only with status 200-203, valid headers and a JSON object body *)
Theorem classify_doc :
  forall (tolerated : list text) (e : entry) (d : list (text * jv)),
  classify_response tolerated e = HDoc d ->
  exists (sl rest : bytes) (a b c : N),
  read_line (e_bytes e) = Some (sl, rest) /\
  parse_status_line sl = Some (a, b, c) /\
  a = 50%N /\
  b = 48%N /\
  (48 <= c <= 51)%N /\
  validate_headers (S (length rest)) tolerated rest false = Some true /\ e_body e = BObj d.
Proof. exact classify_doc_fact. Qed.
Print Assumptions classify_doc.

(* headers are valid iff every Content-Type parses and is tolerated and at least one is present *)
Theorem validate_headers_spec :
  forall (fuel : nat) (tol : list text) (bs : bytes) (seen : bool),
  (validate_headers fuel tol bs seen = Some true -> headers_valid tol bs seen) /\
  (length bs < fuel ->
  headers_valid tol bs seen -> validate_headers fuel tol bs seen = Some true).
Proof. exact validate_headers_spec_fact. Qed.
Print Assumptions validate_headers_spec.

(* whatever the cache holds, a fetch causes at most one request per allowed hop *)
Theorem get_requests :
  forall (W : url -> entry) (is_https : url -> bool) (resolve : url -> bytes -> option url)
  (tolerated : list text) (cap b : nat) (c : cache) (u : url),
  length (snd (get W is_https resolve tolerated cap b c u)) <= b + 1.
Proof. exact get_requests_fact. Qed.
Print Assumptions get_requests.

(* with an empty cache the capacity is irrelevant *)
Theorem get_cold :
  forall (W : url -> entry) (is_https : url -> bool) (resolve : url -> bytes -> option url)
  (tolerated : list text) (cap b : nat) (u : url),
  let
  '(o, _, log) := get W is_https resolve tolerated cap b [] u in
  (o, log) = cold W is_https resolve tolerated b u.
Proof. exact get_cold_fact. Qed.
Print Assumptions get_cold.

(* every answer, cached or not, is an answer the servers really give to a cold fetch with some budget *)
Theorem get_cache_sound :
  forall (W : url -> entry) (is_https : url -> bool) (resolve : url -> bytes -> option url)
  (tolerated : list text) (cap b : nat) (c : cache) (u : url),
  cache_sound W is_https resolve tolerated c ->
  let
  '(o, c', _) := get W is_https resolve tolerated cap b c u in
  cache_sound W is_https resolve tolerated c' /\
  (exists b' : nat, o = fst (cold W is_https resolve tolerated b' u)).
Proof. exact get_cache_sound_fact. Qed.
Print Assumptions get_cache_sound.

(* with unchanged servers a fetch returns what a cold fetch returns, whatever was fetched before and however small the cache - provided no finite redirect chain is longer than the budget *)
Theorem cache_transparent_partial :
  forall (W : url -> entry) (is_https : url -> bool) (resolve : url -> bytes -> option url)
  (tolerated : list text),
  tame W is_https resolve tolerated ->
  forall (cap : nat) (hist : list url) (u : url),
  fst
  (fst
  (get W is_https resolve tolerated cap 20
  (fetch_all W is_https resolve tolerated cap hist) u)) =
  fst (cold W is_https resolve tolerated 20 u).
Proof. exact cache_transparent_partial_fact. Qed.
Print Assumptions cache_transparent_partial.

(* without that proviso it fails: a 21-hop chain (the recorded finding C03/redirect-chain-longer-than-budget) *)
Theorem cache_transparent_refuted :
  exists
  (W : url -> entry) (is_https : url -> bool) (resolve : url -> bytes -> option url)
  (tol : list text) (cap : nat) (hist : list url) (u : url),
  fst
  (fst
  (get W is_https resolve tol cap 20
  (fold_left
  (fun (c : cache) (x : url) => snd (fst (get W is_https resolve tol cap 20 c x)))
  hist []) u)) <> fst (fst (get W is_https resolve tol 0 20 [] u)).
Proof. exact cache_transparent_refuted_fact. Qed.
Print Assumptions cache_transparent_refuted.

(* webfinger lookups go through the same bounded Get with their own tolerated types (jrd+json, json) *)
Theorem wf_requests :
  forall (W : url -> entry) (is_https : url -> bool) (resolve : url -> bytes -> option url)
  (cap : nat) (mk_url : bytes -> bytes -> url) (c : cache) (name : bytes),
  let
  '(_, _, log) := resolve_webfinger W is_https resolve cap mk_url c name in
  Forall (fun r : url => is_https r = true /\ e_dial (W r) = true) log /\
  length log <= S Client.MAX_REDIRECTS.
Proof. exact wf_requests_fact. Qed.
Print Assumptions wf_requests.

(* and only ever add cache entries under keys tagged with their request kind: a response validated for one kind of request never answers another (the repaired defect) *)
Theorem wf_cache_keys :
  forall (W : url -> entry) (is_https : url -> bool) (resolve : url -> bytes -> option url)
  (cap : nat) (mk_url : bytes -> bytes -> url) (c : cache) (name : bytes)
  (k : url),
  let
  '(_, c', _) := resolve_webfinger W is_https resolve cap mk_url c name in
  In k (map fst c') -> In k (map fst c) \/ (exists u : url, k = tag u).
Proof. exact wf_cache_keys_fact. Qed.
Print Assumptions wf_cache_keys.

(* the link returned is the href of the FIRST rel=self entry with an ActivityPub type; everything before it was a well-formed entry that was skipped *)
Theorem wf_scan_link :
  forall (l : list jv) (h : text),
  wf_scan l = WFLink h ->
  exists (pre : list jv) (o : list (text * jv)) (post : list jv),
  l = pre ++ JObj o :: post /\
  get_string o s_rel = Present s_self /\
  (exists m : media_type,
  get_media_type o s_type = Present m /\ mt_matches m wf_types = true) /\
  get_string o s_href = Present h /\
  Forall
  (fun e : jv => exists o' : list (text * jv), e = JObj o' /\ wf_scan [e] = WFNotFound)
  pre.
Proof. exact wf_scan_link_fact. Qed.
Print Assumptions wf_scan_link.

Theorem wf_scan_notfound :
  forall l : list jv,
  wf_scan l = WFNotFound <-> Forall (fun e : jv => wf_scan [e] = WFNotFound) l.
Proof. exact wf_scan_notfound_fact. Qed.
Print Assumptions wf_scan_notfound.
