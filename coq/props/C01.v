(* C01 - Remote content can never emit terminal control sequences.
   [safe_b t] (Term.v): running the terminal state machine over t, every rune that reaches the
   screen is printable or a newline - everything else in t is an SGR sequence ESC [ (digit|;)* m.
   [good t]: t is a well-formed styled text (cells = SGR groups + one printable letter + reset).
   [clean t]: no ESC and only printable runes - what object.GetString / ansi.Scrub deliver.
   Only property theorems here. *)

From Servitor Require Import Base Unicode Ansi AnsiSpec Term Style Html Gemtext Plaintext.
From Servitor.Facts Require Import TermFacts StyleFacts HtmlFacts MarkupFacts.
Local Open Scope Z_scope.
From Servitor Require Import Mime Pub.
From Servitor.Facts Require Import HtmlFacts MarkupFacts PubFacts.
From Servitor.Facts Require Import HtmlFacts FrameFacts.
From Servitor.Facts Require Import PubFacts.
From Servitor.Facts Require Import ComposeFacts.

(* every JSON string is scrubbed on extraction: no control character but newline survives, for ALL texts *)
Theorem scrub_clean :
  forall t : text, forallb printable (scrub t) = true.
Proof. exact scrub_clean_fact. Qed.
Print Assumptions scrub_clean.

Theorem scrub_no_esc :
  forall t : text, ~ In ESC (scrub t).
Proof. exact scrub_no_esc_fact. Qed.
Print Assumptions scrub_no_esc.

Theorem scrub_idempotent :
  forall t : text, scrub (scrub t) = scrub t.
Proof. exact scrub_idempotent_fact. Qed.
Print Assumptions scrub_idempotent.

(* HTML (and Markdown through goldmark): for EVERY parsed tree - any text, attribute value or tag name the parser produced, character references included - and every width in Z *)
Theorem render_safe :
  forall (col : colors) (ns : list node) (w : Z),
  colors_ok col -> safe_b (fst (render_with_links col ns w)) = true.
Proof. exact render_safe_fact. Qed.
Print Assumptions render_safe.

Theorem render_good :
  forall (col : colors) (ns : list node) (w : Z),
  colors_ok col -> good (fst (render_with_links col ns w)).
Proof. exact render_good_fact. Qed.
Print Assumptions render_good.

(* gemtext, for every scrubbed content and width *)
Theorem gem_render_safe :
  forall (col : colors) (t : text) (w : Z),
  colors_ok col -> clean t -> safe_b (fst (gem_render_with_links col t w)) = true.
Proof. exact gem_render_safe_fact. Qed.
Print Assumptions gem_render_safe.

(* plain text *)
Theorem plain_render_safe :
  forall (col : colors) (t : text) (w : Z),
  colors_ok col -> clean t -> safe_b (fst (plain_render_with_links col t w)) = true.
Proof. exact plain_render_safe_fact. Qed.
Print Assumptions plain_render_safe.

(* error items: style.Problem of ANY error text (raw status lines, media types, quoted network bytes) *)
Theorem problem_safe :
  forall (col : colors) (msg : text), colors_ok col -> safe_b (problem col msg) = true.
Proof. exact problem_safe_fact. Qed.
Print Assumptions problem_safe.

Theorem problem_good :
  forall (col : colors) (msg : text), colors_ok col -> good (problem col msg).
Proof. exact problem_good_fact. Qed.
Print Assumptions problem_good.

(* the status line is scrubbed and squashed *)
Theorem set_length_clean :
  forall (t e r : text) (len : Z),
  clean e -> has_nl e = false -> set_length t len e = Ok r -> clean r /\ has_nl r = false.
Proof. exact set_length_clean_fact. Qed.
Print Assumptions set_length_clean.

Theorem status_line_safe :
  forall (col : colors) (t e r : text) (len : Z),
  colors_ok col -> clean e -> set_length t len e = Ok r -> safe_b (highlight col r) = true.
Proof. exact status_line_safe_fact. Qed.
Print Assumptions status_line_safe.

(* every well-formed styled text with printable letters is safe *)
Theorem safe_wf :
  forall cs : list cell,
  wf_cells cs ->
  forallb (fun c : cell => printable (letter c)) cs = true -> safe_b (collapse cs) = true.
Proof. exact safe_wf_fact. Qed.
Print Assumptions safe_wf.

(* the NAME of a post (title, or the error text standing in for it) is well-formed styled text of printable letters whenever the stored fields are (strings from the sanitising accessors, names of related items, renderings of the body) *)
Theorem post_name_good :
  forall (col : colors) (p : post), colors_ok col -> post_good p -> good (post_name col p).
Proof. exact post_name_good_fact. Qed.
Print Assumptions post_name_good.

(* the FULL TEXT of a post - header with title, kind, authors, recipients, age; body; numbered attachments; footer - at every width *)
Theorem post_string_good :
  forall (col : colors) (p : post) (w : Z),
  colors_ok col -> post_good p -> good (post_string col p w).
Proof. exact post_string_good_fact. Qed.
Print Assumptions post_string_good.

(* the PREVIEW of a post exists (no panic) and is well-formed, at every width *)
Theorem post_preview_good :
  forall (col : colors) (p : post) (w : Z),
  colors_ok col -> post_good p -> exists r : text, post_preview col p w = Ok r /\ good r.
Proof. exact post_preview_good_fact. Qed.
Print Assumptions post_preview_good.

(* names, full texts and previews of profiles *)
Theorem actor_name_good :
  forall (col : colors) (a : actor), colors_ok col -> actor_good a -> good (actor_name col a).
Proof. exact actor_name_good_fact. Qed.
Print Assumptions actor_name_good.

Theorem actor_string_good :
  forall (col : colors) (a : actor) (w : Z),
  colors_ok col -> actor_good a -> good (actor_string col a w).
Proof. exact actor_string_good_fact. Qed.
Print Assumptions actor_string_good.

Theorem actor_preview_good :
  forall (col : colors) (a : actor) (w : Z),
  colors_ok col -> actor_good a -> exists r : text, actor_preview col a w = Ok r /\ good r.
Proof. exact actor_preview_good_fact. Qed.
Print Assumptions actor_preview_good.

(* error items show any message - whatever bytes the library or the server put into it - as sanitised red text *)
Theorem failure_good :
  forall (col : colors) (m : text) (w : Z),
  colors_ok col -> good (failure_name col m) /\ good (failure_string col m w).
Proof. exact failure_good_fact. Qed.
Print Assumptions failure_good.

(* well-formed styled text of printable letters is terminal-safe and attribute-neutral at every line break and at the end *)
Theorem item_safe_neutral :
  forall t : text, good t -> safe_b t = true /\ neutral_b t = true.
Proof. exact item_safe_neutral_fact. Qed.
Print Assumptions item_safe_neutral.

(* WHOLE FRAMES - the frame of ANY UI state is well-formed styled text of printable letters provided the items' own texts are (post/actor/failure *_good above); the status line may hold anything the user typed or a hook printed: SetLength sanitises it *)
Theorem view_good :
  forall (I C : Type) (preload : Z) (col : colors) (full_text preview_text : I -> Z -> text)
  (s : Ui.ui I C) (t : text),
  colors_ok col ->
  (forall (i : I) (w : Z), good (full_text i w)) ->
  (forall (i : I) (w : Z), good (preview_text i w)) ->
  Ui.view I C preload col full_text preview_text s = Ok t -> good t.
Proof. exact view_good_fact. Qed.
Print Assumptions view_good.

(* every frame emitted along every history is computed, has the terminal's height and is good *)
Theorem every_frame_good :
  forall (I C : Type) (preload : Z) (parents : I -> nat -> list I * option I)
  (children : I -> option C) (harvest : C -> nat -> nat -> list I * option C * nat)
  (select_link : I -> Z -> option text) (creators recipients : I -> option (list I))
  (actor_of : I -> option I) (media pfp banner : I -> option text)
  (open_link open_user : text -> Ui.opened I C) (feed_named : text -> option C)
  (hook_fails : text -> option text) (msg_unknown_feed msg_bad_command : text -> text)
  (col : colors) (full_text preview_text : I -> Z -> text) (s0 s : Ui.ui I C)
  (sh : Ui.shown I C),
  UiFacts.ui_inv I C s0 ->
  frames_inv I C s0 ->
  reachable_from I C preload parents children harvest select_link creators recipients actor_of
  media pfp banner open_link open_user feed_named hook_fails msg_unknown_feed
  msg_bad_command s0 s ->
  In sh (Ui.u_frames I C s) ->
  colors_ok col ->
  0 <= Ui.u_width I C (ui_of_shown I C sh) ->
  (forall (i : I) (w : Z), good (full_text i w)) ->
  (forall (i : I) (w : Z), good (preview_text i w)) ->
  exists t : text,
  Ui.view I C preload col full_text preview_text (ui_of_shown I C sh) = Ok t /\
  good t /\
  (2 <= Ui.u_height I C (ui_of_shown I C sh) ->
  height t = Ui.u_height I C (ui_of_shown I C sh)).
Proof. exact every_frame_good_fact. Qed.
Print Assumptions every_frame_good.

(* activities (who did what above the target): full text and preview exist (the four accepted kinds never reach the panic) and are good when the actor's name and the target's texts are *)
Theorem activity_string_good :
  forall (col : colors) (a : activity) (w : Z),
  colors_ok col ->
  activity_good a -> exists r : text, activity_string col a w = Ok r /\ good r.
Proof. exact activity_string_good_fact. Qed.
Print Assumptions activity_string_good.

Theorem activity_preview_good :
  forall (col : colors) (a : activity) (w : Z),
  colors_ok col ->
  activity_good a -> exists r : text, activity_preview col a w = Ok r /\ good r.
Proof. exact activity_preview_good_fact. Qed.
Print Assumptions activity_preview_good.

(* COMPOSITION - the UI over pub's own items (posts, profiles, activities, error items whose stored fields are good): EVERY frame of EVERY history from a start state is computed, as tall as the terminal, well-formed, terminal-safe and attribute-neutral *)
Theorem pub_frames_good :
  forall (C : Type) (preload : Z) (parents : gitem -> nat -> list gitem * option gitem)
  (children : gitem -> option C) (harvest : C -> nat -> nat -> list gitem * option C * nat)
  (select_link : gitem -> Z -> option text)
  (creators recipients : gitem -> option (list gitem)) (actor_of : gitem -> option gitem)
  (media pfp banner : gitem -> option text)
  (open_link open_user : text -> Ui.opened gitem C) (feed_named : text -> option C)
  (hook_fails : text -> option text) (msg_unknown_feed msg_bad_command : text -> text)
  (col : colors) (s0 s : Ui.ui gitem C) (sh : Ui.shown gitem C),
  UiFacts.ui_inv gitem C s0 ->
  frames_inv gitem C s0 ->
  reachable_from gitem C preload parents children harvest select_link creators recipients
  actor_of media pfp banner open_link open_user feed_named hook_fails msg_unknown_feed
  msg_bad_command s0 s ->
  In sh (Ui.u_frames gitem C s) ->
  colors_ok col ->
  0 <= Ui.u_width gitem C (ui_of_shown gitem C sh) ->
  exists t : text,
  Ui.view gitem C preload col (gfull col) (gpreview col) (ui_of_shown gitem C sh) = Ok t /\
  good t /\
  safe_b t = true /\
  neutral_b t = true /\
  (2 <= Ui.u_height gitem C (ui_of_shown gitem C sh) ->
  height t = Ui.u_height gitem C (ui_of_shown gitem C sh)).
Proof. exact pub_frames_good_fact. Qed.
Print Assumptions pub_frames_good.
