(* C07 - Keys do what the keymap says on every history and never crash the UI.
   [update] is the model of ui.State.Update, [run_task] the locked tail of a background goroutine
   (see Ui.v); items, containers and everything package pub provides are universally quantified
   oracles.  [ui_inv] (UiFacts.v): pages hold genuine two-sided feeds, history only names existing
   pages and has a valid cursor, a page exists whenever the mode is not "loading", and every page
   has at most one loader per direction, exactly as its flags say.  [reachable_from s0]: any interleaving
   of key presses, resizes and completions of ANY pending task, from s0; the program starts in
   start_open / start_feed, the states State.Subcommand("open"|"feed", arg) puts a fresh State in
   (subcommand_start).  [reachable] - the same closure from the bare initial loading screen - is
   kept with reachable_only_resizes, which shows that by itself it only reaches resized loading
   screens (a vacuity of the first formulation found while proving the frame theorems).
   [frames_inv]: every frame emitted so far was computed from a state satisfying view_inv.
   Only property theorems here. *)

From Servitor Require Import Base Unicode Ansi Style History Feed Ui.
From Servitor.Facts Require Import UiFacts.
Local Open Scope Z_scope.
From Servitor.Facts Require Import HtmlFacts FrameFacts.
From Servitor.Facts Require Import ThreadFacts.
From Servitor.Facts Require Import HeldFacts.

(* the invariant holds in EVERY state reachable from the bare initial screen (see reachable_only_resizes; the meaningful statement is reachable_from_inv below) *)
Theorem reachable_inv :
  forall (I C : Type) (preload : Z) (parents : I -> nat -> list I * option I)
  (children : I -> option C) (harvest : C -> nat -> nat -> list I * option C * nat)
  (select_link : I -> Z -> option text) (creators recipients : I -> option (list I))
  (actor_of : I -> option I) (media pfp banner : I -> option text)
  (open_link open_user : text -> opened I C) (feed_named : text -> option C)
  (hook_fails : text -> option text) (msg_unknown_feed msg_bad_command : text -> text)
  (w h : Z) (s : ui I C),
  reachable I C preload parents children harvest select_link creators recipients actor_of
  media pfp banner open_link open_user feed_named hook_fails msg_unknown_feed
  msg_bad_command w h s -> ui_inv I C s.
Proof. exact reachable_inv_fact. Qed.
Print Assumptions reachable_inv.

Theorem update_inv :
  forall (I C : Type) (preload : Z) (parents : I -> nat -> list I * option I)
  (children : I -> option C) (select_link : I -> Z -> option text)
  (creators recipients : I -> option (list I)) (actor_of : I -> option I)
  (media pfp banner : I -> option text) (open_link open_user : text -> opened I C)
  (feed_named : text -> option C) (msg_unknown_feed msg_bad_command : text -> text)
  (s : ui I C) (key : N),
  ui_inv I C s ->
  ui_inv I C
  (update I C preload parents children select_link creators recipients actor_of media pfp
  banner open_link open_user feed_named msg_unknown_feed msg_bad_command s key).
Proof. exact update_inv_fact. Qed.
Print Assumptions update_inv.

Theorem run_task_inv :
  forall (I C : Type) (preload : Z) (parents : I -> nat -> list I * option I)
  (children : I -> option C) (harvest : C -> nat -> nat -> list I * option C * nat)
  (hook_fails : text -> option text) (s : ui I C) (t : task I C)
  (pre post : list (task I C)),
  ui_inv I C s ->
  u_tasks I C s = pre ++ t :: post ->
  ui_inv I C
  (run_task I C preload parents children harvest hook_fails (remove_task I C s pre post) t).
Proof. exact run_task_inv_fact. Qed.
Print Assumptions run_task_inv.

Theorem resize_inv :
  forall (I C : Type) (s : ui I C) (w h : Z), ui_inv I C s -> ui_inv I C (resize I C s w h).
Proof. exact resize_inv_fact. Qed.
Print Assumptions resize_inv.

Theorem init_inv :
  forall (I C : Type) (w h : Z), ui_inv I C (ui_init I C w h).
Proof. exact init_inv_fact. Qed.
Print Assumptions init_inv.

Theorem settle_inv :
  forall (I C : Type) (preload : Z) (parents : I -> nat -> list I * option I)
  (children : I -> option C) (harvest : C -> nat -> nat -> list I * option C * nat)
  (hook_fails : text -> option text) (fuel : nat) (s : ui I C),
  ui_inv I C s -> ui_inv I C (settle I C preload parents children harvest hook_fails fuel s).
Proof. exact settle_inv_fact. Qed.
Print Assumptions settle_inv.

(* (the invariant without the flag/frontier clauses is NOT inductive: formal counterexample) *)
Theorem weak_inv_not_inductive :
  forall (I C : Type) (preload : Z) (parents : I -> nat -> list I * option I)
  (children : I -> option C) (harvest : C -> nat -> nat -> list I * option C * nat)
  (hook_fails : text -> option text),
  exists (s : ui I C) (t : task I C) (pre post : list (task I C)),
  ui_inv_weak I C s /\
  u_tasks I C s = pre ++ t :: post /\
  ~
  ui_inv_weak I C
  (run_task I C preload parents children harvest hook_fails (remove_task I C s pre post) t).
Proof. exact weak_inv_not_inductive_fact. Qed.
Print Assumptions weak_inv_not_inductive.

(* in every such state the frame is computed without a panic (no lookup outside the feed, no Current on an empty history) *)
Theorem view_no_panic_colors :
  forall (I C : Type) (preload : Z) (col : colors) (full_text preview_text : I -> Z -> text)
  (s : ui I C),
  ui_inv I C s ->
  0 <= u_width I C s ->
  StyleFacts.colors_ok col ->
  exists t : text, view I C preload col full_text preview_text s = Ok t.
Proof. exact view_no_panic_colors_fact. Qed.
Print Assumptions view_no_panic_colors.

(* every key is ignored while loading *)
Theorem loading_ignores_keys :
  forall (I C : Type) (preload : Z) (parents : I -> nat -> list I * option I)
  (children : I -> option C) (select_link : I -> Z -> option text)
  (creators recipients : I -> option (list I)) (actor_of : I -> option I)
  (media pfp banner : I -> option text) (open_link open_user : text -> opened I C)
  (feed_named : text -> option C) (msg_unknown_feed msg_bad_command : text -> text)
  (s : ui I C) (key : N),
  u_mode I C s = MLoading ->
  update I C preload parents children select_link creators recipients actor_of media pfp
  banner open_link open_user feed_named msg_unknown_feed msg_bad_command s key = s.
Proof. exact loading_ignores_keys_fact. Qed.
Print Assumptions loading_ignores_keys.

(* Esc always cancels and changes nothing else *)
Theorem esc_cancels :
  forall (I C : Type) (preload : Z) (parents : I -> nat -> list I * option I)
  (children : I -> option C) (select_link : I -> Z -> option text)
  (creators recipients : I -> option (list I)) (actor_of : I -> option I)
  (media pfp banner : I -> option text) (open_link open_user : text -> opened I C)
  (feed_named : text -> option C) (msg_unknown_feed msg_bad_command : text -> text)
  (s : ui I C),
  u_mode I C s <> MLoading ->
  let s' :=
  update I C preload parents children select_link creators recipients actor_of media pfp
  banner open_link open_user feed_named msg_unknown_feed msg_bad_command s 27 in
  u_mode I C s' = MNormal /\
  u_buffer I C s' = [] /\
  u_pages I C s' = u_pages I C s /\
  u_hist I C s' = u_hist I C s /\ u_tasks I C s' = u_tasks I C s.
Proof. exact esc_cancels_fact. Qed.
Print Assumptions esc_cancels.

Theorem colon_enters_command :
  forall (I C : Type) (preload : Z) (parents : I -> nat -> list I * option I)
  (children : I -> option C) (select_link : I -> Z -> option text)
  (creators recipients : I -> option (list I)) (actor_of : I -> option I)
  (media pfp banner : I -> option text) (open_link open_user : text -> opened I C)
  (feed_named : text -> option C) (msg_unknown_feed msg_bad_command : text -> text)
  (s : ui I C),
  u_mode I C s = MNormal \/
  u_mode I C s = MSelection \/ u_mode I C s = MOpening \/ u_mode I C s = MProblem ->
  let s' :=
  update I C preload parents children select_link creators recipients actor_of media pfp
  banner open_link open_user feed_named msg_unknown_feed msg_bad_command s 58 in
  u_mode I C s' = MCommand /\
  u_buffer I C s' = [] /\ u_pages I C s' = u_pages I C s /\ u_hist I C s' = u_hist I C s.
Proof. exact colon_enters_command_fact. Qed.
Print Assumptions colon_enters_command.

(* in command mode bytes are appended *)
Theorem command_types :
  forall (I C : Type) (preload : Z) (parents : I -> nat -> list I * option I)
  (children : I -> option C) (select_link : I -> Z -> option text)
  (creators recipients : I -> option (list I)) (actor_of : I -> option I)
  (media pfp banner : I -> option text) (open_link open_user : text -> opened I C)
  (feed_named : text -> option C) (msg_unknown_feed msg_bad_command : text -> text)
  (s : ui I C) (key : N),
  u_mode I C s = MCommand ->
  key <> 27%N ->
  key <> 127%N ->
  key <> 13%N ->
  let s' :=
  update I C preload parents children select_link creators recipients actor_of media pfp
  banner open_link open_user feed_named msg_unknown_feed msg_bad_command s key in
  u_mode I C s' = MCommand /\
  u_buffer I C s' = u_buffer I C s ++ [key] /\
  u_pages I C s' = u_pages I C s /\
  u_hist I C s' = u_hist I C s /\ u_tasks I C s' = u_tasks I C s.
Proof. exact command_types_fact. Qed.
Print Assumptions command_types.

(* a digit starts selecting a link *)
Theorem digit_selects :
  forall (I C : Type) (preload : Z) (parents : I -> nat -> list I * option I)
  (children : I -> option C) (select_link : I -> Z -> option text)
  (creators recipients : I -> option (list I)) (actor_of : I -> option I)
  (media pfp banner : I -> option text) (open_link open_user : text -> opened I C)
  (feed_named : text -> option C) (msg_unknown_feed msg_bad_command : text -> text)
  (s : ui I C) (d : N),
  u_mode I C s = MNormal ->
  (48 <= d <= 57)%N ->
  let s' :=
  update I C preload parents children select_link creators recipients actor_of media pfp
  banner open_link open_user feed_named msg_unknown_feed msg_bad_command s d in
  u_mode I C s' = MSelection /\
  u_buffer I C s' = [d] /\ u_pages I C s' = u_pages I C s /\ u_hist I C s' = u_hist I C s.
Proof. exact digit_selects_fact. Qed.
Print Assumptions digit_selects.

Theorem digit_appends :
  forall (I C : Type) (preload : Z) (parents : I -> nat -> list I * option I)
  (children : I -> option C) (select_link : I -> Z -> option text)
  (creators recipients : I -> option (list I)) (actor_of : I -> option I)
  (media pfp banner : I -> option text) (open_link open_user : text -> opened I C)
  (feed_named : text -> option C) (msg_unknown_feed msg_bad_command : text -> text)
  (s : ui I C) (d : N),
  u_mode I C s = MSelection ->
  (48 <= d <= 57)%N ->
  let s' :=
  update I C preload parents children select_link creators recipients actor_of media pfp
  banner open_link open_user feed_named msg_unknown_feed msg_bad_command s d in
  u_mode I C s' = MSelection /\
  u_buffer I C s' = u_buffer I C s ++ [d] /\
  u_pages I C s' = u_pages I C s /\ u_hist I C s' = u_hist I C s.
Proof. exact digit_appends_fact. Qed.
Print Assumptions digit_appends.

(* h / l walk the history (back / forward of the History model: saturating) *)
Theorem history_keys :
  forall (I C : Type) (preload : Z) (parents : I -> nat -> list I * option I)
  (children : I -> option C) (select_link : I -> Z -> option text)
  (creators recipients : I -> option (list I)) (actor_of : I -> option I)
  (media pfp banner : I -> option text) (open_link open_user : text -> opened I C)
  (feed_named : text -> option C) (msg_unknown_feed msg_bad_command : text -> text)
  (s : ui I C),
  u_mode I C s = MNormal ->
  u_hist I C
  (update I C preload parents children select_link creators recipients actor_of media pfp
  banner open_link open_user feed_named msg_unknown_feed msg_bad_command s 104) =
  h_back (u_hist I C s) /\
  u_hist I C
  (update I C preload parents children select_link creators recipients actor_of media pfp
  banner open_link open_user feed_named msg_unknown_feed msg_bad_command s 108) =
  h_forward (u_hist I C s) /\
  u_pages I C
  (update I C preload parents children select_link creators recipients actor_of media pfp
  banner open_link open_user feed_named msg_unknown_feed msg_bad_command s 104) =
  u_pages I C s /\
  u_pages I C
  (update I C preload parents children select_link creators recipients actor_of media pfp
  banner open_link open_user feed_named msg_unknown_feed msg_bad_command s 108) =
  u_pages I C s /\
  u_mode I C
  (update I C preload parents children select_link creators recipients actor_of media pfp
  banner open_link open_user feed_named msg_unknown_feed msg_bad_command s 104) = MNormal /\
  u_mode I C
  (update I C preload parents children select_link creators recipients actor_of media pfp
  banner open_link open_user feed_named msg_unknown_feed msg_bad_command s 108) = MNormal.
Proof. exact history_keys_fact. Qed.
Print Assumptions history_keys.

(* j moves one item down iff one exists there *)
Theorem move_down_key :
  forall (I C : Type) (preload : Z) (parents : I -> nat -> list I * option I)
  (children : I -> option C) (select_link : I -> Z -> option text)
  (creators recipients : I -> option (list I)) (actor_of : I -> option I)
  (media pfp banner : I -> option text) (open_link open_user : text -> opened I C)
  (feed_named : text -> option C) (msg_unknown_feed msg_bad_command : text -> text)
  (s : ui I C) (k : nat) (p : page I C) (it : I),
  u_mode I C s = MNormal ->
  cur_pid I C s = Some k ->
  page_find I C (u_pages I C s) k = Some p ->
  f_current (pg_feed I C p) = Some it ->
  u_hist I C
  (update I C preload parents children select_link creators recipients actor_of media pfp
  banner open_link open_user feed_named msg_unknown_feed msg_bad_command s 106) =
  u_hist I C s /\
  (exists p' : page I C,
  page_find I C
  (u_pages I C
  (update I C preload parents children select_link creators recipients actor_of media
  pfp banner open_link open_user feed_named msg_unknown_feed msg_bad_command s 106))
  k = Some p' /\
  pg_feed I C p' = f_move_down (pg_feed I C p) /\
  f_index (pg_feed I C p') =
  (if f_contains (pg_feed I C p) 1
  then f_index (pg_feed I C p) + 1
  else f_index (pg_feed I C p)) /\ f_map (pg_feed I C p') = f_map (pg_feed I C p)).
Proof. exact move_down_key_fact. Qed.
Print Assumptions move_down_key.

(* k likewise upwards *)
Theorem move_up_key :
  forall (I C : Type) (preload : Z) (parents : I -> nat -> list I * option I)
  (children : I -> option C) (select_link : I -> Z -> option text)
  (creators recipients : I -> option (list I)) (actor_of : I -> option I)
  (media pfp banner : I -> option text) (open_link open_user : text -> opened I C)
  (feed_named : text -> option C) (msg_unknown_feed msg_bad_command : text -> text)
  (s : ui I C) (k : nat) (p : page I C) (it : I),
  u_mode I C s = MNormal ->
  cur_pid I C s = Some k ->
  page_find I C (u_pages I C s) k = Some p ->
  f_current (pg_feed I C p) = Some it ->
  u_hist I C
  (update I C preload parents children select_link creators recipients actor_of media pfp
  banner open_link open_user feed_named msg_unknown_feed msg_bad_command s 107) =
  u_hist I C s /\
  (exists p' : page I C,
  page_find I C
  (u_pages I C
  (update I C preload parents children select_link creators recipients actor_of media
  pfp banner open_link open_user feed_named msg_unknown_feed msg_bad_command s 107))
  k = Some p' /\
  pg_feed I C p' = f_move_up (pg_feed I C p) /\
  f_index (pg_feed I C p') =
  (if f_contains (pg_feed I C p) (-1)
  then f_index (pg_feed I C p) - 1
  else f_index (pg_feed I C p)) /\ f_map (pg_feed I C p') = f_map (pg_feed I C p)).
Proof. exact move_up_key_fact. Qed.
Print Assumptions move_up_key.

(* g returns to the opened item *)
Theorem move_center_key :
  forall (I C : Type) (preload : Z) (parents : I -> nat -> list I * option I)
  (children : I -> option C) (select_link : I -> Z -> option text)
  (creators recipients : I -> option (list I)) (actor_of : I -> option I)
  (media pfp banner : I -> option text) (open_link open_user : text -> opened I C)
  (feed_named : text -> option C) (msg_unknown_feed msg_bad_command : text -> text)
  (s : ui I C) (k : nat) (p : page I C) (it : I),
  u_mode I C s = MNormal ->
  cur_pid I C s = Some k ->
  page_find I C (u_pages I C s) k = Some p ->
  f_current (pg_feed I C p) = Some it ->
  u_hist I C
  (update I C preload parents children select_link creators recipients actor_of media pfp
  banner open_link open_user feed_named msg_unknown_feed msg_bad_command s 103) =
  u_hist I C s /\
  u_tasks I C
  (update I C preload parents children select_link creators recipients actor_of media pfp
  banner open_link open_user feed_named msg_unknown_feed msg_bad_command s 103) =
  u_tasks I C s /\
  (exists p' : page I C,
  page_find I C
  (u_pages I C
  (update I C preload parents children select_link creators recipients actor_of media
  pfp banner open_link open_user feed_named msg_unknown_feed msg_bad_command s 103))
  k = Some p' /\
  pg_feed I C p' = f_move_to_center (pg_feed I C p) /\
  f_index (pg_feed I C p') =
  (if f_contains (pg_feed I C p) (- f_index (pg_feed I C p))
  then 0
  else f_index (pg_feed I C p)) /\ f_map (pg_feed I C p') = f_map (pg_feed I C p)).
Proof. exact move_center_key_fact. Qed.
Print Assumptions move_center_key.

(* space opens the highlighted item as a new page, dropping the forward history *)
Theorem space_opens :
  forall (I C : Type) (preload : Z) (parents : I -> nat -> list I * option I)
  (children : I -> option C) (select_link : I -> Z -> option text)
  (creators recipients : I -> option (list I)) (actor_of : I -> option I)
  (media pfp banner : I -> option text) (open_link open_user : text -> opened I C)
  (feed_named : text -> option C) (msg_unknown_feed msg_bad_command : text -> text)
  (s : ui I C) (k : nat) (p : page I C) (it : I),
  u_mode I C s = MNormal ->
  cur_pid I C s = Some k ->
  page_find I C (u_pages I C s) k = Some p ->
  f_current (pg_feed I C p) = Some it ->
  let s' :=
  update I C preload parents children select_link creators recipients actor_of media pfp
  banner open_link open_user feed_named msg_unknown_feed msg_bad_command s 32 in
  u_hist I C s' = h_add (u_hist I C s) (length (u_pages I C s)) /\
  cur_pid I C s' = Some (length (u_pages I C s)) /\
  (exists p' : page I C,
  page_find I C (u_pages I C s') (length (u_pages I C s)) = Some p' /\
  pg_feed I C p' = f_create it /\ f_current (pg_feed I C p') = Some it) /\
  (forall k0 : nat,
  k0 <> length (u_pages I C s) ->
  page_find I C (u_pages I C s') k0 = page_find I C (u_pages I C s) k0).
Proof. exact space_opens_fact. Qed.
Print Assumptions space_opens.

Theorem space_keeps_pages :
  forall (I C : Type) (preload : Z) (parents : I -> nat -> list I * option I)
  (children : I -> option C) (select_link : I -> Z -> option text)
  (creators recipients : I -> option (list I)) (actor_of : I -> option I)
  (media pfp banner : I -> option text) (open_link open_user : text -> opened I C)
  (feed_named : text -> option C) (msg_unknown_feed msg_bad_command : text -> text)
  (s : ui I C) (k : nat) (p : page I C) (it : I),
  ui_inv I C s ->
  u_mode I C s = MNormal ->
  cur_pid I C s = Some k ->
  page_find I C (u_pages I C s) k = Some p ->
  f_current (pg_feed I C p) = Some it ->
  forall (k0 : nat) (p0 : page I C),
  page_find I C (u_pages I C s) k0 = Some p0 ->
  page_find I C
  (u_pages I C
  (update I C preload parents children select_link creators recipients actor_of media pfp
  banner open_link open_user feed_named msg_unknown_feed msg_bad_command s 32)) k0 =
  Some p0.
Proof. exact space_keeps_pages_fact. Qed.
Print Assumptions space_keeps_pages.

(* the states the program starts in: Subcommand(open, arg) and Subcommand(feed, arg) on the fresh State *)
Theorem subcommand_start :
  forall (I C : Type) (open_user : text -> opened I C) (feed_named : text -> option C)
  (msg_unknown_feed msg_bad_command : text -> text) (w h : Z) (arg : text),
  run_command I C open_user feed_named msg_unknown_feed msg_bad_command
  (ui_init I C w h) s_open arg = start_open I C open_user w h arg /\
  (forall c : C,
  feed_named arg = Some c ->
  run_command I C open_user feed_named msg_unknown_feed msg_bad_command
  (ui_init I C w h) s_feed arg = start_feed I C w h c).
Proof. exact subcommand_start_fact. Qed.
Print Assumptions subcommand_start.

(* both satisfy the invariants *)
Theorem start_open_ok :
  forall (I C : Type) (open_user : text -> opened I C) (w h : Z) (input : text),
  ui_inv I C (start_open I C open_user w h input) /\
  frames_inv I C (start_open I C open_user w h input).
Proof. exact start_open_ok_fact. Qed.
Print Assumptions start_open_ok.

Theorem start_feed_ok :
  forall (I C : Type) (w h : Z) (c : C),
  ui_inv I C (start_feed I C w h c) /\ frames_inv I C (start_feed I C w h c).
Proof. exact start_feed_ok_fact. Qed.
Print Assumptions start_feed_ok.

(* the invariants hold in EVERY state reachable from such a start by keys (all 256 byte values), resizes and completions of ANY pending background task, in any order *)
Theorem reachable_from_inv :
  forall (I C : Type) (preload : Z) (parents : I -> nat -> list I * option I)
  (children : I -> option C) (harvest : C -> nat -> nat -> list I * option C * nat)
  (select_link : I -> Z -> option text) (creators recipients : I -> option (list I))
  (actor_of : I -> option I) (media pfp banner : I -> option text)
  (open_link open_user : text -> opened I C) (feed_named : text -> option C)
  (hook_fails : text -> option text) (msg_unknown_feed msg_bad_command : text -> text)
  (s0 s : ui I C),
  ui_inv I C s0 ->
  frames_inv I C s0 ->
  reachable_from I C preload parents children harvest select_link creators recipients actor_of
  media pfp banner open_link open_user feed_named hook_fails msg_unknown_feed
  msg_bad_command s0 s -> ui_inv I C s /\ frames_inv I C s.
Proof. exact reachable_from_inv_fact. Qed.
Print Assumptions reachable_from_inv.

(* and EVERY frame emitted along such a history was computed without a panic (no lookup outside the feed, no Current on an empty history) and has exactly as many lines as the terminal had rows *)
Theorem every_frame_from :
  forall (I C : Type) (preload : Z) (parents : I -> nat -> list I * option I)
  (children : I -> option C) (harvest : C -> nat -> nat -> list I * option C * nat)
  (select_link : I -> Z -> option text) (creators recipients : I -> option (list I))
  (actor_of : I -> option I) (media pfp banner : I -> option text)
  (open_link open_user : text -> opened I C) (feed_named : text -> option C)
  (hook_fails : text -> option text) (msg_unknown_feed msg_bad_command : text -> text)
  (col : colors) (full_text preview_text : I -> Z -> text) (s0 s : ui I C)
  (sh : shown I C),
  ui_inv I C s0 ->
  frames_inv I C s0 ->
  reachable_from I C preload parents children harvest select_link creators recipients actor_of
  media pfp banner open_link open_user feed_named hook_fails msg_unknown_feed
  msg_bad_command s0 s ->
  In sh (u_frames I C s) ->
  StyleFacts.colors_ok col ->
  0 <= u_width I C (ui_of_shown I C sh) ->
  exists t : text,
  view I C preload col full_text preview_text (ui_of_shown I C sh) = Ok t /\
  (2 <= u_height I C (ui_of_shown I C sh) -> height t = u_height I C (ui_of_shown I C sh)).
Proof. exact every_frame_from_fact. Qed.
Print Assumptions every_frame_from.

(* (the closure from the bare initial screen alone is degenerate: only resizes change anything) *)
Theorem reachable_only_resizes :
  forall (I C : Type) (preload : Z) (parents : I -> nat -> list I * option I)
  (children : I -> option C) (harvest : C -> nat -> nat -> list I * option C * nat)
  (select_link : I -> Z -> option text) (creators recipients : I -> option (list I))
  (actor_of : I -> option I) (media pfp banner : I -> option text)
  (open_link open_user : text -> opened I C) (feed_named : text -> option C)
  (hook_fails : text -> option text) (msg_unknown_feed msg_bad_command : text -> text)
  (w h : Z) (s : ui I C),
  reachable I C preload parents children harvest select_link creators recipients actor_of
  media pfp banner open_link open_user feed_named hook_fails msg_unknown_feed
  msg_bad_command w h s ->
  u_mode I C s = MLoading /\
  u_tasks I C s = [] /\ u_pages I C s = [] /\ u_hist I C s = h_init /\ u_buffer I C s = [].
Proof. exact reachable_only_resizes_fact. Qed.
Print Assumptions reachable_only_resizes.

(* REFINEMENT to an abstract thread (ancestors, the opened item, replies; world-coherence hypotheses say what the oracles parents / children / harvest return on a thread whose structure is known, preload >= 1). Opening an item and letting the loads settle shows a window of its thread around position 0 *)
Theorem open_refines :
  forall (I : Type) (anc : I -> list I) (kids : I -> option (list I)) 
  (C : Type) (items_of : C -> list I) (preload : Z)
  (parents : I -> nat -> list I * option I) (children : I -> option C)
  (harvest : C -> nat -> nat -> list I * option C * nat),
  1 <= preload ->
  (forall i : I, parents i 0%nat = ([], match anc i with
  | [] => None
  | _ :: _ => Some i
  end)) ->
  (forall (i : I) (q : nat),
  (1 <= q)%nat -> parents i q = (firstn q (anc i), nth_error (anc i) (q - 1))) ->
  (forall (i : I) (k : nat) (a : I),
  nth_error (anc i) k = Some a -> anc a = skipn (S k) (anc i)) ->
  (forall i : I,
  match kids i with
  | Some l => exists c : C, children i = Some c /\ items_of c = l
  | None => children i = None
  end) ->
  (forall (c : C) (q b : nat),
  harvest c q b =
  (firstn q (skipn b (items_of c)),
  if (b + q <? length (items_of c))%nat then Some c else None,
  if (b + q <? length (items_of c))%nat then (b + q)%nat else 0%nat)) ->
  (I -> Z -> option text) ->
  (I -> option (list I)) ->
  (I -> option (list I)) ->
  (I -> option I) ->
  (I -> option text) ->
  (I -> option text) ->
  (I -> option text) ->
  forall (hook_fails : text -> option text) (s : ui I C) (r : I) (fuel : nat),
  ui_inv I C s ->
  u_tasks I C s = [] ->
  (2 <= fuel)%nat ->
  let s' :=
  settle I C preload parents children harvest hook_fails fuel
  (run_task I C preload parents children harvest hook_fails s (TOpen I C (OItem I C r)))
  in
  ui_inv I C s' /\
  u_mode I C s' = MNormal /\
  u_tasks I C s' = [] /\
  (exists (k : nat) (p : page I C),
  cur_pid I C s' = Some k /\
  page_find I C (u_pages I C s') k = Some p /\
  thread_page I anc kids C items_of r p /\
  covered I anc kids C preload r p /\ cursor I C p = 0 /\ cur_item I C s' = Some r).
Proof. exact open_refines_fact. Qed.
Print Assumptions open_refines.

(* k: once loads have settled the cursor is one position up iff the THREAD has an item there (not merely the loaded window), the highlighted item is the thread's item at the new position, page and mode are unchanged, and the window again covers preload positions around the cursor *)
Theorem key_up_refines :
  forall (I : Type) (anc : I -> list I) (kids : I -> option (list I)) 
  (C : Type) (items_of : C -> list I) (preload : Z)
  (parents : I -> nat -> list I * option I) (children : I -> option C)
  (harvest : C -> nat -> nat -> list I * option C * nat),
  1 <= preload ->
  (forall i : I, parents i 0%nat = ([], match anc i with
  | [] => None
  | _ :: _ => Some i
  end)) ->
  (forall (i : I) (q : nat),
  (1 <= q)%nat -> parents i q = (firstn q (anc i), nth_error (anc i) (q - 1))) ->
  (forall (i : I) (k : nat) (a : I),
  nth_error (anc i) k = Some a -> anc a = skipn (S k) (anc i)) ->
  (forall i : I,
  match kids i with
  | Some l => exists c : C, children i = Some c /\ items_of c = l
  | None => children i = None
  end) ->
  (forall (c : C) (q b : nat),
  harvest c q b =
  (firstn q (skipn b (items_of c)),
  if (b + q <? length (items_of c))%nat then Some c else None,
  if (b + q <? length (items_of c))%nat then (b + q)%nat else 0%nat)) ->
  forall (select_link : I -> Z -> option text) (creators recipients : I -> option (list I))
  (actor_of : I -> option I) (media pfp banner : I -> option text)
  (open_link open_user : text -> opened I C) (feed_named : text -> option C)
  (hook_fails : text -> option text) (msg_unknown_feed msg_bad_command : text -> text)
  (s : ui I C) (r : I) (k : nat) (p : page I C) (fuel : nat),
  ui_inv I C s ->
  u_mode I C s = MNormal ->
  u_tasks I C s = [] ->
  cur_pid I C s = Some k ->
  page_find I C (u_pages I C s) k = Some p ->
  thread_page I anc kids C items_of r p ->
  covered I anc kids C preload r p ->
  (2 <= fuel)%nat ->
  let s' :=
  settle I C preload parents children harvest hook_fails fuel
  (update I C preload parents children select_link creators recipients actor_of media pfp
  banner open_link open_user feed_named msg_unknown_feed msg_bad_command s 107) in
  ui_inv I C s' /\
  u_mode I C s' = MNormal /\
  u_tasks I C s' = [] /\
  cur_pid I C s' = Some k /\
  (exists p' : page I C,
  page_find I C (u_pages I C s') k = Some p' /\
  thread_page I anc kids C items_of r p' /\
  covered I anc kids C preload r p' /\
  cursor I C p' =
  (if thread_hasb I anc kids r (cursor I C p - 1) then cursor I C p - 1 else cursor I C p) /\
  cur_item I C s' = thread_at I anc kids r (cursor I C p') /\
  (forall x : Z,
  covered_at I anc kids C preload r p x -> covered_at I anc kids C preload r p' x)).
Proof. exact key_up_refines_fact. Qed.
Print Assumptions key_up_refines.

(* j likewise *)
Theorem key_down_refines :
  forall (I : Type) (anc : I -> list I) (kids : I -> option (list I)) 
  (C : Type) (items_of : C -> list I) (preload : Z)
  (parents : I -> nat -> list I * option I) (children : I -> option C)
  (harvest : C -> nat -> nat -> list I * option C * nat),
  1 <= preload ->
  (forall i : I, parents i 0%nat = ([], match anc i with
  | [] => None
  | _ :: _ => Some i
  end)) ->
  (forall (i : I) (q : nat),
  (1 <= q)%nat -> parents i q = (firstn q (anc i), nth_error (anc i) (q - 1))) ->
  (forall (i : I) (k : nat) (a : I),
  nth_error (anc i) k = Some a -> anc a = skipn (S k) (anc i)) ->
  (forall i : I,
  match kids i with
  | Some l => exists c : C, children i = Some c /\ items_of c = l
  | None => children i = None
  end) ->
  (forall (c : C) (q b : nat),
  harvest c q b =
  (firstn q (skipn b (items_of c)),
  if (b + q <? length (items_of c))%nat then Some c else None,
  if (b + q <? length (items_of c))%nat then (b + q)%nat else 0%nat)) ->
  forall (select_link : I -> Z -> option text) (creators recipients : I -> option (list I))
  (actor_of : I -> option I) (media pfp banner : I -> option text)
  (open_link open_user : text -> opened I C) (feed_named : text -> option C)
  (hook_fails : text -> option text) (msg_unknown_feed msg_bad_command : text -> text)
  (s : ui I C) (r : I) (k : nat) (p : page I C) (fuel : nat),
  ui_inv I C s ->
  u_mode I C s = MNormal ->
  u_tasks I C s = [] ->
  cur_pid I C s = Some k ->
  page_find I C (u_pages I C s) k = Some p ->
  thread_page I anc kids C items_of r p ->
  covered I anc kids C preload r p ->
  (2 <= fuel)%nat ->
  let s' :=
  settle I C preload parents children harvest hook_fails fuel
  (update I C preload parents children select_link creators recipients actor_of media pfp
  banner open_link open_user feed_named msg_unknown_feed msg_bad_command s 106) in
  ui_inv I C s' /\
  u_mode I C s' = MNormal /\
  u_tasks I C s' = [] /\
  cur_pid I C s' = Some k /\
  (exists p' : page I C,
  page_find I C (u_pages I C s') k = Some p' /\
  thread_page I anc kids C items_of r p' /\
  covered I anc kids C preload r p' /\
  cursor I C p' =
  (if thread_hasb I anc kids r (cursor I C p + 1) then cursor I C p + 1 else cursor I C p) /\
  cur_item I C s' = thread_at I anc kids r (cursor I C p') /\
  (forall x : Z,
  covered_at I anc kids C preload r p x -> covered_at I anc kids C preload r p' x)).
Proof. exact key_down_refines_fact. Qed.
Print Assumptions key_down_refines.

(* g returns to the opened item (it starts no load: coverage around position 0 is what opening established and windows only grow - key_center_opened_partial; the statement with full coverage for arbitrary windows is refuted by key_center_refines_refuted in ThreadFacts) *)
Theorem key_center_refines_partial :
  forall (I : Type) (anc : I -> list I) (kids : I -> option (list I)) 
  (C : Type) (items_of : C -> list I) (preload : Z)
  (parents : I -> nat -> list I * option I) (children : I -> option C)
  (harvest : C -> nat -> nat -> list I * option C * nat),
  (forall i : I, parents i 0%nat = ([], match anc i with
  | [] => None
  | _ :: _ => Some i
  end)) ->
  (forall (i : I) (q : nat),
  (1 <= q)%nat -> parents i q = (firstn q (anc i), nth_error (anc i) (q - 1))) ->
  (forall (i : I) (k : nat) (a : I),
  nth_error (anc i) k = Some a -> anc a = skipn (S k) (anc i)) ->
  (forall i : I,
  match kids i with
  | Some l => exists c : C, children i = Some c /\ items_of c = l
  | None => children i = None
  end) ->
  (forall (c : C) (q b : nat),
  harvest c q b =
  (firstn q (skipn b (items_of c)),
  if (b + q <? length (items_of c))%nat then Some c else None,
  if (b + q <? length (items_of c))%nat then (b + q)%nat else 0%nat)) ->
  forall (select_link : I -> Z -> option text) (creators recipients : I -> option (list I))
  (actor_of : I -> option I) (media pfp banner : I -> option text)
  (open_link open_user : text -> opened I C) (feed_named : text -> option C)
  (hook_fails : text -> option text) (msg_unknown_feed msg_bad_command : text -> text)
  (s : ui I C) (r : I) (k : nat) (p : page I C) (fuel : nat),
  ui_inv I C s ->
  u_mode I C s = MNormal ->
  u_tasks I C s = [] ->
  cur_pid I C s = Some k ->
  page_find I C (u_pages I C s) k = Some p ->
  thread_page I anc kids C items_of r p ->
  let s' :=
  settle I C preload parents children harvest hook_fails fuel
  (update I C preload parents children select_link creators recipients actor_of media pfp
  banner open_link open_user feed_named msg_unknown_feed msg_bad_command s 103) in
  ui_inv I C s' /\
  u_mode I C s' = MNormal /\
  u_tasks I C s' = [] /\
  cur_pid I C s' = Some k /\
  (exists p' : page I C,
  page_find I C (u_pages I C s') k = Some p' /\
  thread_page I anc kids C items_of r p' /\
  cursor I C p' = 0 /\
  cur_item I C s' = thread_at I anc kids r (cursor I C p') /\
  (forall x : Z,
  covered_at I anc kids C preload r p x -> covered_at I anc kids C preload r p' x) /\
  (covered_at I anc kids C preload r p 0 -> covered I anc kids C preload r p')).
Proof. exact key_center_refines_partial_fact. Qed.
Print Assumptions key_center_refines_partial.

Theorem key_center_opened_partial :
  forall (I : Type) (anc : I -> list I) (kids : I -> option (list I)) 
  (C : Type) (items_of : C -> list I) (preload : Z)
  (parents : I -> nat -> list I * option I) (children : I -> option C)
  (harvest : C -> nat -> nat -> list I * option C * nat),
  1 <= preload ->
  (forall i : I, parents i 0%nat = ([], match anc i with
  | [] => None
  | _ :: _ => Some i
  end)) ->
  (forall (i : I) (q : nat),
  (1 <= q)%nat -> parents i q = (firstn q (anc i), nth_error (anc i) (q - 1))) ->
  (forall (i : I) (k : nat) (a : I),
  nth_error (anc i) k = Some a -> anc a = skipn (S k) (anc i)) ->
  (forall i : I,
  match kids i with
  | Some l => exists c : C, children i = Some c /\ items_of c = l
  | None => children i = None
  end) ->
  (forall (c : C) (q b : nat),
  harvest c q b =
  (firstn q (skipn b (items_of c)),
  if (b + q <? length (items_of c))%nat then Some c else None,
  if (b + q <? length (items_of c))%nat then (b + q)%nat else 0%nat)) ->
  forall (select_link : I -> Z -> option text) (creators recipients : I -> option (list I))
  (actor_of : I -> option I) (media pfp banner : I -> option text)
  (open_link open_user : text -> opened I C) (feed_named : text -> option C)
  (hook_fails : text -> option text) (msg_unknown_feed msg_bad_command : text -> text)
  (s : ui I C) (r : I) (x : Z) (fuel : nat),
  at_pos I anc kids C items_of preload r s x ->
  (2 <= fuel)%nat ->
  at_pos I anc kids C items_of preload r
  (settle I C preload parents children harvest hook_fails fuel
  (update I C preload parents children select_link creators recipients actor_of media pfp
  banner open_link open_user feed_named msg_unknown_feed msg_bad_command s 103)) 0.
Proof. exact key_center_opened_partial_fact. Qed.
Print Assumptions key_center_opened_partial.

(* for EVERY sequence of k / j / g the highlighted item is the abstract walk's *)
Theorem thread_walk_refines :
  forall (I : Type) (anc : I -> list I) (kids : I -> option (list I)) 
  (C : Type) (items_of : C -> list I) (preload : Z)
  (parents : I -> nat -> list I * option I) (children : I -> option C)
  (harvest : C -> nat -> nat -> list I * option C * nat),
  1 <= preload ->
  (forall i : I, parents i 0%nat = ([], match anc i with
  | [] => None
  | _ :: _ => Some i
  end)) ->
  (forall (i : I) (q : nat),
  (1 <= q)%nat -> parents i q = (firstn q (anc i), nth_error (anc i) (q - 1))) ->
  (forall (i : I) (k : nat) (a : I),
  nth_error (anc i) k = Some a -> anc a = skipn (S k) (anc i)) ->
  (forall i : I,
  match kids i with
  | Some l => exists c : C, children i = Some c /\ items_of c = l
  | None => children i = None
  end) ->
  (forall (c : C) (q b : nat),
  harvest c q b =
  (firstn q (skipn b (items_of c)),
  if (b + q <? length (items_of c))%nat then Some c else None,
  if (b + q <? length (items_of c))%nat then (b + q)%nat else 0%nat)) ->
  forall (select_link : I -> Z -> option text) (creators recipients : I -> option (list I))
  (actor_of : I -> option I) (media pfp banner : I -> option text)
  (open_link open_user : text -> opened I C) (feed_named : text -> option C)
  (hook_fails : text -> option text) (msg_unknown_feed msg_bad_command : text -> text)
  (s : ui I C) (r : I) (fuel : nat) (keys : list N),
  ui_inv I C s ->
  u_tasks I C s = [] ->
  (2 <= fuel)%nat ->
  Forall key_ok keys ->
  let s0 :=
  settle I C preload parents children harvest hook_fails fuel
  (run_task I C preload parents children harvest hook_fails s (TOpen I C (OItem I C r)))
  in
  cur_item I C
  (browse I C preload parents children harvest select_link creators recipients actor_of
  media pfp banner open_link open_user feed_named hook_fails msg_unknown_feed
  msg_bad_command fuel s0 keys) = thread_at I anc kids r (walk I anc kids r keys) /\
  thread_has I anc kids r (walk I anc kids r keys) /\
  at_pos I anc kids C items_of preload r
  (browse I C preload parents children harvest select_link creators recipients actor_of
  media pfp banner open_link open_user feed_named hook_fails msg_unknown_feed
  msg_bad_command fuel s0 keys) (walk I anc kids r keys).
Proof. exact thread_walk_refines_fact. Qed.
Print Assumptions thread_walk_refines.

(* the same from the state Subcommand(open, x) starts the program in *)
Theorem thread_walk_from_start :
  forall (I : Type) (anc : I -> list I) (kids : I -> option (list I)) 
  (C : Type) (items_of : C -> list I) (preload : Z)
  (parents : I -> nat -> list I * option I) (children : I -> option C)
  (harvest : C -> nat -> nat -> list I * option C * nat),
  1 <= preload ->
  (forall i : I, parents i 0%nat = ([], match anc i with
  | [] => None
  | _ :: _ => Some i
  end)) ->
  (forall (i : I) (q : nat),
  (1 <= q)%nat -> parents i q = (firstn q (anc i), nth_error (anc i) (q - 1))) ->
  (forall (i : I) (k : nat) (a : I),
  nth_error (anc i) k = Some a -> anc a = skipn (S k) (anc i)) ->
  (forall i : I,
  match kids i with
  | Some l => exists c : C, children i = Some c /\ items_of c = l
  | None => children i = None
  end) ->
  (forall (c : C) (q b : nat),
  harvest c q b =
  (firstn q (skipn b (items_of c)),
  if (b + q <? length (items_of c))%nat then Some c else None,
  if (b + q <? length (items_of c))%nat then (b + q)%nat else 0%nat)) ->
  forall (select_link : I -> Z -> option text) (creators recipients : I -> option (list I))
  (actor_of : I -> option I) (media pfp banner : I -> option text)
  (open_link open_user : text -> opened I C) (feed_named : text -> option C)
  (hook_fails : text -> option text) (msg_unknown_feed msg_bad_command : text -> text)
  (w h : Z) (input : text) (r : I) (fuel : nat) (keys : list N),
  open_user input = OItem I C r ->
  (2 <= fuel)%nat ->
  Forall key_ok keys ->
  let s0 :=
  settle I C preload parents children harvest hook_fails (S fuel)
  (start_open I C open_user w h input) in
  cur_item I C
  (browse I C preload parents children harvest select_link creators recipients actor_of
  media pfp banner open_link open_user feed_named hook_fails msg_unknown_feed
  msg_bad_command fuel s0 keys) = thread_at I anc kids r (walk I anc kids r keys) /\
  thread_has I anc kids r (walk I anc kids r keys).
Proof. exact thread_walk_from_start_fact. Qed.
Print Assumptions thread_walk_from_start.

(* every key that arrives while a page load is in flight is dropped, whatever the sequence *)
Theorem keys_dropped_while_loading :
  forall (I C : Type) (preload : Z) (parents : I -> nat -> list I * option I)
  (children : I -> option C) (select_link : I -> Z -> option text)
  (creators recipients : I -> option (list I)) (actor_of : I -> option I)
  (media pfp banner : I -> option text) (open_link open_user : text -> opened I C)
  (feed_named : text -> option C) (msg_unknown_feed msg_bad_command : text -> text)
  (keys : list N) (s : ui I C),
  u_mode I C s = MLoading ->
  fold_left
  (fun (s0 : ui I C) (k : N) =>
  update I C preload parents children select_link creators recipients actor_of media pfp
  banner open_link open_user feed_named msg_unknown_feed msg_bad_command s0 k) keys s = s.
Proof. exact keys_dropped_while_loading_fact. Qed.
Print Assumptions keys_dropped_while_loading.

(* a load that was held while keys arrived lands on the state it was started from (the page is added after the page the user was on) *)
Theorem held_open_lands :
  forall (I C : Type) (preload : Z) (parents : I -> nat -> list I * option I)
  (children : I -> option C) (harvest : C -> nat -> nat -> list I * option C * nat)
  (select_link : I -> Z -> option text) (creators recipients : I -> option (list I))
  (actor_of : I -> option I) (media pfp banner : I -> option text)
  (open_link open_user : text -> opened I C) (feed_named : text -> option C)
  (hook_fails : text -> option text) (msg_unknown_feed msg_bad_command : text -> text)
  (keys : list N) (s : ui I C) (r : opened I C) (pre post : list (task I C)),
  u_mode I C s = MLoading ->
  u_tasks I C s = pre ++ TOpen I C r :: post ->
  let s' :=
  fold_left
  (fun (s0 : ui I C) (k : N) =>
  update I C preload parents children select_link creators recipients actor_of media pfp
  banner open_link open_user feed_named msg_unknown_feed msg_bad_command s0 k) keys s
  in
  u_tasks I C s' = pre ++ TOpen I C r :: post /\
  run_task I C preload parents children harvest hook_fails (remove_task I C s' pre post)
  (TOpen I C r) =
  frame I C
  (set_mode I C
  (switch_opened I C preload parents children harvest (remove_task I C s pre post) r)
  MNormal []).
Proof. exact held_open_lands_fact. Qed.
Print Assumptions held_open_lands.

(* the same for a feed *)
Theorem held_feed_lands :
  forall (I C : Type) (preload : Z) (parents : I -> nat -> list I * option I)
  (children : I -> option C) (harvest : C -> nat -> nat -> list I * option C * nat)
  (select_link : I -> Z -> option text) (creators recipients : I -> option (list I))
  (actor_of : I -> option I) (media pfp banner : I -> option text)
  (open_link open_user : text -> opened I C) (feed_named : text -> option C)
  (hook_fails : text -> option text) (msg_unknown_feed msg_bad_command : text -> text)
  (keys : list N) (s : ui I C) (c : C) (pre post : list (task I C)),
  u_mode I C s = MLoading ->
  u_tasks I C s = pre ++ TFeed I C c :: post ->
  let s' :=
  fold_left
  (fun (s0 : ui I C) (k : N) =>
  update I C preload parents children select_link creators recipients actor_of media pfp
  banner open_link open_user feed_named msg_unknown_feed msg_bad_command s0 k) keys s
  in
  u_tasks I C s' = pre ++ TFeed I C c :: post /\
  run_task I C preload parents children harvest hook_fails (remove_task I C s' pre post)
  (TFeed I C c) =
  frame I C
  (set_mode I C (switch_coll I C preload harvest (remove_task I C s pre post) c) MNormal []).
Proof. exact held_feed_lands_fact. Qed.
Print Assumptions held_feed_lands.

(* the schedules the harness forces (some goroutines held back) are schedules of the step relation *)
Theorem settle_sel_reachable :
  forall (I C : Type) (preload : Z) (parents : I -> nat -> list I * option I)
  (children : I -> option C) (harvest : C -> nat -> nat -> list I * option C * nat)
  (select_link : I -> Z -> option text) (creators recipients : I -> option (list I))
  (actor_of : I -> option I) (media pfp banner : I -> option text)
  (open_link open_user : text -> opened I C) (feed_named : text -> option C)
  (hook_fails : text -> option text) (msg_unknown_feed msg_bad_command : text -> text)
  (ok : task I C -> bool) (fuel : nat) (s0 s : ui I C),
  reachable_from I C preload parents children harvest select_link creators recipients actor_of
  media pfp banner open_link open_user feed_named hook_fails msg_unknown_feed
  msg_bad_command s0 s ->
  reachable_from I C preload parents children harvest select_link creators recipients actor_of
  media pfp banner open_link open_user feed_named hook_fails msg_unknown_feed
  msg_bad_command s0 (settle_sel I C preload parents children harvest hook_fails ok fuel s).
Proof. exact settle_sel_reachable_fact. Qed.
Print Assumptions settle_sel_reachable.
