From Servitor Require Import Base.
