(* C02 - An object is only attributed to the host that actually served it.
   [served W is_https resolve host_of h v]: v is the top-level document of a response whose final
   URL (after redirects) has host h, or a sub-value at any depth of such a document.  The world W
   - what every host, attacker-controlled ones included, answers - is universally quantified, as
   are the cache contents (any cache that only holds answers servers really gave) and net/url.
   Only property theorems here. *)

From Servitor Require Import Base Json Object Jtp Client.
From Servitor.Facts Require Import JtpFacts ClientFacts.

(* whenever an object is accepted WITH an id, its JSON was served - after following redirects - by the host named in the id: fetched from it or embedded in a document that came from it; for every world, every fetch order, every cache state *)
Theorem fetch_unknown_provenance :
  forall (W : url -> entry) (is_https : url -> bool) (resolve : url -> bytes -> option url)
  (cap : nat) (parse_ref : option url -> text -> option url)
  (url_parse : text -> option url) (host_of : url -> text) (c : cache)
  (input : jv) (source : option url) (o : obj) (id : url) (c' : cache)
  (log : list url),
  cache_sound W is_https resolve as_tolerated c ->
  source = None \/
  (exists s : url, source = Some s /\ served W is_https resolve host_of (host_of s) input) ->
  fetch_unknown W is_https resolve cap parse_ref url_parse host_of c input source =
  (FUOk o (Some id), c', log) ->
  served W is_https resolve host_of (host_of id) (JObj o) /\
  cache_sound W is_https resolve as_tolerated c'.
Proof. exact fetch_unknown_provenance_fact. Qed.
Print Assumptions fetch_unknown_provenance.

Theorem fetch_url_served :
  forall (W : url -> entry) (is_https : url -> bool) (resolve : url -> bytes -> option url)
  (cap : nat) (host_of : url -> text) (c : cache) (u : url) (d : list (text * jv))
  (src : url) (c' : cache) (log : list url),
  cache_sound W is_https resolve as_tolerated c ->
  fetch_url W is_https resolve cap c u = (ODoc d src, c', log) ->
  served W is_https resolve host_of (host_of src) (JObj d) /\
  cache_sound W is_https resolve as_tolerated c'.
Proof. exact fetch_url_served_fact. Qed.
Print Assumptions fetch_url_served.

Theorem fetch_unknown_cache_sound :
  forall (W : url -> entry) (is_https : url -> bool) (resolve : url -> bytes -> option url)
  (cap : nat) (parse_ref : option url -> text -> option url)
  (url_parse : text -> option url) (host_of : url -> text) (c : cache)
  (input : jv) (source : option url) (r : fu_result) (c' : cache)
  (log : list url),
  cache_sound W is_https resolve as_tolerated c ->
  fetch_unknown W is_https resolve cap parse_ref url_parse host_of c input source =
  (r, c', log) -> cache_sound W is_https resolve as_tolerated c'.
Proof. exact fetch_unknown_cache_sound_fact. Qed.
Print Assumptions fetch_unknown_cache_sound.

Theorem fetch_unknown_no_id :
  forall (W : url -> entry) (is_https : url -> bool) (resolve : url -> bytes -> option url)
  (cap : nat) (parse_ref : option url -> text -> option url)
  (url_parse : text -> option url) (host_of : url -> text) (c : cache)
  (input : jv) (source : option url) (o : obj) (c' : cache) (log : list url),
  fetch_unknown W is_https resolve cap parse_ref url_parse host_of c input source =
  (FUOk o None, c', log) -> obj_id url_parse o = Some None.
Proof. exact fetch_unknown_no_id_fact. Qed.
Print Assumptions fetch_unknown_no_id.
