(* C02 - An object is only attributed to the host that actually served it.
   [served W is_https resolve host_of h v]: v is the top-level document of a response whose final
   URL (after redirects) has host h, or a sub-value at any depth of such a document.  The world W
   - what every host, attacker-controlled ones included, answers - is universally quantified, as
   are the cache contents (any cache that only holds answers servers really gave) and net/url.
   Only property theorems here. *)

From Servitor Require Import Base Json Object Jtp Client.
From Servitor.Facts Require Import JtpFacts ClientFacts.
From Servitor Require Import Webfinger Open.
From Servitor.Facts Require Import OpenFacts.

(* whenever an object is accepted WITH an id, its JSON was served - after following redirects - by the host named in the id: fetched from it or embedded in a document that came from it; for every world, every fetch order, every cache state *)
Theorem fetch_unknown_provenance :
  forall (W : url -> entry) (is_https : url -> bool) (resolve : url -> bytes -> option url)
  (cap : nat) (parse_ref : option url -> text -> option url)
  (url_parse : text -> option url) (host_of : url -> text) (c : cache)
  (input : jv) (source : option url) (o : obj) (id : url) (c' : cache)
  (log : list url),
  cache_sound W is_https resolve as_tolerated c ->
  source = None \/
  (exists s : url, source = Some s /\ served W is_https resolve host_of (host_of s) input) ->
  fetch_unknown W is_https resolve cap parse_ref url_parse host_of c input source =
  (FUOk o (Some id), c', log) ->
  served W is_https resolve host_of (host_of id) (JObj o) /\
  cache_sound W is_https resolve as_tolerated c'.
Proof. exact fetch_unknown_provenance_fact. Qed.
Print Assumptions fetch_unknown_provenance.

Theorem fetch_url_served :
  forall (W : url -> entry) (is_https : url -> bool) (resolve : url -> bytes -> option url)
  (cap : nat) (host_of : url -> text) (c : cache) (u : url) (d : list (text * jv))
  (src : url) (c' : cache) (log : list url),
  cache_sound W is_https resolve as_tolerated c ->
  fetch_url W is_https resolve cap c u = (ODoc d src, c', log) ->
  served W is_https resolve host_of (host_of src) (JObj d) /\
  cache_sound W is_https resolve as_tolerated c'.
Proof. exact fetch_url_served_fact. Qed.
Print Assumptions fetch_url_served.

Theorem fetch_unknown_cache_sound :
  forall (W : url -> entry) (is_https : url -> bool) (resolve : url -> bytes -> option url)
  (cap : nat) (parse_ref : option url -> text -> option url)
  (url_parse : text -> option url) (host_of : url -> text) (c : cache)
  (input : jv) (source : option url) (r : fu_result) (c' : cache)
  (log : list url),
  cache_sound W is_https resolve as_tolerated c ->
  fetch_unknown W is_https resolve cap parse_ref url_parse host_of c input source =
  (r, c', log) -> cache_sound W is_https resolve as_tolerated c'.
Proof. exact fetch_unknown_cache_sound_fact. Qed.
Print Assumptions fetch_unknown_cache_sound.

Theorem fetch_unknown_no_id :
  forall (W : url -> entry) (is_https : url -> bool) (resolve : url -> bytes -> option url)
  (cap : nat) (parse_ref : option url -> text -> option url)
  (url_parse : text -> option url) (host_of : url -> text) (c : cache)
  (input : jv) (source : option url) (o : obj) (c' : cache) (log : list url),
  fetch_unknown W is_https resolve cap parse_ref url_parse host_of c input source =
  (FUOk o None, c', log) -> obj_id url_parse o = Some None.
Proof. exact fetch_unknown_no_id_fact. Qed.
Print Assumptions fetch_unknown_no_id.

(* TYPED INPUT (:open @name, :open url): what pub.FetchUserInput accepts WITH an id was served by the host named in the id - also when a webfinger lookup comes first and leaves its own (tagged) entries in the shared cache: mixed_sound is the invariant of such a cache, the three hygiene hypotheses say that no real URL looks like a tagged key *)
Theorem fetch_user_input_provenance :
  forall (W : url -> entry) (is_https : url -> bool) (resolve : url -> bytes -> option url)
  (cap : nat) (parse_ref : option url -> text -> option url)
  (url_parse : text -> option url) (host_of : url -> text) (mk_url : bytes -> bytes -> url),
  (forall (u : url) (v : bytes) (r : url),
  ~ is_tagged u -> resolve u v = Some r -> ~ is_tagged r) ->
  (forall (s : option url) (t : text) (r : url), parse_ref s t = Some r -> ~ is_tagged r) ->
  (forall (t : text) (r : url), url_parse t = Some r -> ~ is_tagged r) ->
  forall (c : cache) (typed : bytes) (o : obj) (id : url) (c' : cache) (log : list url),
  mixed_sound W is_https resolve c ->
  fetch_user_input W is_https resolve cap parse_ref url_parse host_of mk_url c typed =
  (FUOk o (Some id), c', log) ->
  served W is_https resolve host_of (host_of id) (JObj o) /\ mixed_sound W is_https resolve c'.
Proof. exact fetch_user_input_provenance_fact. Qed.
Print Assumptions fetch_user_input_provenance.

(* the provenance rule over a cache that webfinger lookups have used as well *)
Theorem fetch_unknown_mixed_provenance :
  forall (W : url -> entry) (is_https : url -> bool) (resolve : url -> bytes -> option url)
  (cap : nat) (parse_ref : option url -> text -> option url)
  (url_parse : text -> option url) (host_of : url -> text),
  (forall (u : url) (v : bytes) (r : url),
  ~ is_tagged u -> resolve u v = Some r -> ~ is_tagged r) ->
  (forall (s : option url) (t : text) (r : url), parse_ref s t = Some r -> ~ is_tagged r) ->
  (forall (t : text) (r : url), url_parse t = Some r -> ~ is_tagged r) ->
  forall (c : cache) (input : jv) (source : option url) (o : obj)
  (id : url) (c' : cache) (log : list url),
  mixed_sound W is_https resolve c ->
  source = None \/
  (exists s : url, source = Some s /\ served W is_https resolve host_of (host_of s) input) ->
  fetch_unknown W is_https resolve cap parse_ref url_parse host_of c input source =
  (FUOk o (Some id), c', log) ->
  served W is_https resolve host_of (host_of id) (JObj o) /\ mixed_sound W is_https resolve c'.
Proof. exact fetch_unknown_mixed_provenance_fact. Qed.
Print Assumptions fetch_unknown_mixed_provenance.

(* tagged entries are never read by a document fetch: outcome and requests are those of the run on the untagged part of the cache *)
Theorem get_mixed :
  forall (W : url -> entry) (is_https : url -> bool) (resolve : url -> bytes -> option url)
  (cap : nat),
  (forall (u : url) (v : bytes) (r : url),
  ~ is_tagged u -> resolve u v = Some r -> ~ is_tagged r) ->
  forall (b : nat) (c : cache) (u : url),
  ~ is_tagged u ->
  mixed_sound W is_https resolve c ->
  let
  '(o, c', log) := get W is_https resolve as_tolerated cap b c u in
  (exists b' : nat, o = fst (cold W is_https resolve as_tolerated b' u)) /\
  mixed_sound W is_https resolve c' /\
  (forall x : url * outcome, In x c' -> In x c \/ ~ is_tagged (fst x)) /\
  (o, log) =
  (let
  '(o2, _, log2) := get W is_https resolve as_tolerated cap b (untagged_part c) u in
  (o2, log2)).
Proof. exact get_mixed_fact. Qed.
Print Assumptions get_mixed.

(* a lookup keeps a mixed cache sound *)
Theorem resolve_webfinger_mixed :
  forall (W : url -> entry) (is_https : url -> bool) (resolve : url -> bytes -> option url)
  (cap : nat) (mk_url : bytes -> bytes -> url) (c : cache) (name : bytes),
  mixed_sound W is_https resolve c ->
  mixed_sound W is_https resolve
  (snd (fst (resolve_webfinger W is_https resolve cap mk_url c name))).
Proof. exact resolve_webfinger_mixed_fact. Qed.
Print Assumptions resolve_webfinger_mixed.

(* the target of an activity (embedded directly or inside an inline Create wrapper, whatever ids they claim) is resolved as part of the activity's document against the activity's id: the object shown was served by the host its id names *)
Theorem activity_target_provenance :
  forall (W : url -> entry) (is_https : url -> bool) (resolve : url -> bytes -> option url)
  (cap : nat) (parse_ref : option url -> text -> option url)
  (url_parse : text -> option url) (host_of : url -> text),
  (forall (u : url) (v : bytes) (r : url),
  ~ is_tagged u -> resolve u v = Some r -> ~ is_tagged r) ->
  (forall (s : option url) (t : text) (r : url), parse_ref s t = Some r -> ~ is_tagged r) ->
  (forall (t : text) (r : url), url_parse t = Some r -> ~ is_tagged r) ->
  forall (c : cache) (act : list (text * jv)) (act_id : option url)
  (r : jv) (o : obj) (id : url) (c' : cache) (log : list url),
  mixed_sound W is_https resolve c ->
  act_id = None \/
  (exists s : url, act_id = Some s /\ served W is_https resolve host_of (host_of s) (JObj act)) ->
  target_ref act = Some r ->
  fetch_unknown W is_https resolve cap parse_ref url_parse host_of c r act_id =
  (FUOk o (Some id), c', log) ->
  served W is_https resolve host_of (host_of id) (JObj o) /\ mixed_sound W is_https resolve c'.
Proof. exact activity_target_provenance_fact. Qed.
Print Assumptions activity_target_provenance.
