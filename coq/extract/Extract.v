(* Extraction of the executable models and oracles.  Only ExtrOcamlBasic's directives are used
   (bool, option, unit, list, prod, sumbool, comparison -> OCaml's own); nat, positive, N, Z
   stay the Coq inductives.  Run with coqc from /verif/ocaml so model.ml lands there. *)
From Coq Require Import Extraction ExtrOcamlBasic.
From Servitor Require Import Base Unicode Ansi AnsiSpec Term Oracles Style Html Gemtext Plaintext Mime Json Object Jtp Client Request Webfinger Listing Pub Links Collection Paging Open Splicer Config Hook ExtractAux History Feed Ui Startup.
Extraction Language OCaml.
Extraction "model.ml"
  text_eqb is_space is_control
  expand collapse apply indent pad wrap wrap_cells dumb_wrap snip height center_vertically
  replace_last_line scrub squash set_length
  mime_parse get_any get_string get_number get_object get_list get_time get_url get_media_type get_markup f64_to_int
  Z.div_eucl Z.add Z.mul Z.opp Z.abs
  timeline_entry reply_entry new_post new_actor kind_in actor_kinds post_kinds activity_kinds
  fetch_url fetch_unknown get parse_request no_crlf no_crlf_sp request_bytes classify_response
  post_name post_string post_preview post_select_link post_media actor_name actor_string actor_preview actor_select_link actor_pfp actor_banner failure_name failure_string activity_name activity_string activity_preview activity_kind_ok
  remote_requests coll_page load_page resolve_webfinger jrd_accept wf_uri query_escape split_at wf_scan
  post_media_of post_attachments_of actor_pfp_of actor_banner_of select_best new_link
  post_timestamp actor_timestamp activity_timestamp
  fetch_user_input source_page opened_summary
  startup_error
  update run_command run_task settle settle_gated settle_sel is_load is_open snapshot ui_init resize view last_frame last_shown
  config_fields render_with_links gem_render_with_links plain_render_with_links split_nl
  harvest harvest_fuel requests chain sp_harvest accept hex_to_ansi hook_command
  sterm_eval sterm_expect link link_block quote_block header bullet code_block superscript problem
  wf_text_b wrap_ok dumb_ok pad_ok snip_ok layout_attrs_ok height_ok neutral_b safe_b display is_param is_clear has_nl
  h_init h_step h_current h_is_empty
  f_start f_step f_obs f_current t_start t_step t_obs t_at.
