(* Extraction of the executable models and oracles.  Only ExtrOcamlBasic's directives are used
   (bool, option, unit, list, prod, sumbool, comparison -> OCaml's own); nat, positive, N, Z
   stay the Coq inductives.  Run with coqc from /verif/ocaml so model.ml lands there. *)
From Coq Require Import Extraction ExtrOcamlBasic.
From Servitor Require Import Base Unicode Ansi History Feed.
Extraction Language OCaml.
Extraction "model.ml"
  text_eqb is_space is_control
  expand collapse apply indent pad wrap wrap_cells dumb_wrap snip height center_vertically
  replace_last_line scrub squash set_length
  h_init h_step h_current h_is_empty
  f_start f_step f_obs f_current t_start t_step t_obs t_at.
